"""Shared dynamic part of the C39 / C40 / C09 checks.

* correspondence: the request streams of harness/helpers_ops.py (real code through the public API vs. the Lean model
  MpModel/Helpers.lean through mpdrv)  ->  `disagreements`;
* property decision: every (request line, implementation answer) pair is decided EXACTLY in Python against the property
  text (integer / Fraction arithmetic, struct bit patterns; no floating point, no model)  ->  `failing_inputs`;
* `impl_of_line` re-runs a recorded request line on the real code (corpus / replay).
"""
import os, json, struct, math, pickle, copy, hashlib
from fractions import Fraction
from common import *  # noqa
import helpers_ops as H

SPECIAL = {(0, 0, -456, -2): "+inf", (1, 0, -789, -3): "-inf", (0, 0, -123, -1): "nan"}
FZERO = (0, 0, 0, 0)


# ------------------------------------------------------------------------------------------------
# exact arithmetic on  man * 2^exp  without ever materialising 2^(huge)
# ------------------------------------------------------------------------------------------------

def cmp_pow2(man, exp, m):
    """sign of  man*2^exp - 2^m   (man > 0)"""
    bl = man.bit_length()
    top = exp + bl - 1
    if man == 1 << (bl - 1):
        return (top > m) - (top < m)
    return -1 if top + 1 <= m else 1


def dec_bits(b):
    """binary64 pattern -> ('fin', sign, man, exp) | ('zero', sign) | ('inf', sign) | ('nan',)  (exact)"""
    sign, ex, fr = b >> 63, (b >> 52) & 0x7ff, b & ((1 << 52) - 1)
    if ex == 2047:
        return ("nan",) if fr else ("inf", sign)
    if ex == 0:
        return ("fin", sign, fr, -1074) if fr else ("zero", sign)
    return ("fin", sign, (1 << 52) | fr, ex - 1075)


def norm(sign, man, exp):
    """strip trailing zero bits (man > 0)"""
    t = (man & -man).bit_length() - 1
    return (sign, man >> t, exp + t)


def tok_real(tok):
    """model token of a real operand -> ('fin', sign, man, exp) | ('zero',) | ('inf', sign) | ('nan',) | ('bad', tuple)"""
    if tok.startswith("D"):
        d = dec_bits(int(tok[1:], 16))
        if d[0] == "zero":
            return ("zero",)
        if d[0] == "fin":
            return ("fin",) + norm(d[1], d[2], d[3])
        return d
    t = dec_mpf(tok)
    if t in SPECIAL:
        return {"+inf": ("inf", 0), "-inf": ("inf", 1), "nan": ("nan",)}[SPECIAL[t]]
    if t == FZERO:
        return ("zero",)
    if t[1] == 0 or t[0] not in (0, 1):
        return ("bad", t)
    return ("fin",) + norm(t[0], t[1], t[2])


MAXSHIFT = 30000     # exponents beyond this are handled symbolically or counted as undecided


def frac_of(r):
    """Fraction of a ('fin', s, man, exp) / ('zero',) with |exp| <= MAXSHIFT, else None"""
    if r[0] == "zero":
        return Fraction(0)
    if r[0] != "fin" or abs(r[3]) > MAXSHIFT:
        return None
    v = Fraction(r[2]) * (Fraction(2) ** r[3])
    return -v if r[1] else v


def is_int_real(r):
    if r[0] == "zero":
        return True
    if r[0] != "fin":
        return False
    return r[3] >= 0          # mantissa is odd after norm()


def sign_of(r):
    return 0 if r[0] == "zero" else (-1 if r[1] else 1)


# ------------------------------------------------------------------------------------------------
# re-running a recorded line on the real code
# ------------------------------------------------------------------------------------------------

class Impl:
    def __init__(self, ho=None):
        self.ho = ho or H.HelperOps()
        self.mp, self.L, self.LC, self.mpq = self.ho.mp, self.ho.L, self.ho.LC, self.ho.mpq

    def real_obj(self, tok):
        if tok.startswith("D"):
            return H.bits2f(int(tok[1:], 16))
        return self.mp.make_mpf(dec_mpf(tok))

    def tuple_of(self, tok):
        if tok.startswith("D"):
            return self.L.from_float(H.bits2f(int(tok[1:], 16)))
        return dec_mpf(tok)

    def operand(self, sfx, t):
        mp = self.mp
        if sfx == "f":
            return self.real_obj(t[0])
        if sfx == "c":
            return mp.make_mpc((self.tuple_of(t[0]), self.tuple_of(t[1])))
        if sfx == "i":
            return int(t[0])
        if sfx == "q":
            v = object.__new__(self.mpq)
            v._mpq_ = (int(t[0]), int(t[1]))
            return v
        raise ValueError(sfx)

    def run(self, line):
        try:
            return self._run(line)
        except RecursionError:
            raise
        except Exception as e:  # noqa
            return enc_exc(e)

    def _run(self, line):
        ho, mp, L = self.ho, self.mp, self.L
        mp.prec = 53
        t = line.split()
        op = t[0]
        base, _, sfx = op.rpartition("_")
        if base == "mag" and sfx in "fciq":
            return ho.enc_mag(mp.mag(self.operand(sfx, t[1:])))
        if base == "nint" and sfx in "fciq":
            return ho.enc_nd(mp.nint_distance(self.operand(sfx, t[1:])))
        if base == "isint" and sfx in "fciq":
            if sfx == "c":
                return enc_result(bool(mp.isint(self.operand(sfx, t[1:3]), gaussian=(t[3] == "1"))))
            return enc_result(bool(mp.isint(self.operand(sfx, t[1:]))))
        if base in ("isnpint", "isnormal", "isinf", "isnan", "isfinite") and sfx in "fciq":
            return enc_result(bool(getattr(mp, base)(self.operand(sfx, t[1:]))))
        if op == "ldexp":
            return enc_mpf(mp.ldexp(self.real_obj(t[1]), int(t[2]))._mpf_)
        if op == "hfrexp":
            y, n = mp.frexp(self.real_obj(t[1]))
            return "P:%s,I:%d" % (enc_mpf(y._mpf_), n)
        if op == "to_pickable":
            return ho.enc_pickled(L.to_pickable(dec_mpf(t[1])))
        if op == "from_pickable":
            return enc_mpf(L.from_pickable((int(t[1]), t[2][1:], int(t[3]), int(t[4]))))
        if op == "pickle_rt":
            v = mp.make_mpf(dec_mpf(t[1]))
            outs = set()
            for w in roundtrips(v):
                outs.add(w if isinstance(w, str) else ("?:type" if type(w) is not type(v) else enc_mpf(w._mpf_)))
            return sorted(outs)[0] if len(outs) == 1 else "?:differ " + " ".join(sorted(outs))[:300]
        if op == "mpc_pickle_rt":
            v = mp.make_mpc((dec_mpf(t[1]), dec_mpf(t[2])))
            outs = set()
            for w in roundtrips(v):
                outs.add(w if isinstance(w, str) else ("?:type" if type(w) is not type(v) else
                                                       "P:%s,%s" % (enc_mpf(w._mpc_[0]), enc_mpf(w._mpc_[1]))))
            return sorted(outs)[0] if len(outs) == 1 else "?:differ " + " ".join(sorted(outs))[:300]
        if op == "mpc_getstate":
            p, q = mp.make_mpc((dec_mpf(t[1]), dec_mpf(t[2]))).__getstate__()
            return ho.enc_pickled(p) + ";" + ho.enc_pickled(q)
        if op == "mat":
            return self.run_mat(t)
        if op == "from_float":
            return enc_mpf(L.from_float(H.bits2f(int(t[1], 16)), int(t[2]), t[3]))
        if op == "to_float":
            return H.enc_dbl(L.to_float(dec_mpf(t[1]) if not t[1].startswith("D") else self.tuple_of(t[1]), t[2] == "1", t[3]))
        if op == "to_complex":
            z = self.LC.mpc_to_complex((dec_mpf(t[1]), dec_mpf(t[2])), t[3] == "1", t[4])
            return "P:%s,%s" % (H.enc_dbl(z.real), H.enc_dbl(z.imag))
        if op == "ldexpd":
            try:
                return H.enc_dbl(math.ldexp(H.bits2f(int(t[1], 16)), int(t[2])))
            except OverflowError:
                return "E:OverflowError"
        if op == "int2d":
            m = int(t[2], 16)
            try:
                return H.enc_dbl(float(-m if t[1] == "1" else m))
            except OverflowError:
                return "E:OverflowError"
        return None

    def entry_obj(self, tok):
        if tok.startswith("F"):
            return self.mp.make_mpf(dec_mpf(tok[1:]))
        a, b = tok[1:].split("/")
        return self.mp.make_mpc((dec_mpf(a), dec_mpf(b)))

    def run_mat(self, t, how="copy"):
        mp = self.mp
        rows, cols = int(t[1]), int(t[2])
        init, sets = parse_mat(t)
        A = mp.matrix(rows, cols)
        try:
            for (w, i, j, e) in init:
                A[i, j] = self.entry_obj(e)
            B = A.copy() if how == "copy" else copy.copy(A) if how == "copy.copy" else copy.deepcopy(A)
            if type(B) is not type(A):
                return "?:type"
            for (w, i, j, e) in sets:
                (A if w == 0 else B)[i, j] = self.entry_obj(e)
        except IndexError:
            return "E:IndexError"
        return "M:" + dump_matrix(A) + "|" + dump_matrix(B)


def roundtrips(v):
    """all pickle protocols, copy.copy, copy.deepcopy of a value; exceptions are returned encoded"""
    for p in range(pickle.HIGHEST_PROTOCOL + 1):
        try:
            yield pickle.loads(pickle.dumps(v, p))
        except Exception as e:  # noqa
            yield "E:" + type(e).__name__
    for f in (copy.copy, copy.deepcopy):
        try:
            yield f(v)
        except Exception as e:  # noqa
            yield "E:" + type(e).__name__


def parse_mat(t):
    rest = t[3:]
    k = rest.index("|")
    a, b = rest[:k], rest[k + 1:]
    g = lambda xs: [(int(xs[i]), int(xs[i + 1]), int(xs[i + 2]), xs[i + 3]) for i in range(0, len(xs), 4)]
    return g(a), g(b)


def dump_matrix(M):
    out = []
    for i in range(M.rows):
        for j in range(M.cols):
            e = M[i, j]
            if hasattr(e, "_mpf_"):
                out.append("F" + enc_mpf(e._mpf_))
            elif hasattr(e, "_mpc_"):
                out.append("C%s/%s" % (enc_mpf(e._mpc_[0]), enc_mpf(e._mpc_[1])))
            else:
                out.append("?:" + repr(e))
    return "%dx%d[%s]" % (M.rows, M.cols, ";".join(out))


# ------------------------------------------------------------------------------------------------
# C39 deciders.  Each returns (status, what): status in "ok" | "violates" | "undecided" | "notclaimed"
# ------------------------------------------------------------------------------------------------

def operand_of(sfx, t):
    """exact description of the operand of a C39 line"""
    if sfx == "f":
        return ("real", tok_real(t[0]))
    if sfx == "c":
        return ("complex", tok_real(t[0]), tok_real(t[1]))
    if sfx == "i":
        n = int(t[0])
        return ("real", ("zero",) if n == 0 else ("fin",) + norm(1 if n < 0 else 0, abs(n), 0))
    if sfx == "q":
        return ("rat", int(t[0]), int(t[1]))
    raise ValueError(sfx)


def parts_of(x):
    """(re, im) descriptions of a real/complex operand; rationals are returned as ('rat', p, q)"""
    if x[0] == "real":
        return x[1], ("zero",)
    if x[0] == "complex":
        return x[1], x[2]
    return None


def decide_mag(x, out):
    if x[0] == "rat":
        p, q = x[1], x[2]
        if q <= 0:
            return "notclaimed", None
        if p == 0:
            return ("ok", None) if out == "X:-inf" else ("violates", "mag(0) is %s, not -inf" % out)
        if not out.startswith("I:"):
            return "violates", "mag of a nonzero rational is %s" % out
        m = int(out[2:])
        v = Fraction(abs(p), q)
        if not v <= Fraction(2) ** m:
            return "violates", "|x| > 2^m, m=%d" % m
        if not v > Fraction(2) ** (m - 3):
            return "violates", "m=%d is more than 2 above the optimal bound" % m
        return "ok", None
    re, im = parts_of(x)
    kinds = (re[0], im[0])
    if "bad" in kinds:
        return "notclaimed", None
    if "nan" in kinds:
        return "notclaimed", None          # the text fixes 0 and the infinities only
    if "inf" in kinds:
        return ("ok", None) if out == "X:+inf" else ("violates", "mag of an infinite number is %s, not +inf" % out)
    if kinds == ("zero", "zero"):
        return ("ok", None) if out == "X:-inf" else ("violates", "mag(0) is %s, not -inf" % out)
    if not out.startswith("I:"):
        return "violates", "mag of a finite nonzero number is %s" % out
    m = int(out[2:])
    if "zero" in kinds:
        r = re if im[0] == "zero" else im
        if cmp_pow2(r[2], r[3], m) > 0:
            return "violates", "|x| > 2^m, m=%d" % m
        if cmp_pow2(r[2], r[3], m - 3) <= 0:
            return "violates", "m=%d is more than 2 above the optimal bound" % m
        return "ok", None
    a, b = frac_of(re), frac_of(im)
    if a is None or b is None or abs(m) > MAXSHIFT:
        return "undecided", None
    n2 = a * a + b * b
    if not n2 <= Fraction(4) ** m:
        return "violates", "|z| > 2^m, m=%d" % m
    if not n2 > Fraction(4) ** (m - 3):
        return "violates", "m=%d is more than 2 above the optimal bound" % m
    return "ok", None


def parse_nd(out):
    """'P:I:n,I:d' / 'P:I:n,X:-inf' -> (n, d or None for -inf) ; None if not of that shape"""
    if not out.startswith("P:I:"):
        return None
    a, b = out[2:].split(",")
    if b == "X:-inf":
        return int(a[2:]), None
    if b.startswith("I:"):
        return int(a[2:]), int(b[2:])
    return None


def real_minus_int(r, n):
    """|r - n| as ('zero',) or (man, exp), exactly; r finite.  None if too large to form."""
    if r[0] == "zero":
        return ("zero",) if n == 0 else (abs(n), 0)
    s, man, exp = r[1], r[2], r[3]
    sm = -man if s else man
    if exp >= 0:
        if exp > MAXSHIFT:
            return None
        d = abs((sm << exp) - n)
        return ("zero",) if d == 0 else (d, 0)
    if -exp > MAXSHIFT:
        # |r| < 2^(bitlength+exp): astronomically small; r - n = -n + tiny
        if n == 0:
            return (man, exp)
        return "far"
    d = abs(sm - (n << -exp))
    return ("zero",) if d == 0 else (d, exp)


def decide_nint(x, out):
    """nearest integer n, exponent d with |x - n| 'close to' 2^d: decided as 2^(d-1) <= |x-n| < 2^(d+1)
    (within a factor 2 either way), d = -inf exactly when x = n"""
    if x[0] == "rat":
        p, q = x[1], x[2]
        if q <= 0:
            return "notclaimed", None
        nd = parse_nd(out)
        if nd is None:
            return "violates", "nint_distance of a rational gives %s" % out
        n, d = nd
        diff = abs(Fraction(p, q) - n)
        return _nd_check(diff, d)
    re, im = parts_of(x)
    kinds = (re[0], im[0])
    if "bad" in kinds:
        return "notclaimed", None
    if "inf" in kinds or "nan" in kinds:
        # there is no nearest integer and no distance: the only answer consistent with the text (and the one the
        # code documents, "requires a finite number") is to raise
        if out == "E:ValueError":
            return "ok", None
        return "violates", "nint_distance of a non-finite number returns %s instead of raising ValueError" % out
    nd = parse_nd(out)
    if nd is None:
        return "violates", "nint_distance of a finite number gives %s" % out
    n, d = nd
    dre = real_minus_int(re, n)
    if dre is None:
        return "undecided", None
    if dre == "far":
        return "violates", "n=%d is not the nearest integer of a number below 2^-%d" % (n, MAXSHIFT)
    if dre != ("zero",) and cmp_pow2(dre[0], dre[1], -1) > 0:
        return "violates", "n=%d is not a nearest integer: |Re x - n| > 1/2" % n
    if im[0] == "zero":
        if dre == ("zero",):
            return ("ok", None) if d is None else ("violates", "x is an integer but d=%d, not -inf" % d)
        if d is None:
            return "violates", "d=-inf but x is not an integer"
        if cmp_pow2(dre[0], dre[1], d - 1) < 0 or cmp_pow2(dre[0], dre[1], d + 1) >= 0:
            return "violates", "|x-n| is not within a factor 2 of 2^d, d=%d" % d
        return "ok", None
    # complex: modulus
    if d is None:
        return "violates", "d=-inf but Im x is not zero"
    b = frac_of(im)
    a = Fraction(0) if dre == ("zero",) else (Fraction(dre[0]) * Fraction(2) ** dre[1] if abs(dre[1]) <= MAXSHIFT else None)
    if a is None or b is None or abs(d) > MAXSHIFT:
        return "undecided", None
    n2 = a * a + b * b
    if n2 < Fraction(4) ** (d - 1) or n2 >= Fraction(4) ** (d + 1):
        return "violates", "|x-n| is not within a factor 2 of 2^d, d=%d" % d
    return "ok", None


def _nd_check(diff, d):
    if diff > Fraction(1, 2):
        return "violates", "not a nearest integer: |x-n| > 1/2"
    if diff == 0:
        return ("ok", None) if d is None else ("violates", "x is an integer but d=%d, not -inf" % d)
    if d is None:
        return "violates", "d=-inf but x is not an integer"
    if diff < Fraction(2) ** (d - 1) or diff >= Fraction(2) ** (d + 1):
        return "violates", "|x-n| is not within a factor 2 of 2^d, d=%d" % d
    return "ok", None


def _bool(out):
    return {"B:1": True, "B:0": False}.get(out)


def decide_pred(name, x, out, gaussian=False):
    got = _bool(out)
    if x[0] == "rat":
        p, q = x[1], x[2]
        if q <= 0:
            return "notclaimed", None
        v = Fraction(p, q)
        want = {"isint": v.denominator == 1, "isnpint": v.denominator == 1 and v <= 0, "isnormal": v != 0,
                "isinf": False, "isnan": False, "isfinite": True}[name]
    else:
        re, im = parts_of(x)
        kinds = (re[0], im[0])
        if "bad" in kinds:
            return "notclaimed", None
        fin = all(k in ("fin", "zero") for k in kinds)
        if name == "isint":
            want = fin and is_int_real(re) and (is_int_real(im) if gaussian else im[0] == "zero")
        elif name == "isnpint":
            want = fin and im[0] == "zero" and is_int_real(re) and sign_of(re) <= 0
        elif name == "isnormal":
            want = fin and kinds != ("zero", "zero")
        elif name == "isinf":
            want = "inf" in kinds
        elif name == "isnan":
            want = "nan" in kinds
        else:
            want = fin
    if got is None:
        return "violates", "%s gives %s" % (name, out)
    if got != want:
        return "violates", "%s is %s, the documented answer is %s" % (name, got, want)
    return "ok", None


def decide_ldexp(tok, n, out):
    r = tok_real(tok)
    if r[0] == "bad":
        return "notclaimed", None
    try:
        got = dec_mpf(out)
    except Exception:  # noqa
        return "violates", "ldexp gives %s" % out
    if r[0] != "fin":
        want = {"zero": FZERO, "nan": (0, 0, -123, -1)}.get(r[0]) or ((0, 0, -456, -2) if r[1] == 0 else (1, 0, -789, -3))
    else:
        want = (r[1], r[2], r[3] + n, r[2].bit_length())
    if got != want:
        return "violates", "ldexp(x, %d) is not exactly x*2^n in canonical form: %r" % (n, got)
    return "ok", None


def decide_frexp(tok, out):
    r = tok_real(tok)
    if r[0] in ("bad", "inf", "nan"):
        return "notclaimed", None
    if not out.startswith("P:"):
        return "violates", "frexp gives %s" % out
    a, b = out[2:].split(",")
    y, n = dec_mpf(a), int(b[2:])
    if r[0] == "zero":
        return ("ok", None) if (y == FZERO and n == 0) else ("violates", "frexp(0) = %s" % out)
    if y[1] == 0:
        return "violates", "frexp of a nonzero number has y = 0"
    ys, ym, ye = norm(y[0], y[1], y[2])
    if (ys, ym) != (r[1], r[2]) or ye + n != r[3]:
        return "violates", "x != y*2^n"
    if ye + ym.bit_length() != 0:
        return "violates", "|y| is not in [1/2, 1)"
    return "ok", None


def decide_c39(line, out):
    t = line.split()
    op = t[0]
    base, _, sfx = op.rpartition("_")
    if base == "mag":
        return decide_mag(operand_of(sfx, t[1:]), out)
    if base == "nint":
        return decide_nint(operand_of(sfx, t[1:]), out)
    if base == "isint":
        if sfx == "c":
            return decide_pred("isint", operand_of("c", t[1:3]), out, gaussian=(t[3] == "1"))
        return decide_pred("isint", operand_of(sfx, t[1:]), out)
    if base in ("isnpint", "isnormal", "isinf", "isnan", "isfinite"):
        return decide_pred(base, operand_of(sfx, t[1:]), out)
    if op == "ldexp":
        return decide_ldexp(t[1], int(t[2]), out)
    if op == "hfrexp":
        return decide_frexp(t[1], out)
    return "notclaimed", None


C39_SITE = {"mag": "ctx_mp_python.mag", "nint": "ctx_mp.nint_distance", "isint": "ctx_mp_python.isint",
            "isnpint": "ctx_mp.isnpint", "isnormal": "ctx_mp_python.isnormal", "isinf": "ctx_mp_python.isinf",
            "isnan": "ctx_mp_python.isnan", "isfinite": "ctx_mp.isfinite", "ldexp": "ctx_mp.ldexp", "hfrexp": "ctx_mp.frexp"}


def site_c39(line, what):
    op = line.split()[0]
    base = op.rpartition("_")[0] or op
    s = C39_SITE.get(base, C39_SITE.get(op, op))
    if base == "nint" and what and "non-finite" in what:
        s += "[nonfinite]"
    return s


# ------------------------------------------------------------------------------------------------
# C40 deciders
# ------------------------------------------------------------------------------------------------

def decide_c40(line, out):
    t = line.split()
    op = t[0]
    if op == "to_pickable":
        x = dec_mpf(t[1])
        if not out.startswith("K:"):
            return "violates", "to_pickable gives %s" % out
        s, m, e, b = out[2:].split(",")
        try:
            back = (int(s), int(m, 16), int(e), int(b))
        except ValueError:
            return "violates", "to_pickable state does not decode: %s" % out[:80]
        return ("ok", None) if back == x else ("violates", "pickled state decodes to another tuple")
    if op == "from_pickable":
        hx = t[2][1:]
        ok_hex = len(hx) > 0 and all(c in "0123456789abcdefABCDEF" for c in hx)
        if not ok_hex:
            return "notclaimed", None
        want = enc_mpf((int(t[1]), int(hx, 16), int(t[3]), int(t[4])))
        return ("ok", None) if out == want else ("violates", "from_pickable gives %s" % out[:80])
    if op == "pickle_rt":
        return ("ok", None) if out == t[1] else ("violates", "mpf round trip gives %s" % out[:120])
    if op == "mpc_pickle_rt":
        return ("ok", None) if out == "P:%s,%s" % (t[1], t[2]) else ("violates", "mpc round trip gives %s" % out[:120])
    if op == "mpc_getstate":
        try:
            ps = [p[2:].split(",") for p in out.split(";")]
            back = [enc_mpf((int(p[0]), int(p[1], 16), int(p[2]), int(p[3]))) for p in ps]
        except Exception:  # noqa
            return "violates", "mpc state does not decode: %s" % out[:80]
        return ("ok", None) if back == [t[1], t[2]] else ("violates", "mpc state decodes to another pair")
    if op == "mat":
        return decide_mat(t, out)
    return "notclaimed", None


def decide_mat(t, out):
    """reference semantics of 'copy, then assign to either': two independent dicts"""
    rows, cols = int(t[1]), int(t[2])
    init, sets = parse_mat(t)
    zero = "F" + enc_mpf(FZERO)

    def nonzero(e):
        return e != zero and e != "C%s/%s" % (enc_mpf(FZERO), enc_mpf(FZERO))
    A = {}
    for (w, i, j, e) in init + sets:
        if i >= rows or j >= cols:
            return ("ok", None) if out == "E:IndexError" else ("violates", "out-of-range index gives %s" % out[:60])
    for (w, i, j, e) in init:
        A[(i, j)] = e
    B = dict(A)
    for (w, i, j, e) in sets:
        (A if w == 0 else B)[(i, j)] = e

    def dump(D):
        return "%dx%d[%s]" % (rows, cols, ";".join((D[(i, j)] if (i, j) in D and nonzero(D[(i, j)]) else zero)
                                                    for i in range(rows) for j in range(cols)))
    want = "M:" + dump(A) + "|" + dump(B)
    if out == want:
        return "ok", None
    if out.startswith("?:type"):
        return "violates", "the copy has another type"
    return "violates", "copy not faithful / not independent: %s" % out[:100]


C40_SITE = {"to_pickable": "libmpf.to_pickable", "from_pickable": "libmpf.from_pickable", "pickle_rt": "ctx_mp_python._mpf.pickle",
            "mpc_pickle_rt": "ctx_mp_python._mpc.pickle", "mpc_getstate": "ctx_mp_python._mpc.__getstate__",
            "mat": "matrices._matrix.copy"}


def c40_probes(seed, n):
    """direct property probes that have no model counterpart: pickling of matrices (every protocol) and of values of
    a cloned context.  Yields (site, what or None, input)."""
    import random
    r = random.Random(seed)
    im = Impl()
    mp = im.mp
    g = Gen(seed)
    ho = im.ho
    clone = mp.clone()
    for k in range(n):
        rows, cols = r.randint(1, 3), r.randint(1, 3)
        A = mp.matrix(rows, cols)
        cells = []
        for _ in range(r.randint(0, rows * cols)):
            v, tok = ho.entry(g)
            i, j = r.randrange(rows), r.randrange(cols)
            A[i, j] = v
            cells.append([i, j, tok])
        for p in range(pickle.HIGHEST_PROTOCOL + 1):
            inp = {"probe": "matrix_pickle", "protocol": p, "rows": rows, "cols": cols, "cells": cells}
            try:
                B = pickle.loads(pickle.dumps(A, p))
            except Exception as e:  # noqa
                yield "matrices._matrix.pickle", "pickle.dumps(matrix) raises %s" % type(e).__name__, inp
                continue
            has_nan = "0:0:-123:-1" in dump_matrix(A)      # nan != nan: `==` is required of nan-free matrices only
            if type(B) is not type(A) or dump_matrix(B) != dump_matrix(A) or not (has_nan or B == A):
                yield "matrices._matrix.pickle", "matrix pickle round trip changes type or entries", inp
            else:
                yield "matrices._matrix.pickle", None, inp
        t = ho.any_tuple(g)
        if t[1] == 0 and t not in SPECIAL and t != FZERO:
            t = FZERO
        for kind in ("mpf", "mpc"):
            v = clone.make_mpf(t) if kind == "mpf" else clone.make_mpc((t, ho.any_tuple(g)))
            raw = v._mpf_ if kind == "mpf" else v._mpc_
            p = r.randrange(pickle.HIGHEST_PROTOCOL + 1)
            site = "ctx_mp_python._%s.pickle@clone" % kind
            inp = {"probe": "clone_pickle", "kind": kind, "protocol": p, "value": [enc_mpf(raw)] if kind == "mpf" else [enc_mpf(x) for x in raw]}
            try:
                w = pickle.loads(pickle.dumps(v, p))
            except Exception as e:  # noqa
                yield site, "pickle.dumps of an %s of a cloned context raises %s" % (kind, type(e).__name__), inp
                continue
            if type(w) is not type(v):
                yield site, "unpickled %s of a cloned context has another type" % kind, inp
            elif (w._mpf_ if kind == "mpf" else w._mpc_) != raw:
                yield site, "unpickled %s of a cloned context has another representation" % kind, inp
            else:
                yield site, None, inp
            for f, nm in ((copy.copy, "copy"), (copy.deepcopy, "deepcopy")):
                try:
                    w = f(v)
                    bad = type(w) is not type(v) or (w._mpf_ if kind == "mpf" else w._mpc_) != raw
                except Exception as e:  # noqa
                    bad = True
                yield "ctx_mp_python._%s.%s@clone" % (kind, nm), ("copy.%s of an %s of a cloned context fails" % (nm, kind)) if bad else None, inp


# ------------------------------------------------------------------------------------------------
# C09 deciders
# ------------------------------------------------------------------------------------------------

def rne_double(sign, man, exp):
    """correctly rounded (nearest, ties to even) binary64 of (-1)^sign * man * 2^exp for |x| >= 2^-1022, as a bit
    pattern; 'inf' patterns when the rounded value is >= 2^1024.  None below the normal range."""
    bl = man.bit_length()
    e = exp + bl                      # 2^(e-1) <= x < 2^e
    if e - 1 < -1022:
        return None
    if bl > 53:
        sh = bl - 53
        q, rem = man >> sh, man & ((1 << sh) - 1)
        half = 1 << (sh - 1)
        if rem > half or (rem == half and (q & 1)):
            q += 1
        if q == 1 << 53:
            q >>= 1
            e += 1
    else:
        q = man << (53 - bl)
    if e > 1024:
        return (sign << 63) | (0x7ff << 52)
    return (sign << 63) | ((e + 1022) << 52) | (q - (1 << 52))


def enc_bits(b):
    return "D:%016x" % b


def want_float(tok, strict):
    """expected answer of float(x) under the property, or None when the text makes no claim"""
    r = tok_real(tok)
    if r[0] == "bad":
        return None
    if r[0] == "zero":
        return ["D:0000000000000000", "D:8000000000000000"]
    if r[0] == "nan":
        return ["D:nan"]
    if r[0] == "inf":
        return [enc_bits((r[1] << 63) | (0x7ff << 52))]
    b = rne_double(r[1], r[2], r[3])
    if b is None:
        return None
    if (b >> 52) & 0x7ff == 0x7ff:
        return ["E:OverflowError"] if strict else [enc_bits(b)]
    if abs(r[3]) < 3000:
        f = Fraction(r[2]) * Fraction(2) ** r[3]
        chk = float(-f if r[1] else f)
        if H.f2bits(chk) != b:
            raise InfraError("harness inconsistency: rne_double vs Fraction.__float__ on %s" % tok)
    return [enc_bits(b)]


def decide_c09(line, out):
    t = line.split()
    op = t[0]
    if op == "from_float":
        if int(t[2]) < 53:
            return "notclaimed", None
        d = dec_bits(int(t[1], 16))
        if d[0] == "nan":
            want = (0, 0, -123, -1)
        elif d[0] == "inf":
            want = (0, 0, -456, -2) if d[1] == 0 else (1, 0, -789, -3)
        elif d[0] == "zero":
            want = FZERO
        else:
            s, m, e = norm(d[1], d[2], d[3])
            want = (s, m, e, m.bit_length())
        return ("ok", None) if out == enc_mpf(want) else ("violates", "mpf(float) is %s, the float is %s" % (out, enc_mpf(want)))
    if op == "to_float":
        if t[3] != "n":
            return "notclaimed", None
        want = want_float(t[1], t[2] == "1")
        if want is None:
            return "notclaimed", None
        return ("ok", None) if out in want else ("violates", "float(x) is %s, nearest double is %s" % (out, want[0]))
    if op == "to_complex":
        if t[4] != "n":
            return "notclaimed", None
        wa, wb = want_float(t[1], t[3] == "1"), want_float(t[2], t[3] == "1")
        if out.startswith("E:"):
            if (wa and wa[0] == out) or (wb and wb[0] == out):
                return "ok", None
            if wa is None or wb is None:
                return "notclaimed", None
            return "violates", "complex(z) raises %s" % out
        a, b = out[2:].split(",")
        st = "ok"
        for got, want, nm in ((a, wa, "real"), (b, wb, "imag")):
            if want is None:
                st = "partly" if st == "ok" else st
                continue
            if want[0].startswith("E:"):
                return "violates", "complex(z) returns although the %s part overflows under strict" % nm
            if got not in want:
                return "violates", "%s part of complex(z) is %s, nearest double is %s" % (nm, got, want[0])
        return ("ok", None) if st == "ok" else ("ok", "one part outside the claimed range")
    return "notclaimed", None


C09_SITE = {"from_float": "libmpf.from_float", "to_float": "libmpf.to_float", "to_complex": "libmpc.mpc_to_complex"}


# ------------------------------------------------------------------------------------------------
# the common driver
# ------------------------------------------------------------------------------------------------

def load_corpus(pid):
    d = os.path.join(CORPUS_DIR, pid)
    lines = []
    if os.path.isdir(d):
        for fn in sorted(os.listdir(d)):
            if fn.endswith(".txt"):
                for l in open(os.path.join(d, fn)):
                    l = l.strip()
                    if l and not l.startswith("#"):
                        lines.append(l)
    return lines


def run_streams(ctx, ops, n_quick, n_thorough, decide, site_of, rule, model_only_ops=()):
    """correspondence + property decision over the helpers_ops streams"""
    n = n_quick if ctx.quick else n_thorough
    ho = H.HelperOps()
    im = Impl(ho)
    failing, dis, samples = [], [], []
    decided = {"ok": 0, "violates": 0, "undecided": 0, "notclaimed": 0}
    per_op = {}
    distinct = set()
    evaluations = 0
    per_site_cap = {}

    def handle(line, impl, model, origin):
        nonlocal evaluations
        evaluations += 1
        op = line.split()[0]
        po = per_op.setdefault(op, {"cases": 0, "decided": 0, "violates": 0, "disagree": 0})
        po["cases"] += 1
        if op in model_only_ops:
            status, what = "notclaimed", None
        else:
            status, what = decide(line, impl)
        decided[status] += 1
        if status in ("ok", "violates"):
            po["decided"] += 1
            distinct.add(hashlib.md5(line.encode()).digest()[:8])
            if len(samples) < 6 and evaluations % 97 == 1:
                samples.append({"line": line[:200], "impl": impl[:120], "decision": status})
        if status == "violates":
            po["violates"] += 1
            s = site_of(line, what)
            c = per_site_cap.get(s, 0)
            per_site_cap[s] = c + 1
            if c < 25:
                failing.append({"site": s, "what": what, "input": {"line": line, "impl": impl, "model": model}, "origin": origin})
        if impl != model and status != "violates":
            po["disagree"] += 1
            dis.append({"name": "T1:" + op, "op": op, "line": line[:600], "impl": impl[:300], "model": model[:300], "decision": status})

    corpus = load_corpus(ctx.pid)
    if ctx.replay:
        try:
            rp = json.load(open(ctx.replay))
            for f in [rp.get("failing_input") or {}] + list(rp.get("others") or []) + list(rp.get("disagreements") or []):
                l = (f.get("input") or {}).get("line") or f.get("line")
                if l:
                    corpus.append(l)
        except (OSError, ValueError):
            pass
    if corpus:
        outs = [(l, im.run(l)) for l in corpus]
        outs = [(l, o) for l, o in outs if o is not None]
        model = Driver().ask([l for l, _ in outs])
        for (l, o), m in zip(outs, model):
            handle(l, o, m, "corpus")

    hist = {}
    chunk = 25000
    done = 0
    k = 0
    while done < n:
        m = min(chunk, n - done)
        st, d0, g = H.run_t1(ops, m, ctx.seed * 1000003 + k, ho)
        model = Driver().ask(st["lines"])
        for l, i, mo in zip(st["lines"], st["impl"], model):
            handle(l, i, mo, "seeded")
        for key, v in g.hist.items():
            hd = hist.setdefault(key, {})
            for a, b in v.items():
                hd[str(a)] = hd.get(str(a), 0) + b
        done += m
        k += 1
    cov = {
        "evaluations": evaluations, "distinct_nontrivial": len(distinct),
        "rule": rule, "samples": samples, "decisions": decided, "undecided": decided["undecided"],
        "per_op": per_op, "input_distribution": hist, "programs": len(per_op),
        "failing_per_site": dict(per_site_cap), "traces_validated_against_impl": evaluations,
    }
    return {"coverage": cov, "failing_inputs": failing, "disagreements": dis}
