"""Shared dynamic part for the properties anchored in the raw libmpf core (T1 + spec monitor)."""
import os, time, hashlib
from common import *  # noqa
import core_ops, specdec, spec

SITE = {  # op -> call site name used in findings
    "mod": "libmpf.mpf_mod", "add": "libmpf.mpf_add", "sub": "libmpf.mpf_add", "pow_int": "libmpf.mpf_pow_int",
}


def site_of(op):
    return SITE.get(op, "libmpf." + op)


def load_corpus(pid):
    d = os.path.join(CORPUS_DIR, pid)
    lines = []
    if os.path.isdir(d):
        for fn in sorted(os.listdir(d)):
            if fn.endswith(".txt"):
                for l in open(os.path.join(d, fn)):
                    l = l.strip()
                    if l and not l.startswith("#"):
                        lines.append(l)
    return lines


def impl_of_line(co, line):
    """re-run a recorded request line against the real code (used for corpus and replay)"""
    t = line.split()
    op = t[0]
    L = co.L
    P = dec_mpf
    try:
        if op in ("add", "sub", "mul", "gmul", "div", "mod", "hypot"):
            f = {"add": L.mpf_add, "sub": L.mpf_sub, "mul": L.python_mpf_mul, "gmul": L.gmpy_mpf_mul, "div": L.mpf_div,
                 "mod": L.mpf_mod, "hypot": L.mpf_hypot}[op]
            return enc_result(f(P(t[1]), P(t[2]), int(t[3]), t[4]))
        if op in ("pos", "neg", "abs", "sqrt", "floor", "ceil", "nint", "frac"):
            f = getattr(L, "mpf_" + op)
            return enc_result(f(P(t[1]), int(t[2]), t[3]))
        if op == "pow_int":
            return enc_result(L.mpf_pow_int(P(t[1]), int(t[2]), int(t[3]), t[4]))
        if op in ("cmp", "lt", "le", "gt", "ge", "eq"):
            return enc_result(getattr(L, "mpf_" + op)(P(t[1]), P(t[2])))
        if op == "hash":
            return enc_result(L.mpf_hash(P(t[1])))
        if op in ("normalize", "normalize1"):
            f = L._normalize if op == "normalize" else L._normalize1
            return enc_result(f(int(t[1]), int(t[2], 16), int(t[3]), int(t[4]), int(t[5]), t[6]))
        if op in ("mul_int", "gmul_int"):
            f = L.python_mpf_mul_int if op == "mul_int" else L.gmpy_mpf_mul_int
            return enc_result(f(P(t[1]), int(t[2]), int(t[3]), t[4]))
        if op == "rdiv_int":
            return enc_result(L.mpf_rdiv_int(int(t[1]), P(t[2]), int(t[3]), t[4]))
        if op == "from_rational":
            return enc_result(L.from_rational(int(t[1]), int(t[2]), int(t[3]), t[4]))
        if op == "from_man_exp":
            m = int(t[2], 16)
            return enc_result(L.from_man_exp(-m if int(t[1]) else m, int(t[3]), int(t[4]), t[5]))
        if op == "from_int":
            return enc_result(L.from_int(int(t[1]), int(t[2]), t[3]))
        if op == "perturb":
            return enc_result(L.mpf_perturb(P(t[1]), int(t[2]), int(t[3]), t[4]))
        if op == "sum":
            xs = [P(x) for x in t[4:]]
            return enc_result(L.mpf_sum(xs, int(t[1]), t[2], t[3] == "1"))
        if op == "to_int":
            return enc_result(L.to_int(P(t[1]), None if t[2] == "-" else t[2]))
    except Exception as e:  # noqa
        return enc_exc(e)
    return None


def mpfs_in(out):
    """all raw mpf tuples occurring in an answer string"""
    res = []
    for part in out.replace("P:", "").split(","):
        if part.count(":") == 3 and not part.startswith(("I:", "B:", "E:", "?")):
            try:
                res.append(dec_mpf(part))
            except ValueError:
                pass
    return res


def run_core(ctx, ops, n_quick, n_thorough, monitors=("spec",), weights=None, extra_lines=None):
    """returns the dict expected by runner.run_check"""
    n = n_quick if ctx.quick else n_thorough
    co = core_ops.CoreOps()
    failing, dis = [], []
    evaluations = 0
    distinct = set()
    samples = []
    decided = {"ok": 0, "violates": 0, "nospec": 0}

    def handle(line, impl, model, origin):
        nonlocal evaluations
        evaluations += 1
        op = line.split()[0]
        h = hashlib.md5(line.encode()).digest()[:8]
        nontriv = any(c not in "0:- " for c in line[len(op):]) and not impl.startswith("?")
        if nontriv:
            distinct.add(h)
        status, what = ("nospec", None)
        if "spec" in monitors:
            status, what = specdec.decide(line, impl)
            decided[status] += 1
        if status == "violates":
            failing.append({"site": site_of(op), "what": what, "input": {"line": line, "impl": impl, "model": model}, "origin": origin})
        if "canonical" in monitors:
            for r in mpfs_in(impl):
                if not spec.is_canonical(r):
                    failing.append({"site": site_of(op), "what": "non-canonical result %r" % (r,),
                                    "input": {"line": line, "impl": impl, "model": model}, "origin": origin})
        if "bits" in monitors:
            t = line.split()
            p = _prec_of(op, t)
            if p:
                for r in mpfs_in(impl):
                    if r[1] and r[3] > p:
                        failing.append({"site": site_of(op), "what": "result has %d bits at precision %d" % (r[3], p),
                                        "input": {"line": line, "impl": impl, "model": model}, "origin": origin})
        if impl != model and status != "violates":
            dis.append({"name": "T1:" + op, "op": op, "line": line, "impl": impl, "model": model, "spec": status})

    # corpus first
    corpus = load_corpus(ctx.pid) + list(extra_lines or [])
    if ctx.replay:
        rp = json.load(open(ctx.replay))
        fi = rp.get("failing_input") or {}
        l = (fi.get("input") or {}).get("line")
        if l:
            corpus = [l] + corpus
        for d in rp.get("disagreements", []):
            if d.get("line"):
                corpus.append(d["line"])
    if corpus:
        impl = [impl_of_line(co, l) for l in corpus]
        keep = [(l, i) for l, i in zip(corpus, impl) if i is not None]
        model = Driver().ask([l for l, _ in keep])
        for (l, i), m in zip(keep, model):
            handle(l, i, m, "corpus")

    # seeded run, in chunks (bounded memory)
    chunk = 50000
    done = 0
    hist = {}
    per_op = {}
    k = 0
    while done < n:
        c = min(chunk, n - done)
        st, d0, g = core_ops.run_t1(ops, c, ctx.seed * 1000003 + k, weights)
        out_model = None
        # run_t1 already diffed; we need the model output per line for the record: recompute only for disagreements
        dmap = {d["index"]: d for d in d0}
        for i, (line, impl) in enumerate(zip(st["lines"], st["impl"])):
            handle(line, impl, dmap[i]["model"] if i in dmap else impl, "seed")
            if len(samples) < 6 and i % 9973 == 17:
                samples.append({"request": line[:300], "impl": impl[:200]})
        for kk, v in g.hist.items():
            hh = hist.setdefault(kk, {})
            for a, b in v.items():
                hh[str(a)] = hh.get(str(a), 0) + b
        for o, v in st["per_op"].items():
            pv = per_op.setdefault(o, [0, 0]); pv[0] += v[0]; pv[1] += v[1]
        done += c
        k += 1
    if not samples and evaluations:
        samples.append({"request": (corpus or ["-"])[0][:300]})
    cov = {
        "evaluations": evaluations,
        "distinct_nontrivial": len(distinct),
        "rule": "request lines generated by structured generators (mantissa shapes: random, 2^k, 2^k+1, all-ones, tie families at "
                "the precision, sparse, runs; lengths 1..2500 bits independent of precision; exponent gaps around the literals of "
                "mpf_add; huge exponents; all five rounding modes); a case is distinct by its request line and non-trivial when some "
                "operand is not zero/special; every case is run through the real libmpf function and the compiled Lean model and the "
                "outputs are diffed; the property is additionally decided on the implementation output in exact rational arithmetic",
        "samples": samples,
        "programs": len(per_op),
        "disagreements_checked": len(dis) + len(failing),
        "traces_validated_against_impl": evaluations,
        "per_op_cases": {o: v[0] for o, v in per_op.items()},
        "spec_decisions": decided,
        "input_distribution": hist,
        "corpus_cases": len(corpus),
    }
    return {"coverage": cov, "failing_inputs": failing, "disagreements": dis}


def _prec_of(op, t):
    try:
        if op in ("add", "sub", "mul", "gmul", "div", "mod", "hypot"):
            return int(t[3])
        if op in ("pos", "neg", "abs", "sqrt", "floor", "ceil", "nint", "frac"):
            return int(t[2])
        if op in ("pow_int", "mul_int", "gmul_int", "rdiv_int", "from_rational", "perturb"):
            return int(t[3])
        if op in ("normalize", "normalize1"):
            return int(t[5])
        if op == "from_man_exp":
            return int(t[4])
        if op == "from_int":
            return int(t[2])
        if op == "sum":
            return int(t[1])
    except (ValueError, IndexError):
        return None
    return None
