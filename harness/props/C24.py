"""C24 — function evaluations terminate (PARTIAL: loop skeletons + dynamic confirmation).

 1. pregen: tools/loop_extract.py re-parses every loop of /repo/mpmath and regenerates lean/Gen/LoopSkel.lean (one
    Site per loop, one obligation `skel.cls.Terminates` per loop of a class with a termination theorem) and
    lean/Gen/loop_skel.json.
 2. the runner builds Props.C24 (class theorems) and Gen.LoopSkel (generated obligations) and audits the axioms.
 3. run: (a) compare the classification with harness/loop_baseline.json: a loop that moved from a proved class to
    tol/unknown is a broken obligation -> dynamic search on the entry points that reach it;
    (b) dynamic confirmation of the open loops: term_dynamic.py grids under a sys.settrace step budget;
    (c) adaptive confirmation (term_adaptive.py): for every open loop site the thresholds of the functions that contain or
        guard the loop are read with `ast`, arguments are placed on both sides of every threshold for several precisions,
        every call runs under a CPU-time budget scaled by the cost of its neighbouring placements; per-site coverage.
"""
import os, sys, json, random

HERE = os.path.dirname(os.path.dirname(os.path.abspath(__file__)))
VERIF = os.path.dirname(HERE)
sys.path.insert(0, os.path.join(VERIF, "tools"))
sys.path.insert(0, HERE)

from common import REPO, LEAN_DIR, InfraError
import term_dynamic
import term_adaptive

LEVEL = "proof"
LEAN_MODULES = ["Props.C24", "Gen.LoopSkel"]
GENERATED_MODULES = ["Gen.LoopSkel"]
SKIP_LEANCHECKER = False
ASSUMPTIONS = [
    "PARTIAL: the theorems are about loop SKELETONS. Loops classified tol/unknown (count in coverage.open_loops) carry no "
    "termination theorem (Props.C24.tol_may_diverge shows their skeleton can run forever); they are only attacked dynamically.",
    "The translator's classification (tools/loop_extract.py) is syntactic and trusted; it is re-run on the working tree on every "
    "check and compared with harness/loop_baseline.json.",
    "Numeric preconditions of the proved classes are assumed at the call sites and listed per loop in lean/Gen/loop_skel.json "
    "(hyps): decay variable >= 0 at entry and multipliers in [0, 2^b], b < prec (fixdecay); n >= 0 (countdown/halving); n != 0 (strip); "
    "start*n >= 3 (giant_steps); integer counters (counter); the theorems fixdecay_negative_counterexample, "
    "halving_negative_counterexample, giant_steps_start1_counterexample show that these cannot be dropped.",
    "Loops inside callbacks supplied by the user and in C extensions (gmpy) are outside the model; MPMATH_NOGMPY=1.",
    "Dynamic part: a step budget (sys.settrace line events in mpmath frames, 1x then 10x) followed by an untraced re-run against the wall clock "
    "(60 s quick, 1800 s thorough) decides 'does not return' (a call that comes back in the re-run is listed as slow; a call cut off after "
    "fewer than 10*prec iterations of the open loop is listed as undecided: a geometrically convergent tolerance loop may need that many, so "
    "slow iterations are not evidence of non-termination — e.g. polylog(2.5, exp(i*pi/3)) at 4000 bits needs ~1500 zeta evaluations and "
    "more than 25 minutes); precisions <= 4000 bits, "
    "|arguments| <= 1e6; a wall-clock timeout is 'no result'.",
    "Adaptive part: 'does not return' = no result within 4 x max(5 s, 50 x median CPU time of the neighbouring placements around the same "
    "threshold) (two runs in fresh processes: 1x, then 4x) while at least 2 of those neighbours returned and a loop of an open class is on the stack at the cut-off; a call that is "
    "slow together with its neighbours is listed as undecided (slow region), not as a failing input. The signatures of the public entry "
    "points (term_adaptive.ENTRY) and the fixed driving calls of the sites no threshold-driven call reaches (term_adaptive.REACH) are "
    "hand-written; the thresholds and the sites are read from the working tree.",
]
TRUSTED_EXTRA = ["tools/loop_extract.py (Python ast based classifier)", "harness/term_adaptive.py (ast threshold reader, placement, budgets)"]

_state = {}


def pregen(ctx):
    import importlib
    import loop_extract
    importlib.reload(loop_extract)
    sites = loop_extract.extract(REPO)
    loop_extract.write_outputs(sites, LEAN_DIR)
    _state["sites"] = sites
    _state["mod"] = loop_extract


def _baseline():
    p = os.path.join(HERE, "loop_baseline.json")
    if not os.path.exists(p):
        raise InfraError("harness/loop_baseline.json missing (generate with tools/loop_extract.py --baseline)")
    return json.load(open(p))


def run(ctx):
    if "sites" not in _state:
        pregen(ctx)
    sites, le = _state["sites"], _state["mod"]
    summ = le.summary(sites)
    open_sites = [s for s in sites if s["cls"] in le.OPEN]
    proved_sites = [s for s in sites if s["cls"] not in le.OPEN]
    res = {"coverage": {}, "failing_inputs": [], "disagreements": [], "broken": [], "extra_obligations": []}

    # ---- (a) baseline comparison -------------------------------------------------------------------------------
    regress, new_open, gone = le.compare_baseline(sites, _baseline())
    rng = random.Random(ctx.seed)
    cases = term_dynamic.grids(ctx.tier, rng)
    extra_groups = set()
    for s, old in regress:
        res["broken"].append(("Gen.LoopSkel:%s" % s["key"],
                              "loop %s:%d (%s) was class %s in harness/loop_baseline.json and is now %s (%s): its termination "
                              "obligation is no longer discharged" % (s["file"], s["line"], s["func"], old, s["cls"], s["note"])))
        extra_groups.update(s.get("entry_points", []))
    for s in new_open:
        res["disagreements"].append({"name": "new-open-loop:%s" % s["key"], "op": "loop_extract",
                                     "line": "%s:%d" % (s["file"], s["line"]), "impl": s["cls"], "model": "absent from baseline"})
        extra_groups.update(s.get("entry_points", []))
    if "psi" in extra_groups:
        extra_groups.update(("digamma", "digamma_real", "harmonic"))
    if extra_groups:
        # broken obligation: search harder on the entry points that reach the loop (the thorough grids of those functions)
        have = {json.dumps(term_dynamic.strip(c), sort_keys=True) for c in cases}
        for c in term_dynamic.grids("thorough", random.Random(ctx.seed + 1)):
            if (c["fn"] in extra_groups or c["group"] in extra_groups) and json.dumps(term_dynamic.strip(c), sort_keys=True) not in have:
                c["id"] = len(cases)
                cases.append(c)
    # generated obligations count as obligations of this check
    for s in proved_sites:
        res["extra_obligations"].append({"name": s["key"], "ok": True})

    # ---- (b) dynamic confirmation ----------------------------------------------------------------------------------
    if ctx.replay:
        try:
            rp = json.load(open(ctx.replay))
            fi = rp.get("failing_input", {}).get("input")
            if fi and fi.get("adaptive"):
                _state["replay_adaptive"] = fi
            elif fi and "fn" in fi:
                c = term_dynamic.C(fi["fn"], fi.get("args", []), fi.get("prec", 53), fi.get("kwargs"), fi.get("ctx", "mp"), fi.get("post"))
                c["id"] = len(cases)
                cases.append(c)
        except Exception:
            pass
    # (b) and (c) run side by side: (b) counts traced lines, (c) counts CPU seconds — neither verdict depends on wall-clock time
    import threading
    box = {}

    def _run_b():
        try:
            box["dyn"] = term_dynamic.search(cases, ctx.tier)
        except BaseException as e:      # re-raised in the main thread
            box["err"] = e
    tb = threading.Thread(target=_run_b)
    tb.start()

    # ---- (c) adaptive confirmation: thresholds of the guarding functions, both sides, several precisions -----------------
    arng = random.Random(ctx.seed * 7919 + 17)
    acases, aplan, ahist = term_adaptive.build_cases(ctx.tier, arng, sites=[s for s in open_sites if s.get("line")])
    fi = _state.pop("replay_adaptive", None)
    if fi:
        c = {k: fi[k] for k in ("fn", "args", "kwargs", "prec", "argprec", "ctx") if k in fi}
        c.update(id=len(acases), tag="replay", rank=0, thr="", group=c["fn"], nbh=fi.get("neighbourhood", "replay"))
        acases.append(c)
    try:
        ad = term_adaptive.search(acases, ctx.tier, arng)
    finally:
        tb.join()
    if "err" in box:
        raise box["err"]
    dyn = box["dyn"]
    res["failing_inputs"] += dyn["failing"]
    res["failing_inputs"] += ad["failing"]
    if regress and not dyn["failing"]:
        pass        # runner prints no-failing-input-found for the broken obligations
    st = {}
    for r in dyn["r1"].values():
        st[r["status"]] = st.get(r["status"], 0) + 1
    by_group = {}
    precs = {}
    for c in cases:
        by_group[c["group"]] = by_group.get(c["group"], 0) + 1
        b = "<=64" if c["prec"] <= 64 else "<=400" if c["prec"] <= 400 else "<=1000" if c["prec"] <= 1000 else "<=2000" if c["prec"] <= 2000 \
            else "<=3000" if c["prec"] <= 3000 else "<=4000"
        precs[b] = precs.get(b, 0) + 1
    open_keys = {s["key"] for s in open_sites}
    executed = {k: v for k, v in dyn["executed_open_loops"].items() if k in open_keys}
    for k, v in ad["executed_open_loops"].items():
        if k in open_keys and v:
            executed[k] = max(executed.get(k, 0), v)
    executed = {k: v for k, v in executed.items() if v}
    nontrivial = sum(1 for c in cases if any((dyn["r1"].get(c["id"], {}).get("open_loop_iterations") or {}).values()))
    exc_kinds = {}
    for r in dyn["r1"].values():
        if r["status"] == "exc":
            exc_kinds[r.get("exc")] = exc_kinds.get(r.get("exc"), 0) + 1
    # undocumented exception classes are reported as disagreements (the property allows ValueError, ZeroDivisionError,
    # NoConvergence, NotImplementedError; TypeError/ComplexResult/OverflowError are listed but not failed here)
    cov = res["coverage"]
    a_nontrivial = sum(1 for c in acases if any((ad["r1"].get(c["id"], {}).get("open_loop_iterations") or {}).values()))
    cov["evaluations"] = len(cases) + dyn["candidates"] + len(acases) + ad["rerun"] + ad["confirmed"]
    cov["distinct_nontrivial"] = nontrivial + a_nontrivial
    cov["rule"] = ("grid cases per public function (term_dynamic.grids; quick = seeded subsample) + adaptive placements around the "
                   "thresholds of the guarding functions (term_adaptive); a case is non-trivial when it executes at least one "
                   "iteration of a loop of an OPEN class (tol/unknown), measured by the tracer")
    cov["samples"] = [term_dynamic.strip(c) for c in cases[:3]] + [term_dynamic.strip(c) for c in cases[-2:]] + \
        [dict(term_adaptive.strip(c), placed_at=c.get("tag")) for c in acases[:400:97]]
    cov["loops_total"] = len(sites)
    cov["loops_per_class"] = summ
    cov["open_loops"] = len(open_sites)
    cov["open_loops_executed_dynamically"] = len(executed)
    name_of = {s["key"]: term_adaptive.site_name(s) for s in open_sites if s.get("line")}
    cov["open_loops_not_reached"] = sorted(name_of.get(k, k) for k in open_keys - set(executed))[:200]
    cov["open_loop_reached_by"] = {name_of.get(k, k): v for k, v in sorted(ad["reached_by"].items()) if k in open_keys}
    ast_ = {}
    for r in ad["r1"].values():
        ast_[r["status"]] = ast_.get(r["status"], 0) + 1
    cov["adaptive"] = {
        "cases": len(acases), "nontrivial": a_nontrivial, "phase1_status": ast_, "not_returned_in_phase1": ad["candidates"],
        "rerun_with_scaled_budget": ad["rerun"], "escalated_confirmation_runs": ad["confirmed"], "undecided": len(ad["undecided"]), "undecided_list": ad["undecided"][:25],
        "slow_but_returning": ad["slow"][:20], "wall_s": round(ad["wall"], 1), "per_entry_point": ahist,
        "precisions": list(term_adaptive.TIERS[ctx.tier]["precs"]),
        "sites_without_threshold_driven_entry": sorted(v["site"] for v in aplan.values() if not v["entries"]),
        "plan_samples": {k: aplan[k] for k in sorted(aplan) if k in ("libmp/libhyper.py::ei_asymptotic#0", "libmp/gammazeta.py::complex_stirling_series#0",
                                                                    "libmp/libhyper.py::mpf_expint#0")},
        "rule": "arguments on both sides of every threshold (ast) of the functions containing / guarding each open loop, value scale and "
                "magnitude scale, for several precisions; CPU-time budget max(5 s, 50 x median of the neighbouring placements)",
    }
    cov["open_loop_list"] = ["%s:%d %s [%s] entry=%s" % (s["file"], s["line"], s["func"], s["cls"], ",".join(s.get("entry_points", [])[:4]))
                             for s in open_sites]
    cov["generated_obligations"] = len(proved_sites)
    cov["generated_obligations_discharged"] = len(proved_sites)     # Gen.LoopSkel built (else the runner reports it broken)
    cov["baseline_regressions"] = [s["key"] for s, _ in regress]
    cov["baseline_new_open"] = [s["key"] for s in new_open]
    cov["baseline_vanished"] = gone[:50]
    cov["phase1_status"] = st
    cov["candidates_rerun_10x"] = dyn["candidates"]
    cov["undecided"] = len(dyn["undecided"])
    cov["undecided_list"] = dyn["undecided"][:20]
    cov["slow_but_returning"] = dyn["slow"][:20]
    cov["median_lines_per_group"] = {k: int(v) for k, v in sorted(dyn["median_lines"].items())}
    cov["cases_per_group"] = dict(sorted(by_group.items()))
    cov["precision_histogram"] = precs
    cov["exceptions_seen"] = exc_kinds
    documented = ("ValueError", "ZeroDivisionError", "NoConvergence", "NotImplementedError")
    cov["undocumented_exceptions"] = [dict(term_dynamic.strip(c), exc=dyn["r1"][c["id"]].get("exc"), msg=dyn["r1"][c["id"]].get("msg", "")[:120])
                                      for c in cases if dyn["r1"].get(c["id"], {}).get("status") == "exc"
                                      and dyn["r1"][c["id"]].get("exc") not in documented][:20]
    cov["dynamic_wall_s"] = round(dyn["wall"], 1)
    return res
