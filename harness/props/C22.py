"""C22 — hypergeometric functions and orthogonal polynomials (partial: terminating cases).

Translation validation with a proved validator: the real functions are run through the public `mp` API on arguments of the
sub-family where Mathlib proves a closed form; the exact output is decided against the exact value by `mpdrv spec/specc`
(Mp.SpecRef.specCheck, sound by Props/C22.lean).  Arguments outside the sub-family are counted, not decided.
Non-terminating pFq series are decided against the exact partial sum + checked geometric tail bound
`Mp.SpecRef.hypEncl`, negative integer degrees of legendre/chebyt/chebyu against the reflected recurrences, by
`mpdrv spec2/specc2` (sound by Props/C22b.lean).
The non-terminating class draws every parameter with a hypsum type Z / Q / R (one generated summator per type signature).
Complex arguments / complex parameters (the complex summators, types Z / Q / R / C) are decided in exact rational arithmetic
against the defining series summed over Q(i) with a checked tail bound (harness/special_pyref.py, not Lean-verified; compared
with `hypEncl` on the real and the imaginary axis in every run)."""
import special_ops

LEVEL = "translation_validation"
LEAN_MODULES = ["Props.C22", "Props.C22b"]
ASSUMPTIONS = special_ops.ASSUMPTIONS["C22"]


def run(ctx):
    return special_ops.check("C22", ctx)
