"""C07 — decimal strings convert to correctly rounded binary values."""
from fractions import Fraction
from props import _t1
import str_ops, spec
from common import *  # noqa

LEVEL = "proof"
LEAN_MODULES = ["Props.C07"]
ASSUMPTIONS = [
    "literals are ASCII; CPython's int(str) digit limit is a parameter of the model (limit 0 = none)",
    "the approximate branch of from_str (|decimal exponent| > 400) is modelled bit-exactly but is NOT correctly rounded "
    "(known finding D4); theorems cover the parser and the exact branch",
]


def exact_value(lit):
    """exact rational value of the literal, parsed independently of mpmath (decimal.Decimal is exact on construction)"""
    from decimal import Decimal
    s = lit.strip().lower().rstrip("l")
    if "/" in s:
        p, q = s.split("/")
        return Fraction(int(p.rstrip("l")), int(q.rstrip("l")))
    sg, dg, ex = Decimal(s).as_tuple()
    if not isinstance(ex, int) or abs(ex) > 7000 or len(dg) > 9000:
        raise ValueError("too large to decide exactly")
    n = int("".join(map(str, dg))) if dg else 0
    v = Fraction(n * 10 ** ex) if ex >= 0 else Fraction(n, 10 ** (-ex))
    return -v if sg else v


def run(ctx):
    so = str_ops.StrOps()
    n = 24000 if ctx.quick else 600000
    st, dis0, g0 = str_ops.run_t1(["str_to_man_exp", "from_str", "mpf_ctor", "mpmathify", "repr_dps", "prec_to_dps", "dps_to_prec",
                                   "mpi_from_str", "iv_mpf_str", "iv_mpf_pair"], n, ctx.seed)
    recs, g = _t1.collect(so, ["from_str", "mpf_ctor"], n // 3, ctx.seed + 1, str_ops.call)
    failing, dis = [], []
    for d in dis0:
        dis.append({"name": "T1:" + d["op"], "op": d["op"], "line": d["line"], "impl": d["impl"], "model": d["model"]})
    decided = {"ok": 0, "violates": 0, "nospec": 0}
    distinct = set()
    samples = []
    for r in recs:
        if r["impl"] != r["model"]:
            dis.append({"name": "T1:" + r["op"], "op": r["op"], "line": r["line"][:300], "impl": r["impl"], "model": r["model"]})
        lit = r["meta"]["lit"]
        t = r["line"].split()
        prec, rnd = int(t[2]), t[3]
        distinct.add(lit)
        if len(samples) < 5 and len(lit) < 60:
            samples.append({"literal": lit, "prec": prec, "rnd": rnd, "impl": r["impl"]})
        if r["impl"].startswith(("E:", "?")) or prec <= 0:
            decided["nospec"] += 1
            continue
        try:
            v = exact_value(lit)
            out = dec_mpf(r["impl"])
        except Exception:  # noqa
            decided["nospec"] += 1
            continue
        if spec.is_special(out):
            decided["nospec"] += 1
            continue
        a = abs(v)
        in_range = (a == 0) or (Fraction(1, 10 ** 100) <= a <= Fraction(10 ** 100))
        try:
            man, ex = so.L.str_to_man_exp(lit.strip().lower()) if "/" not in lit else (0, 0)
        except Exception:  # noqa
            man, ex = 0, 0
        bad = None
        if abs(v.numerator).bit_length() + v.denominator.bit_length() > 4 * 10 ** 5:
            decided["nospec"] += 1
            continue
        if in_range and not spec.round_ok(prec, rnd, v, out):
            bad = "result %r is not the correctly rounded value of the literal (prec=%d rnd=%s)" % (out, prec, rnd)
        elif not spec.is_canonical(out) or not spec.enclosing_ok(rnd, v, out):
            bad = "directed conversion on the wrong side of the literal (rnd=%s)" % rnd
        if bad:
            decided["violates"] += 1
            failing.append({"site": "libmpf.from_str", "what": bad,
                            "input": {"literal": lit if len(lit) < 2000 else lit[:200] + "...(%d chars)" % len(lit), "prec": prec, "rnd": rnd,
                                      "decimal_exponent": int(ex), "impl": r["impl"]}})
        else:
            decided["ok"] += 1
    # intervals from strings: the result must contain the denoted number / range
    irecs, gi = _t1.collect(so, ["mpi_from_str"], n // 6, ctx.seed + 2, str_ops.call)
    decided_iv = {"ok": 0, "violates": 0, "nospec": 0}
    for r in irecs:
        if r["impl"] != r["model"]:
            dis.append({"name": "T1:" + r["op"], "op": r["op"], "line": r["line"][:300], "impl": r["impl"], "model": r["model"]})
        parts, prec = r["meta"].get("parts"), r["meta"].get("prec")
        if parts is None or not r["impl"].startswith("P:"):
            decided_iv["nospec"] += 1
            continue
        try:
            rng = str_ops.denoted_range(parts)
            a_s, b_s = r["impl"][2:].split(",")
            lo, hi = dec_mpf(a_s), dec_mpf(b_s)
            exps = [abs(int(so.L.str_to_man_exp(x.strip().lower())[1])) for x in parts[1:]]
        except Exception:  # noqa
            decided_iv["nospec"] += 1
            continue
        if rng is None or spec.is_special(lo) or spec.is_special(hi) or max(len(x) for x in parts[1:]) > 3000:
            decided_iv["nospec"] += 1
            continue
        vlo = Fraction(lo[1]) * Fraction(2) ** lo[2] * (-1 if lo[0] else 1)
        vhi = Fraction(hi[1]) * Fraction(2) ** hi[2] * (-1 if hi[0] else 1)
        if vlo <= rng[0] and rng[1] <= vhi:
            decided_iv["ok"] += 1
        else:
            decided_iv["violates"] += 1
            failing.append({"site": "libmpi.mpi_from_str", "what": "interval from string does not contain the denoted %s" %
                            ("number" if rng[0] == rng[1] else "range"),
                            "input": {"literal": r["meta"]["lit"][:300], "prec": prec, "form": parts[0],
                                      "decimal_exponent": max(exps), "impl": r["impl"][:300]}})
    cov = {
        "evaluations": n + len(recs) + len(irecs), "interval_decisions": decided_iv, "distinct_nontrivial": len(distinct) + sum(v[0] for v in st["per_op"].values()) // 2,
        "rule": "literals from structured generators (digit counts 1..2000, exponents around +-400/401, ties at the rounding position, "
                "leading/trailing zeros, signs, e/E, trailing l, whitespace, p/q, malformed stream); each is parsed/converted by the real code "
                "and by the Lean model (bit-exact diff) and the implementation's result is decided against the exact decimal value (Fractions); "
                "distinct = distinct literal strings",
        "samples": samples, "programs": len(st["per_op"]) + 2, "disagreements_checked": len(dis) + len(failing),
        "t1_per_op": {k: v[0] for k, v in st["per_op"].items()}, "spec_decisions": decided,
        "input_distribution": _t1.hist_of(g0),
    }
    return {"coverage": cov, "failing_inputs": failing, "disagreements": dis}
