"""C29 — root finders return genuine roots, in the documented order.

Every value returned by polyroots / findroot / multiplicity on the generated inputs is decided by the
Lean-compiled checker (`rc_*` ops of mpdrv, soundness theorems in Props/C29.lean):

* polyroots: exactly deg roots; for every returned root r_i the certificate |P(r_i)| <= err*|P'(r_i)|
  ("residual consistent with the returned error estimate err"), which by `rootIncl_sound` puts a genuine root
  within deg*err of r_i; pairwise disjoint inclusion discs => one-to-one matching with all true roots
  (repeated / unresolved roots: matching `undecided`); for real-coefficient polynomials with the default
  cleanup: real roots first in non-decreasing order, complex roots as adjacent conjugate pairs
  (partners identified through the disjoint discs; when only the discs scaled by max(1,|root|) are certified — known
  finding R3 — those are used).  Input classes include several conjugate pairs on one vertical line (shared real part).
* the post-processing model (cleanup / sort / rounding) is compared bit-for-bit with the values the real
  code holds before and after (captured through the sort-key calls).
* findroot (verify=True): |f(x)|^2 <= tol re-decided exactly for polynomial / rational maps with tol the
  default 2^(-prec-9); bracketing solvers: result inside the bracket (exact comparison of the returned dyadic value
  with the bracket ends), on monotone and non-monotone sign-change brackets (1, 3 or 5 roots inside, roots outside); mnewton on (x-a)^m q(x): returns, with
  |x-a| <= 2^(4-p/m), at dps 15 and above 15, with numerical and analytic derivatives.
* multiplicity: equals the exact multiplicity (rc_multexact) for m below the documented cut-off.
* decision-logic models (multiplicity loop, MNewton keyword selection, MNewton step outcome, verify test)
  against the real code on scripted inputs.
"""
import sys, os, json, random, math, hashlib
from fractions import Fraction
from common import *  # noqa
import roots_ops as RO
from roots_ops import G, pmul, ppow, raw_to_frac, frac_tok

LEVEL = "translation_validation"
LEAN_MODULES = ["Props.C29"]
ASSUMPTIONS = [
    "coefficients handed to polyroots are exact dyadic/integer values (the certificate is about the polynomial with "
    "exactly those coefficients); functions handed to findroot/multiplicity use integer coefficients kept as Python ints",
    "'residual consistent with the returned error estimate' is read as |P(r)| <= err*|P'(r)| (first-order residual of a "
    "displacement err), which yields a genuine root within deg*err (rootIncl_sound)",
    "'at the working precision' (findroot verify): an exact failure of |f(x)|^2 <= tol is a property failure only when "
    "the working-precision recomputation of the same test also fails; otherwise it is counted as undecided",
    "conjugate partners of returned roots are identified only when the inclusion discs are pairwise disjoint",
]

# Which of the proposed fixes the tree under test contains (the decision-logic models follow the code):
# after the corresponding `fix:` commits in /repo add "order" / "d2f" / "mstep" here.
FIXED = {"order", "d2f", "mstep"}

SOLVERS_1D_OPEN = ["newton", "secant", "mnewton", "halley", "muller", "anewton"]
SOLVERS_BRACKET = ["bisect", "illinois", "pegasus", "anderson", "ridder"]

# --------------------------------------------------------------------------------------
# generators
# --------------------------------------------------------------------------------------


def poly_from_roots(roots, lead=1):
    p = [G(lead)]
    for a in roots:
        p = pmul(p, [G(1), (-a[0], -a[1])])
    return p


def clear_den(p):
    d = 1
    for c in p:
        for v in c:
            d = d * v.denominator // math.gcd(d, v.denominator)
    return [[int(c[0] * d), int(c[1] * d)] for c in p]


def gen_polyroots(g, quick, kind=None):
    r = g.r
    forced = kind
    deg = r.choice([1, 2, 2, 3, 3, 4, 5, 6, 7, 8, 10, 12, 15, 20]) if not quick else r.choice([1, 2, 3, 3, 4, 5, 6, 7, 8, 10, 12, 16, 20])
    kind = r.choice(["int_random", "int_random", "int_roots", "rat_roots", "gauss_random", "gauss_roots", "rational_coeffs",
                     "conj_shared_im", "conj_shared_im", "conj_mixed", "clustered", "repeated", "trailing_zero",
                     "leading_zero", "scaled", "unit_circle", "degenerate", "big_coeffs", "large_roots"])
    if forced is not None:
        kind = forced
    real_coeffs = True
    if kind == "int_random":
        m = r.choice([3, 9, 100, 10 ** 6])
        cs = [[r.randint(-m, m), 0] for _ in range(deg + 1)]
        if cs[0][0] == 0:
            cs[0][0] = r.choice([1, -1, 2])
    elif kind == "int_roots":
        deg = min(deg, 12)
        roots = [G(x) for x in r.sample(range(-15, 16), deg)]
        cs = clear_den(poly_from_roots(roots, r.choice([1, 1, 2, -3])))
    elif kind == "rat_roots":
        deg = min(deg, 7)
        roots = list({Fraction(r.randint(-20, 20), r.randint(1, 7)) for _ in range(deg)})
        cs = clear_den(poly_from_roots([G(x) for x in roots]))
    elif kind == "gauss_random":
        real_coeffs = False
        cs = [[r.randint(-9, 9), r.randint(-9, 9)] for _ in range(deg + 1)]
        if cs[0] == [0, 0]:
            cs[0] = [1, 0]
    elif kind == "gauss_roots":
        real_coeffs = False
        deg = min(deg, 8)
        roots = list({(r.randint(-6, 6), r.randint(-6, 6)) for _ in range(deg)})
        cs = clear_den(poly_from_roots([G(a, b) for a, b in roots]))
    elif kind == "rational_coeffs":
        cs = [["%d/%d" % (r.randint(-50, 50), r.randint(1, 30)), 0] for _ in range(deg + 1)]
        if Fraction(cs[0][0]) == 0:
            cs[0][0] = "1/3"
    elif kind in ("conj_shared_im", "conj_mixed"):
        # (x-a)^2 + b^2 factors sharing |Im| = b among several a, mixed with real roots
        npairs = r.randint(2, min(6, max(2, deg // 2)))
        b = r.choice([1, 1, 2, 3, Fraction(1, 2)])
        avals = r.sample(range(-6, 7), npairs)
        roots = []
        for a in avals:
            bb = b if (kind == "conj_shared_im" or r.random() < 0.6) else r.choice([1, 2, 3, 4])
            roots += [G(a, bb), G(a, -bb)]
        nreal = r.randint(0, 3)
        roots += [G(x) for x in r.sample(range(-9, 10), nreal)]
        cs = clear_den(poly_from_roots(roots))
    elif kind == "conj_shared_re":
        # several conjugate pairs on ONE vertical line Re z = a: factors (x-a)^2 + b_k^2 with a common a and distinct b_k.
        # The real parts of all these roots agree (up to rounding noise), so only |Im| tells the partners apart.
        # Optionally a second vertical line (sharing one |Im| with the first, the transposed situation), real roots
        # (possibly one on the line itself), a leading factor.
        a = r.choice([r.choice([-9, -7, -5, -3, -2, -1, 1, 2, 3, 4, 6, 8]), r.choice([-9, -7, -5, -3, -2, -1, 1, 2, 3, 4, 6, 8]),
                      Fraction(r.choice([-7, -5, -3, -1, 1, 3, 5, 9]), r.choice([2, 4, 8])),      # dyadic, exactly representable
                      Fraction(r.choice([-7, -5, -2, -1, 1, 2, 4, 5]), r.choice([3, 5, 7])),      # not representable
                      r.choice([-1000, 100, 12345]), 0])
        npairs = r.randint(2, 5)
        pool = [Fraction(k) for k in range(1, 10)] if r.random() < 0.7 else [Fraction(k, 2) for k in range(1, 14)]
        bs = r.sample(pool, npairs)
        roots = []
        for b in bs:
            roots += [G(a, b), G(a, -b)]
        if r.random() < 0.3:
            a2 = a + r.choice([-3, -1, 1, 2, 5])
            bs2 = [r.choice(bs)] + ([r.choice(pool)] if r.random() < 0.5 else [])
            for b in set(bs2):
                roots += [G(a2, b), G(a2, -b)]
        nreal = r.randint(0, 3)
        reals = r.sample(range(-9, 10), nreal)
        if nreal and r.random() < 0.3:
            reals[0] = a                                                                       # a real root on the line
        roots += [G(x) for x in reals]
        g.note("shared_re_a", "zero" if a == 0 else ("int" if Fraction(a).denominator == 1 else
                                                      ("dyadic" if Fraction(a).denominator in (2, 4, 8) else "rounded")))
        g.note("shared_re_pairs", npairs)
        g.note("shared_re_reals", nreal)
        cs = clear_den(poly_from_roots(roots, r.choice([1, 1, 1, 2, -3])))
    elif kind == "clustered":
        k = r.randint(2, min(5, max(2, deg)))
        sep = r.choice([10, 100, 1000, 10 ** 5])
        roots = [G(Fraction(sep + i, sep)) for i in range(k)] + [G(x) for x in r.sample(range(3, 12), r.randint(0, 3))]
        cs = clear_den(poly_from_roots(roots))
    elif kind == "repeated":
        m = r.randint(2, 4)
        a = r.choice([G(r.randint(-4, 4)), G(Fraction(r.randint(-9, 9), 2)), G(r.randint(-2, 2), r.randint(1, 2))])
        others = [G(x) for x in r.sample(range(5, 14), r.randint(0, 3))]
        roots = [a] * m + others
        if a[1] != 0:
            if r.random() < 0.7:
                roots += [(a[0], -a[1])] * m
            else:
                real_coeffs = False
        cs = clear_den(poly_from_roots(roots))
    elif kind == "trailing_zero":
        deg = min(deg, 10)
        k = r.randint(1, 3)
        cs = [[r.randint(-9, 9), 0] for _ in range(max(1, deg - k) + 1)] + [[0, 0]] * k
        if cs[0][0] == 0:
            cs[0][0] = 1
    elif kind == "leading_zero":
        cs = [[0, 0]] + [[r.randint(-9, 9), 0] for _ in range(deg)]
    elif kind == "scaled":
        deg = min(deg, 8)
        s = r.choice([2 ** 40, 2 ** -40, 10 ** 12, Fraction(1, 10 ** 12), 2 ** 300, Fraction(1, 2 ** 300)])
        s = Fraction(s)
        base = [r.randint(-9, 9) or 1 for _ in range(deg + 1)]
        if r.random() < 0.5:
            cs = [[frac_tok(Fraction(c) * s), 0] for c in base]          # all coefficients scaled
        else:
            t = Fraction(r.choice([2 ** 10, Fraction(1, 2 ** 10), 1000, Fraction(1, 1000)]))
            cs = [[frac_tok(Fraction(c) * t ** i), 0] for i, c in enumerate(base)]   # roots scaled by t
    elif kind == "unit_circle":
        n = max(2, min(deg, 16))
        cs = [[1, 0]] + [[0, 0]] * (n - 1) + [[r.choice([-1, 1, -2, 3]), 0]]
    elif kind == "big_coeffs":
        cs = [[r.randint(-10 ** 30, 10 ** 30), 0] for _ in range(min(deg, 10) + 1)]
        if cs[0][0] == 0:
            cs[0][0] = 1
    elif kind == "large_roots":
        # roots of magnitude 10..1000 that are not exactly representable
        k = min(deg, 5)
        cs = [[1, 0], [0, 0], [-r.randint(101, 10 ** 6), 0]] if r.random() < 0.5 else \
            clear_den(poly_from_roots([G(Fraction(r.randint(1000, 99999), 7)) for _ in range(k)]))
    else:  # degenerate
        cs = r.choice([[], [[0, 0]], [[5, 0]], [[0, 0], [0, 0]], [[2, 0], [3, 0]]])
    prec = r.choice([30, 40, 53, 53, 64, 100, 113, 150, 200, 300]) if r.random() < 0.8 else r.randint(30, 300)
    kw = {}
    v = r.random()
    if v < 0.15:
        kw["maxsteps"] = r.choice([5, 20, 100, 200])
    elif v < 0.35:
        kw["extraprec"] = r.choice([0, 1, 20, 50, prec, 2 * prec])
    elif v < 0.42:
        kw["cleanup"] = False
    elif v < 0.5:
        kw["maxsteps"] = r.choice([100, 200])
        kw["extraprec"] = r.choice([prec, 3 * prec])
    if forced == "conj_shared_re" and "maxsteps" not in kw and r.random() < 0.6:
        # the default maxsteps=50 / extraprec=10 often end in NoConvergence for 4-5 pairs on a line (no result, nothing decided)
        kw["maxsteps"] = 200
        kw.setdefault("extraprec", r.choice([prec, 2 * prec]))
    g.note("polyroots_kind", kind)
    g.note("polyroots_deg", max(0, len(cs) - 1))
    g.note("polyroots_kw", ",".join(sorted(kw)) or "default")
    job = {"kind": "polyroots", "prec": prec, "coeffs": cs, "kw": kw, "tag": kind, "real_coeffs": real_coeffs,
           "noerr": r.random() < 0.3, "capture": r.random() < (0.5 if quick else 0.5), "timeout": 20}
    return job


def gen_cleanup_boundary(g):
    """roots placed exactly on / next to the cleanup thresholds (|z|, |Im z|, |Re z| against tol = 2^(1-prec)),
    handed to polyroots as exact coefficients and exact `roots_init` with enough extra precision that the
    iteration leaves them (almost) unchanged; only the post-processing tie is checked on these"""
    from mpmath.libmp import from_man_exp
    r = g.r
    prec = r.choice([30, 53, 64, 100])
    tol = Fraction(2) ** (1 - prec)
    f = lambda: r.choice([Fraction(1, 2), Fraction(1), Fraction(2), Fraction(3, 4), Fraction(5, 4), 1 - Fraction(1, 2 ** 20), 1 + Fraction(1, 2 ** 20)])
    shape = r.choice(["im", "im", "re", "abs", "mixed"])
    roots = []
    if shape == "im":
        a = r.randint(-3, 3)
        roots = [G(a, f() * tol), G(a, -f() * tol), G(r.randint(4, 6), 1), G(7)]
    elif shape == "re":
        roots = [G(f() * tol, 1), G(-f() * tol, -1), G(2, 0)]
    elif shape == "abs":
        roots = [G(f() * tol * Fraction(3, 4), f() * tol * Fraction(5, 8)), G(1), G(f() * tol, 0)]
    else:
        roots = [G(1, f() * tol), G(f() * tol, 2), G(f() * tol, f() * tol), G(-2, -f() * tol)]
    p = poly_from_roots(roots)

    def raw(q):
        q = Fraction(q)
        assert q.denominator & (q.denominator - 1) == 0
        return list(from_man_exp(q.numerator, -(q.denominator.bit_length() - 1)))
    cs = [{"raw": [raw(c[0]), raw(c[1])]} for c in p]
    init = [{"raw": [raw(z[0]), raw(z[1])], "mpc": True} for z in roots]
    g.note("polyroots_kind", "cleanup_boundary")
    return {"kind": "polyroots", "prec": prec, "coeffs": cs, "kw": {"extraprec": 8 * prec + 40, "roots_init": init},
            "tag": "cleanup_boundary", "real_coeffs": False, "noerr": False, "capture": True, "timeout": 20, "post_only": True}


def rand_simple_poly(r, deg, rootrange=12):
    roots = r.sample(range(-rootrange, rootrange + 1), deg)
    return roots, clear_den(poly_from_roots([G(x) for x in roots], r.choice([1, 1, 2, -1])))


def gen_findroot(g, quick):
    r = g.r
    prec = r.choice([30, 53, 53, 64, 100, 150, 200, 300])
    fam = r.choice(["open_real", "open_real", "open_complex", "bracket", "bracket", "bracket_nosign", "ratio", "multiple",
                    "system", "system", "far", "noroot", "exactstart"])
    job = {"kind": "findroot", "prec": prec, "fam": fam, "timeout": 20}
    verify = r.random() < 0.8
    job["verify"] = verify
    if fam in ("open_real", "far", "exactstart"):
        deg = r.randint(1, 6)
        roots, cs = rand_simple_poly(r, deg)
        a = r.choice(roots)
        job["f"] = {"type": "poly", "coeffs": cs, "form": r.choice(["horner", "power"])}
        job["solver"] = r.choice(SOLVERS_1D_OPEN)
        if fam == "open_real":
            d = Fraction(r.randint(-40, 40), 128)
            job["x0"] = [[frac_tok(a + d), 0]]
        elif fam == "far":
            job["x0"] = [[r.randint(-1000, 1000), 0]]
        else:
            job["x0"] = [[a, 0]]
        if job["solver"] in ("secant", "muller") and r.random() < 0.4:
            job["x0"] = job["x0"] + [[frac_tok(Fraction(job["x0"][0][0]) + Fraction(1, 8)), 0]]
        if job["solver"] in ("newton", "mnewton", "halley", "anewton") and r.random() < 0.4:
            job["df"] = True
            if job["solver"] in ("mnewton", "halley") and r.random() < 0.7:
                job["d2f"] = True
    elif fam == "open_complex":
        # real polynomial with complex roots, or Gaussian coefficients
        if r.random() < 0.5:
            a, b = r.randint(-4, 4), r.randint(1, 4)
            roots = [G(a, b), G(a, -b)] + [G(x) for x in r.sample(range(-9, 10), r.randint(0, 2))]
        else:
            roots = list({(r.randint(-4, 4), r.randint(-4, 4)) for _ in range(r.randint(1, 4))})
            roots = [G(a, b) for a, b in roots]
        cs = clear_den(poly_from_roots(roots))
        z = r.choice(roots)
        job["f"] = {"type": "poly", "coeffs": cs, "form": "horner"}
        job["solver"] = r.choice(["secant", "muller", "newton", "halley", "mnewton"])
        job["x0"] = [[frac_tok(z[0] + Fraction(r.randint(-20, 20), 128)), frac_tok(z[1] + Fraction(r.randint(-20, 20), 128))]]
        if job["solver"] == "muller" and r.random() < 0.5:
            job["x0"] = [[r.randint(-3, 3), 0]]      # real start, complex root
    elif fam in ("bracket", "bracket_nosign"):
        deg = r.randint(1, 6)
        roots, cs = rand_simple_poly(r, deg)
        roots.sort()
        job["f"] = {"type": "poly", "coeffs": cs, "form": r.choice(["horner", "power"])}
        job["solver"] = r.choice(SOLVERS_BRACKET)
        if fam == "bracket":
            i = r.randrange(len(roots))
            lo = Fraction(roots[i - 1] + roots[i], 2) if i > 0 else Fraction(roots[i] - r.randint(1, 5))
            hi = Fraction(roots[i] + roots[i + 1], 2) if i + 1 < len(roots) else Fraction(roots[i] + r.randint(1, 5))
            a = roots[i] - (roots[i] - lo) * Fraction(r.randint(1, 16), 16)
            b = roots[i] + (hi - roots[i]) * Fraction(r.randint(1, 16), 16)
            if r.random() < 0.2:
                a, b = b, a
        else:
            # no sign change: both ends on the same side of every root in between / no root inside
            a = Fraction(roots[-1] + r.randint(1, 3))
            b = a + r.randint(1, 4)
            if r.random() < 0.5 and len(roots) >= 2:
                a = Fraction(roots[0] - 1)
                b = Fraction(roots[1] + 1) if len(roots) == 2 else Fraction(roots[1] + roots[2], 2)
        job["x0"] = [[frac_tok(a), 0], [frac_tok(b), 0]]
        job["bracket"] = True
    elif fam == "ratio":
        roots, cs = rand_simple_poly(r, r.randint(1, 4))
        den = clear_den(poly_from_roots([G(0, r.randint(1, 3)), G(0, -r.randint(1, 3))]))
        den = [[den[0][0], 0], [den[1][0], 0], [den[2][0], 0]]
        a = r.choice(roots)
        job["f"] = {"type": "ratio", "num": {"type": "poly", "coeffs": cs}, "den": {"type": "poly", "coeffs": den}}
        job["solver"] = r.choice(["secant", "newton", "muller", "halley", "anewton", "illinois", "ridder", "bisect"])
        if job["solver"] in SOLVERS_BRACKET:
            job["x0"] = [[frac_tok(a - Fraction(1, 3)), 0], [frac_tok(a + Fraction(1, 4)), 0]]
            job["bracket"] = True
        else:
            job["x0"] = [[frac_tok(a + Fraction(r.randint(-20, 20), 128)), 0]]
    elif fam == "multiple":
        m = r.randint(2, 5)
        a = Fraction(r.randint(-6, 6), r.choice([1, 1, 2, 4]))
        rest = clear_den(poly_from_roots([G(x) for x in r.sample(range(8, 14), r.randint(0, 2))]))
        job["f"] = {"type": "fact", "lin": [[a.numerator, a.denominator, m]], "rest": rest}
        job["solver"] = r.choice(["mnewton", "mnewton", "anewton", "newton", "secant", "halley"])
        job["x0"] = [[frac_tok(a + Fraction(r.randint(-30, 30) or 1, 128)), 0]]
        job["mult"] = [frac_tok(a), m]
    elif fam == "system":
        # f1 = x^2 + c y - a, f2 = b x + y^2 - d  etc. with an integer solution planted
        nv = r.choice([2, 2, 3])
        sol = [r.randint(-3, 3) for _ in range(nv)]
        polys = []
        for _ in range(nv if r.random() < 0.8 else nv + 1):
            terms = []
            for _ in range(r.randint(2, 4)):
                es = [r.choice([0, 0, 1, 1, 2]) for _ in range(nv)]
                terms.append([r.randint(-4, 4) or 1, 0] + es)
            val = 0
            for t in terms:
                v = t[0]
                for xi, e in zip(sol, t[2:]):
                    v *= xi ** e
                val += v
            terms.append([-val, 0] + [0] * nv)
            polys.append(terms)
        job["f"] = {"type": "sys", "nvars": nv, "polys": polys}
        job["solver"] = r.choice(["mdnewton", "secant", "newton"])      # always replaced by MDNewton
        job["x0"] = [[frac_tok(s + Fraction(r.randint(-12, 12), 64)), 0] for s in sol]
        job["as_list"] = r.random() < 0.5
    else:  # noroot: x^2 + c on the real line
        job["f"] = {"type": "poly", "coeffs": [[1, 0], [0, 0], [r.randint(1, 9), 0]], "form": "horner"}
        job["solver"] = r.choice(SOLVERS_1D_OPEN + SOLVERS_BRACKET)
        if job["solver"] in SOLVERS_BRACKET:
            job["x0"] = [[-1, 0], [2, 0]]
            job["bracket"] = True
            job["fam"] = "bracket_nosign"
        else:
            job["x0"] = [[r.randint(-3, 3), 0]]
    g.note("findroot_family", job["fam"])
    g.note("findroot_solver", job["solver"])
    g.note("findroot_verify", job["verify"])
    return job


def gen_bracket_nonmono(g):
    """brackets with a sign change on which f is NOT monotone: f has 3..5 simple real roots, the ends of the bracket lie
    anywhere in two gaps between consecutive roots (or beyond the outermost roots) such that an odd number (1, 3 or 5)
    of roots is inside and at least one root is outside whenever possible; the ends are not confined to the
    half-gaps next to the enclosed root, so local extrema of f lie inside the bracket.  Every bracketing solver is run
    on the same (f, bracket, precision).  Returns a list of jobs."""
    r = g.r
    deg = r.choice([3, 3, 3, 4, 5, 5])
    if r.random() < 0.75:
        roots = sorted(Fraction(x) for x in r.sample(range(-20, 21), deg))
    else:
        roots = sorted({Fraction(r.randint(-40, 40), r.choice([2, 3, 4])) for _ in range(deg)})
        deg = len(roots)
    cs = clear_den(poly_from_roots([G(x) for x in roots], r.choice([1, 1, 2, -1])))
    # gaps 0..deg: gap k lies between roots[k-1] and roots[k]
    inside = r.choice([1, 1, 1, 3] if deg >= 4 else [1, 1, 1, 1, 3]) if deg >= 3 else 1
    inside = min(inside, deg if deg % 2 else deg - 1)
    i = r.randint(0, deg - inside)
    jgap = i + inside

    def point(k):
        t = Fraction(r.randint(1, 15), 16)
        if k == 0:
            return roots[0] - r.choice([Fraction(r.randint(1, 16), 4), Fraction(r.randint(1, 200), 8)])
        if k == deg:
            return roots[-1] + r.choice([Fraction(r.randint(1, 16), 4), Fraction(r.randint(1, 200), 8)])
        return roots[k - 1] + (roots[k] - roots[k - 1]) * t
    a, b = point(i), point(jgap)
    # dyadic ends (exactly representable at every precision used): round to multiples of 1/64 staying inside the gaps
    a = Fraction(math.floor(a * 64), 64)
    b = Fraction(math.ceil(b * 64), 64)
    if any(x == a or x == b for x in roots) or not (a < b):
        return []
    nin = len([x for x in roots if a < x < b])
    if nin % 2 == 0:
        return []
    if r.random() < 0.2:
        a, b = b, a
    if r.random() < 0.2:
        k = r.randint(1, 4)
        f = {"type": "ratio", "num": {"type": "poly", "coeffs": cs}, "den": {"type": "poly", "coeffs": [[1, 0], [0, 0], [k * k, 0]]}}
    else:
        f = {"type": "poly", "coeffs": cs, "form": r.choice(["horner", "power"])}
    prec = r.choice([30, 53, 53, 64, 100, 113, 150, 200, 300])
    verify = r.random() < 0.9
    g.note("nonmono_deg", deg)
    g.note("nonmono_roots_inside", nin)
    g.note("nonmono_roots_outside", deg - nin)
    g.note("nonmono_ftype", f["type"])
    g.note("nonmono_prec", prec)
    jobs = []
    for solver in SOLVERS_BRACKET:
        jobs.append({"kind": "findroot", "prec": prec, "fam": "bracket_nonmono", "timeout": 20, "verify": verify, "f": f,
                     "solver": solver, "x0": [[frac_tok(a), 0], [frac_tok(b), 0]], "bracket": True,
                     "roots_inside": nin, "roots_outside": deg - nin})
        g.note("findroot_family", "bracket_nonmono")
        g.note("findroot_solver", solver)
    return jobs


def gen_mnewton(g, dps):
    """the property's mnewton clause: (x-a)^m q(x), nearby start, numerical or analytic derivatives"""
    r = g.r
    m = r.randint(1, 5)
    a = Fraction(r.randint(-5, 5), r.choice([1, 1, 1, 2]))
    rest = clear_den(poly_from_roots([G(x) for x in r.sample(range(9, 15), r.randint(0, 2))]))
    start = a + Fraction(r.choice([-1, 1]) * r.randint(3, 26), 128)
    job = {"kind": "findroot", "prec": int(round(dps * 3.3219280948873626)) if False else None, "fam": "mnewton_clause",
           "f": {"type": "fact", "lin": [[a.numerator, a.denominator, m]], "rest": rest}, "solver": "mnewton",
           "x0": [[frac_tok(start), 0]], "verify": True, "mult": [frac_tok(a), m], "timeout": 30, "dps": dps}
    # prec from dps as mpmath does
    job["prec"] = max(1, int(round((int(dps) + 1) * 3.3219280948873626)))
    deriv = r.choice(["numeric", "numeric", "df", "df+d2f"])
    if deriv != "numeric":
        job["df"] = True
    if deriv == "df+d2f":
        job["d2f"] = True
    job["deriv"] = deriv
    g.note("mnewton_dps", dps)
    g.note("mnewton_m", m)
    g.note("mnewton_deriv", deriv)
    return job


def gen_multiplicity(g):
    r = g.r
    m = r.choice([0, 1, 1, 2, 2, 3, 3, 4, 5, 6])
    a = Fraction(r.randint(-6, 6), r.choice([1, 1, 2, 3, 7]))
    rest = clear_den(poly_from_roots([G(x) for x in r.sample(range(8, 14), r.randint(0, 2))], r.choice([1, 2, 5])))
    prec = r.choice([30, 53, 53, 100, 200, 300])
    job = {"kind": "multiplicity", "prec": prec, "f": {"type": "fact", "lin": [[a.numerator, a.denominator, m]], "rest": rest},
           "root": [frac_tok(a), 0], "timeout": 30, "m": m, "a": frac_tok(a)}
    g.note("multiplicity_m", m)
    g.note("multiplicity_root", "int" if a.denominator == 1 else ("dyadic" if a.denominator in (2, 4) else "rounded"))
    return job


# --------------------------------------------------------------------------------------
# deciding
# --------------------------------------------------------------------------------------

def item_cplx(it):
    """('R', raw) / ('C', raw, raw) -> (re_raw, im_raw)"""
    if it[0] == "R":
        return (tuple(it[1]), (0, 0, 0, 0))
    return (tuple(it[1]), tuple(it[2]))


def item_frac(it):
    re, im = item_cplx(it)
    return (raw_to_frac(re), raw_to_frac(im))


def finite_item(it):
    for t in it[1:]:
        if t[1] == 0 and t[2] != 0:
            return False
    return True


def order_check(roots_items, tol):
    """documented order on the returned list, decided exactly; returns (verdict, detail).
    Pre-condition (checked by the caller): inclusion discs of radius <= tol are pairwise disjoint."""
    zs = [item_frac(it) for it in roots_items]
    n = len(zs)
    kinds = [it[0] for it in roots_items]
    # partner: unique index c with |conj(z_a) - z_c|^2 <= (2 tol)^2
    four = 4 * tol * tol
    partner = []
    for a in range(n):
        cands = [c for c in range(n) if (zs[a][0] - zs[c][0]) ** 2 + (-zs[a][1] - zs[c][1]) ** 2 <= four]
        if len(cands) != 1:
            return "undecided", "partner of root %d not unique: %r" % (a, cands)
        partner.append(cands[0])
    nreal = 0
    while nreal < n and kinds[nreal] == "R":
        nreal += 1
    for i in range(nreal, n):
        if kinds[i] == "R":
            return "fail", "real root at position %d after a complex one" % i
    for i in range(nreal):
        if partner[i] != i:
            return "fail", "root %d returned as real but its conjugate partner is root %d" % (i, partner[i])
    for i in range(nreal - 1):
        if zs[i][0] > zs[i + 1][0]:
            return "fail", "real roots %d,%d not in increasing order" % (i, i + 1)
    cx = list(range(nreal, n))
    for i in cx:
        if partner[i] == i:
            return "fail", "root %d is real (self-conjugate within 2*tol) but returned as complex after cleanup" % i
    if len(cx) % 2:
        return "fail", "odd number of complex roots"
    for k in range(0, len(cx), 2):
        i, j = cx[k], cx[k + 1]
        if partner[i] != j:
            return "fail", "positions %d,%d are not conjugates (partner of %d is %d)" % (i, j, i, partner[i])
    return "ok", ""


class Check:
    def __init__(self, seed, quick, patches=()):
        self.g = Gen(seed)
        # second stream (derived from the same seed) for the input classes added later; the cases of the first
        # stream are exactly those generated before the classes were added
        self.g2 = Gen("C29/classes-2/%d" % seed)
        self.quick = quick
        self.patches = tuple(patches)
        self.failing = []
        self.dis = []
        self.stats = {}
        self.samples = []
        self.evaluations = 0
        self.distinct = set()
        self.undecided = 0
        self.programs = set()

    def fixed(self, what):
        return what in FIXED or {"order": "fix_order", "d2f": "fix_d2f", "mstep": "fix_mnewton_zerodiv"}[what] in self.patches

    def st(self, key, n=1):
        self.stats[key] = self.stats.get(key, 0) + n

    def fail(self, site, what, inp):
        self.failing.append({"site": site, "what": what, "input": inp})

    def nontrivial(self, job):
        h = hashlib.md5(json.dumps({k: v for k, v in job.items() if k not in ("id", "timeout")}, sort_keys=True).encode()).digest()[:8]
        self.distinct.add(h)

    # ---------------- polyroots ----------------
    def run_polyroots(self, n, extra_jobs=()):
        jobs = list(extra_jobs) + [gen_polyroots(self.g, self.quick) for _ in range(n)] + \
            [gen_cleanup_boundary(self.g) for _ in range(n // 8)]
        # conjugate pairs with a shared real part (vertical lines of roots)
        jobs += [gen_polyroots(self.g2, self.quick, kind="conj_shared_re") for _ in range((n + 6) // 7)]
        for i, j in enumerate(jobs):
            j["id"] = i
        res = RO.run_jobs(jobs, self.patches)
        lines, ctxs = [], []
        for j in jobs:
            rr = res[j["id"]]
            self.evaluations += 1
            self.programs.add("polyroots")
            jj = {k: v for k, v in j.items() if k not in ("id",)}
            deg = len(j["coeffs"]) - 1
            if rr["status"] == "timeout":
                self.st("polyroots:timeout")
                continue
            if rr["status"] == "exc":
                self.st("polyroots:exc:" + rr["exc"])
                continue
            if deg >= 1:
                self.nontrivial(j)
            if len(self.samples) < 4 and deg >= 2:
                self.samples.append({"job": jj, "roots": rr["roots"][:3], "err": rr["err"]})
            if deg < 1:
                if rr["roots"] != []:
                    self.fail("polynomials.polyroots:count", "constant polynomial returned roots", {"job": jj, "result": rr})
                self.st("polyroots:constant")
                continue
            if not all(finite_item(it) for it in rr["roots"]) or not all(finite_item(c) for c in rr["coeffs_raw"]):
                self.st("polyroots:nonfinite")
                self.undecided += 1
                continue
            if j.get("noerr") and rr.get("roots_noerr") != rr["roots"]:
                self.fail("polynomials.polyroots:error-flag", "error=True and error=False return different roots", {"job": jj, "result": rr})
            coeffs = [item_frac(c) for c in rr["coeffs_raw"]]
            err = raw_to_frac(tuple(rr["err"][1]))
            tol = err * deg
            if j.get("post_only"):
                if "cap_error" in rr:
                    self.dis.append({"name": "T1:rc_post:capture", "op": "rc_post", "job": jj, "impl": rr["cap_error"]})
                if "cap_pre" in rr:
                    lines.append(RO.post_line(rr["wp"], j["prec"], True, self.fixed("order"), rr["cap_pre"]))
                    ctxs.append(("post", j, rr, None))
                continue
            lines.append(RO.poly_line(tol, coeffs, [item_cplx(it) for it in rr["roots"]]))
            ctxs.append(("cert", j, rr, tol))
            # classification only (never a pass criterion): the same certificate with err scaled by the size of the roots,
            # i.e. allowing for the relative rounding of `+r` which the absolute floor 2^(1-prec) of err ignores
            M = max([Fraction(1)] + [abs(z[0]) + abs(z[1]) for z in (item_frac(it) for it in rr["roots"])])
            lines.append(RO.poly_line(tol * M, coeffs, [item_cplx(it) for it in rr["roots"]]))
            ctxs.append(("cert_scaled", j, rr, tol * M))
            if "cap_error" in rr:
                self.dis.append({"name": "T1:rc_post:capture", "op": "rc_post", "job": jj, "impl": rr["cap_error"]})
            if "cap_pre" in rr:
                cl = j["kw"].get("cleanup", True)
                lines.append(RO.post_line(rr["wp"], j["prec"], cl, self.fixed("order"), rr["cap_pre"]))
                ctxs.append(("post", j, rr, None))
        ans = Driver().ask(lines)
        scaled = {}
        for a, (what, j, rr, tol) in zip(ans, ctxs):
            if what == "cert_scaled":
                scaled[j["id"]] = a
        for a, (what, j, rr, tol) in zip(ans, ctxs):
            jj = {k: v for k, v in j.items() if k not in ("id",)}
            if what == "cert_scaled":
                continue
            if what == "post":
                self.evaluations += 1
                self.programs.add("polyroots.postprocessing")
                expect = RO.post_answer(rr["cap_out"])
                if a != expect:
                    self.dis.append({"name": "T1:rc_post", "op": "rc_post", "job": jj, "impl": expect[:400], "model": a[:400]})
                if rr["cap_out"] != rr["roots"]:
                    self.dis.append({"name": "capture-changed-result", "op": "rc_post", "job": jj})
                # cleanup tie: model cleanup of the captured pre-cleanup values equals the captured post-cleanup values
                continue
            if not a.startswith("R:"):
                self.dis.append({"name": "driver:rc_poly", "op": "rc_poly", "job": jj, "model": a})
                continue
            _, count, incl, match, per = a.split(":")
            self.st("polyroots:incl=" + incl)
            self.st("polyroots:match=" + match)
            self.st("polyroots[%s]:incl=%s" % (j["tag"], incl))
            if count != "1":
                self.fail("polynomials.polyroots:count", "returned %d roots for degree %d" % (len(rr["roots"]), len(j["coeffs"]) - 1),
                          {"job": jj, "result": {"roots": rr["roots"]}})
                continue
            if incl == "fail":
                bad = [i for i, c in enumerate(per) if c == "f"]
                sc = scaled.get(j["id"], "R:?:?:?:?").split(":")[2]
                site = "polynomials.polyroots:err-rounding" if sc == "ok" else "polynomials.polyroots:err"
                self.fail(site,
                          "root(s) %s: |P(r)| > err*|P'(r)| — no root certified within deg*err (err=%s, class %s, prec %d)%s" %
                          (bad[:4], float(raw_to_frac(tuple(rr["err"][1]))), j["tag"], j["prec"],
                           "; holds with err scaled by max|root| (rounding of the returned roots is not covered by err)" if sc == "ok" else ""),
                          {"job": jj, "roots": rr["roots"], "err": rr["err"], "driver": a})
            elif incl == "undecided":
                self.undecided += 1
            otol = tol
            if match == "ok" and incl == "fail":
                # the discs of radius deg*err are not certified, but those of radius deg*err*max(1,|root|) may be
                # (known finding R3): the ordering clause is then decided with the larger certified radius
                sa = scaled.get(j["id"], "R:?:?:?:?").split(":")
                if sa[1:4] == ["1", "ok", "ok"]:
                    M = max([Fraction(1)] + [abs(z[0]) + abs(z[1]) for z in (item_frac(it) for it in rr["roots"])])
                    otol = tol * M
                    incl = "ok"
                    self.st("polyroots:order-decided-with-scaled-radius")
            if match != "ok" or incl != "ok":
                if incl == "ok":
                    self.undecided += 1
                continue
            # ordering, real coefficients, default cleanup
            if j.get("real_coeffs") and j["kw"].get("cleanup", True) and all(c[0] == "R" for c in rr["coeffs_raw"]):
                v, detail = order_check(rr["roots"], otol)
                self.st("polyroots[%s]:order=%s" % (j["tag"], v))
                self.st("polyroots:order=" + v)
                if v == "fail":
                    self.fail("polynomials.polyroots:order", "documented order violated: " + detail,
                              {"job": jj, "roots": rr["roots"]})
                elif v == "undecided":
                    self.undecided += 1

    # ---------------- findroot ----------------
    def decide_findroot(self, jobs, res):
        lines, ctxs = [], []
        for j in jobs:
            rr = res[j["id"]]
            self.evaluations += 1
            self.programs.add("findroot:" + j["solver"])
            jj = {k: v for k, v in j.items() if k not in ("id",)}
            fam = j["fam"]
            if rr["status"] == "timeout":
                self.st("findroot:timeout")
                if fam == "mnewton_clause":
                    self.fail("optimization.findroot:mnewton", "mnewton did not return within the time limit", {"job": jj})
                continue
            if rr["status"] == "exc":
                self.st("findroot[%s]:exc:%s" % (fam, rr["exc"]))
                if fam == "mnewton_clause":
                    self.nontrivial(j)
                    site = "optimization.findroot:mnewton"
                    self.fail(site, "mnewton (%s derivatives) on a root of multiplicity %d at dps %s raised %s instead of converging" %
                              (j["deriv"], j["mult"][1], j.get("dps"), rr["exc"]), {"job": jj, "exc": rr["exc"], "msg": rr.get("msg")})
                continue
            self.nontrivial(j)
            if len(self.samples) < 8:
                self.samples.append({"job": jj, "x": rr["x"]})
            xs = rr["x"]
            if not all(finite_item(it) for it in xs):
                self.st("findroot:nonfinite")
                if j.get("verify"):
                    self.fail("optimization.findroot:verify", "non-finite value returned with verify=True", {"job": jj, "x": xs})
                continue
            prec = j["prec"]
            tol = Fraction(1, 2 ** (prec + 9)) if prec + 9 >= 0 else Fraction(2 ** (-prec - 9))
            br = None
            if j.get("bracket"):
                br = (item_cplx(rr["x0_raw"][0])[0], item_cplx(rr["x0_raw"][1])[0])
            lines.append(RO.find_line(tol, [item_cplx(it) for it in xs], j["f"], br))
            ctxs.append(("res", j, rr))
            if "mult" in j and fam == "mnewton_clause":
                a = Fraction(j["mult"][0])
                m = j["mult"][1]
                spec = {"type": "fact", "lin": [[a.numerator, a.denominator, m]], "rest": [[1, 0]]}
                # |q x - p|^(2m) <= q^(2m) * 2^(8m - 2 prec)   <=>  |x - a| <= 2^(4 - prec/m)
                t = Fraction(a.denominator) ** (2 * m) * Fraction(2) ** (8 * m - 2 * prec)
                lines.append(RO.find_line(t, [item_cplx(it) for it in xs], spec, None))
                ctxs.append(("mnewton_err", j, rr))
        ans = Driver().ask(lines)
        for a, (what, j, rr) in zip(ans, ctxs):
            jj = {k: v for k, v in j.items() if k not in ("id",)}
            if not a.startswith("F:"):
                self.dis.append({"name": "driver:rc_find", "op": "rc_find", "job": jj, "model": a})
                continue
            _, resv, brv = a.split(":")
            if what == "mnewton_err":
                self.st("mnewton:errbound=" + resv)
                if resv != "ok":
                    self.fail("optimization.findroot:mnewton",
                              "mnewton (%s derivatives) returned x with |x-a| > 2^(4-p/m) (m=%d, dps %s)" % (j["deriv"], j["mult"][1], j.get("dps")),
                              {"job": jj, "x": rr["x"]})
                continue
            self.st("findroot[verify=%s]:residual=%s" % (j.get("verify"), resv))
            if j.get("verify"):
                if resv == "fail":
                    if not rr.get("wp_ok", True):
                        self.fail("optimization.findroot:verify", "returned with verify=True but |f(x)|^2 > tol exactly and at the working precision",
                                  {"job": jj, "x": rr["x"], "n2": rr.get("n2"), "tol": rr.get("tol")})
                    else:
                        self.st("findroot:exact_vs_working_precision_mismatch")
                        self.undecided += 1
                elif resv == "undecided":
                    self.undecided += 1
                # the model of the last test of findroot on the recomputed quantities
                if "n2" in rr and rr["n2"][0] == "R":
                    pass
            if j.get("bracket"):
                self.st("findroot[%s]:bracket=%s" % (j["fam"], brv))
                if brv != "ok" and j.get("verify"):
                    site = "optimization.findroot:bracket" if j["fam"] != "bracket_nosign" else "optimization.findroot:bracket-nosignchange"
                    self.fail(site, "%s returned a point outside its bracket" % j["solver"], {"job": jj, "x": rr["x"]})

    def run_findroot(self, n, n_mnewton):
        jobs = [gen_findroot(self.g, self.quick) for _ in range(n)]
        # non-monotone functions on sign-change brackets, every bracketing solver on each (5 jobs per bracket)
        for _ in range((n + 3) // 4):
            jobs += gen_bracket_nonmono(self.g2)
        for dps in ([15, 16, 17, 20, 30, 50] if self.quick else [15, 16, 17, 18, 20, 25, 30, 40, 50, 90]):
            for _ in range(n_mnewton):
                jobs.append(gen_mnewton(self.g, dps))
        # the test-suite case of the property text, at dps 15 and 16
        for dps in (15, 16):
            jobs.append({"kind": "findroot", "prec": {15: 53, 16: 56}[dps], "fam": "mnewton_clause", "solver": "mnewton",
                         "f": {"type": "poly", "coeffs": [[1, 0], [3, 0], [3, 0], [1, 0]], "form": "horner"}, "x0": [["-9/10", 0]],
                         "verify": True, "mult": ["-1", 3], "timeout": 30, "dps": dps, "deriv": "numeric"})
        for i, j in enumerate(jobs):
            j["id"] = i
        res = RO.run_jobs(jobs, self.patches)
        self.decide_findroot(jobs, res)

    # ---------------- multiplicity ----------------
    def run_multiplicity(self, n):
        jobs = [gen_multiplicity(self.g) for _ in range(n)]
        # scripted loop ties (T1 of multLoop)
        r = self.g.r
        t1 = []
        for _ in range(n):
            ms = r.choice([1, 2, 3, 5, 10, 10, 12])
            bits = "".join(r.choice("01" if r.random() < 0.3 else "1") for _ in range(r.randint(0, 12)))
            k = r.randint(0, len(bits))
            bits = "1" * k + bits[k:]
            t1.append({"kind": "multiplicity", "prec": 53, "f": {"type": "poly", "coeffs": [[1, 0], [0, 0]]}, "root": [1, 0],
                       "maxsteps": ms, "scripted": bits + "0" * max(0, ms - len(bits)), "timeout": 10})
        t1.append({"kind": "multiplicity", "prec": 53, "f": {"type": "poly", "coeffs": [[1, 0], [0, 0]]}, "root": [1, 0],
                   "maxsteps": 0, "scripted": "", "timeout": 10})
        alljobs = jobs + t1
        for i, j in enumerate(alljobs):
            j["id"] = i
        res = RO.run_jobs(alljobs, self.patches)
        lines, ctxs = [], []
        for j in jobs:
            rr = res[j["id"]]
            self.evaluations += 1
            self.programs.add("multiplicity")
            jj = {k: v for k, v in j.items() if k not in ("id",)}
            if rr["status"] != "ok":
                self.st("multiplicity:" + rr["status"] + ":" + rr.get("exc", ""))
                self.fail("optimization.multiplicity", "multiplicity raised / timed out on a polynomial root", {"job": jj, "result": rr})
                continue
            self.nontrivial(j)
            cs = RO.spec_univariate_coeffs(j["f"])
            a = Fraction(j["a"])
            lines.append("rc_multexact %s %d %s" % (RO.gq_tok(G(a)), len(cs), " ".join(RO.gq_tok(c) for c in cs)))
            ctxs.append((j, rr))
        for j in t1:
            rr = res[j["id"]]
            self.evaluations += 1
            self.programs.add("multiplicity.loop")
            lines.append("rc_mult %d %s" % (j["maxsteps"], j["scripted"] or "-"))
            ctxs.append((j, rr))
        ans = Driver().ask(lines)
        for a, (j, rr) in zip(ans, ctxs):
            jj = {k: v for k, v in j.items() if k not in ("id",)}
            if "scripted" in j:
                impl = "I:%d" % rr["m"] if rr["status"] == "ok" else ("E:ValueError" if rr.get("exc") in ("UnboundLocalError", "NameError") else "E:" + rr.get("exc", "?"))
                if impl != a:
                    self.dis.append({"name": "T1:rc_mult", "op": "rc_mult", "job": jj, "impl": impl, "model": a})
                continue
            m = int(a[2:])
            self.st("multiplicity:%s" % ("ok" if rr["m"] == m else "differs"))
            if m != j["m"]:
                self.dis.append({"name": "driver:rc_multexact", "op": "rc_multexact", "job": jj, "model": a})
            exact_root = raw_to_frac(tuple(rr["root_raw"][1])) == Fraction(j["a"])
            if rr["m"] != m and not exact_root:
                # the number handed to multiplicity is a rounded value, not a root of f: no claim
                self.st("multiplicity:rounded-root-wrong")
                self.undecided += 1
            elif rr["m"] != m:
                self.fail("optimization.multiplicity", "multiplicity returned %d for a root of exact multiplicity %d (prec %d)" % (rr["m"], m, j["prec"]),
                          {"job": jj, "returned": rr["m"]})

    # ---------------- decision-logic ties ----------------
    def run_logic(self, n):
        r = self.g.r
        jobs = []
        for cls in ("mnewton", "halley"):
            for a in (0, 1):
                for b in (0, 1):
                    jobs.append({"kind": "d2f", "cls": cls, "has_df": a, "has_d2f": b})
        for _ in range(n):
            vals = [Fraction(r.randint(-8, 8), r.choice([1, 2, 4, 8])) for _ in range(4)]
            if r.random() < 0.3:
                vals[1] = Fraction(0)
            if r.random() < 0.3:
                vals[2] = Fraction(0)
            if r.random() < 0.3 and vals[2] != 0:
                # make the denominator vanish: dfx^2 = fx * d2fx
                vals[1] = vals[2]
                vals[3] = vals[2]
            jobs.append({"kind": "mstep", "vals": [frac_tok(v) for v in vals]})
        for _ in range(n):
            prec = r.choice([30, 53, 100])
            tolexp = -prec - 9
            k = r.random()
            nb = r.randint(1, prec)
            man = self.g.man(nb) | 1
            # values around sqrt(tol)
            e = (tolexp // 2) - nb + r.choice([-2, -1, 0, 0, 1, 2])
            if k < 0.1:
                v = (0, 1, tolexp // 2 if tolexp % 2 == 0 else (tolexp - 1) // 2, 1)
            else:
                from mpmath.libmp import from_man_exp
                v = from_man_exp(man if r.random() < 0.5 else -man, e)
            jobs.append({"kind": "verify_t1", "prec": prec, "v": list(v), "verify": r.random() < 0.8})
        for i, j in enumerate(jobs):
            j["id"] = i
        res = RO.run_jobs(jobs, self.patches)
        lines, ctxs = [], []
        for j in jobs:
            rr = res[j["id"]]
            self.evaluations += 1
            if rr["status"] != "ok":
                self.dis.append({"name": "logic-job-failed", "op": j["kind"], "job": j, "impl": rr})
                continue
            if j["kind"] == "d2f":
                self.programs.add(j["cls"] + ".__init__")
                lines.append("%s %d %d" % ("rc_d2f_fixed" if self.fixed("d2f") else "rc_d2f", j["has_df"], j["has_d2f"]))
                ctxs.append((j, rr["src"]))
                if j["has_d2f"] and rr["src"] != "S:userD2f":
                    self.fail("optimization.%s:d2f" % {"mnewton": "MNewton", "halley": "Halley"}[j["cls"]],
                              "user-supplied d2f is not used as second derivative (%s)" % rr["src"], {"job": j})
            elif j["kind"] == "mstep":
                self.programs.add("MNewton.__iter__")
                lines.append(("rc_mstep_fixed " if self.fixed("mstep") else "rc_mstep ") + " ".join(j["vals"]))
                ctxs.append((j, rr["outcome"]))
            else:
                self.programs.add("findroot.verify")
                lines.append("rc_verify %d %s %s" % (1 if j["verify"] else 0, enc_mpf(tuple(rr["n2"][1])), enc_mpf(tuple(rr["tol"][1]))))
                ctxs.append((j, rr["outcome"]))
        ans = Driver().ask(lines)
        for a, (j, impl) in zip(ans, ctxs):
            if a != impl:
                self.dis.append({"name": "T1:rc_" + j["kind"], "op": j["kind"], "job": j, "impl": impl, "model": a})

    def merged_hist(self):
        h = {}
        for src in (self.g.hist, self.g2.hist):
            for k, d in src.items():
                t = h.setdefault(k, {})
                for a, b in d.items():
                    t[a] = t.get(a, 0) + b
        return h

    def result(self):
        cov = {
            "evaluations": self.evaluations,
            "distinct_nontrivial": len(self.distinct),
            "rule": "seeded structured generation: polyroots on degree 0..20 polynomials (integer / rational / Gaussian coefficients; "
                    "distinct, clustered, repeated roots; conjugate pairs sharing |Im|; conjugate pairs sharing Re (several pairs "
                    "on one vertical line, mixed with real roots); leading/trailing zeros; huge/small scales; "
                    "maxsteps/extraprec/cleanup/error variants; prec 30..300), findroot with every solver name on polynomial/rational "
                    "functions and 2-3 dimensional systems (verify on/off, brackets with and without sign change, far and exact starts; "
                    "all five bracketing solvers on sign-change brackets holding 1/3/5 roots of a non-monotone cubic..quintic or "
                    "rational function with further roots outside), "
                    "mnewton on (x-a)^m q(x) at dps 15..50(90) with numeric/analytic derivatives, multiplicity on (x-a)^m q(x). "
                    "Non-trivial = the call returned a value (degree >= 1 for polyroots) that was decided by the driver",
            "samples": self.samples[:8],
            "programs": len(self.programs),
            "program_list": sorted(self.programs),
            "disagreements_checked": self.evaluations,
            "undecided": self.undecided,
            "outcome_histogram": dict(sorted(self.stats.items())),
            "input_distribution": {k: {str(a): b for a, b in v.items()} for k, v in self.merged_hist().items()},
            "patches": list(self.patches),
        }
        return {"coverage": cov, "failing_inputs": self.failing, "disagreements": self.dis}


D13_JOB = {"kind": "polyroots", "prec": 53, "coeffs": [[1, 0], [-4, 0], [5, 0], [0, 0], [4, 0], [-16, 0], [20, 0]], "kw": {},
           "tag": "D13", "real_coeffs": True, "noerr": True, "capture": True, "timeout": 20}


def run_all(seed, quick, patches=(), scale=1.0):
    c = Check(seed, quick, patches)
    if quick:
        n_poly, n_find, n_mn, n_mult, n_logic = 420, 500, 8, 60, 120
    else:
        n_poly, n_find, n_mn, n_mult, n_logic = 6000, 8000, 60, 800, 2000
    n_poly, n_find, n_mult, n_logic = [max(1, int(x * scale)) for x in (n_poly, n_find, n_mult, n_logic)]
    n_mn = max(1, int(n_mn * scale))
    c.run_polyroots(n_poly, extra_jobs=[dict(D13_JOB)])
    c.run_findroot(n_find, n_mn)
    c.run_multiplicity(n_mult)
    c.run_logic(n_logic)
    return c.result()


def run(ctx):
    if ctx.replay:
        rp = json.load(open(ctx.replay))
        fi = (rp.get("failing_input") or {}).get("input") or {}
        job = fi.get("job")
        if job:
            c = Check(ctx.seed, True)
            if job["kind"] == "polyroots":
                c.run_polyroots(0, extra_jobs=[dict(job)])
            elif job["kind"] == "findroot":
                j = dict(job)
                j["id"] = 0
                c.decide_findroot([j], RO.run_jobs([j]))
            res = c.result()
            if res["failing_inputs"] or res["disagreements"]:
                return res
    return run_all(ctx.seed, ctx.quick)


def main(argv):
    import argparse
    ap = argparse.ArgumentParser()
    ap.add_argument("--seed", type=int, default=0)
    ap.add_argument("--scale", type=float, default=1.0)
    ap.add_argument("--thorough", action="store_true")
    ap.add_argument("--patch", action="append", default=[])
    ap.add_argument("--verbose", action="store_true")
    a = ap.parse_args(argv)
    import_repo()
    res = run_all(a.seed, not a.thorough, a.patch, a.scale)
    by = {}
    for f in res["failing_inputs"]:
        by[f["site"]] = by.get(f["site"], 0) + 1
    dn = {}
    for d in res["disagreements"]:
        dn[d["name"]] = dn.get(d["name"], 0) + 1
    cov = res["coverage"]
    print("seed %d patches %s: evaluations %d, distinct non-trivial %d, programs %d, undecided %d" %
          (a.seed, a.patch, cov["evaluations"], cov["distinct_nontrivial"], cov["programs"], cov["undecided"]))
    print("model/implementation disagreements: %d %s" % (len(res["disagreements"]), dn))
    print("failing inputs by site: %s" % json.dumps(by, sort_keys=True))
    if a.verbose:
        print(json.dumps(cov["outcome_histogram"], indent=1))
        seen = set()
        for f in res["failing_inputs"]:
            if f["site"] not in seen:
                seen.add(f["site"])
                print("e.g.", f["site"], "|", f["what"], "|", json.dumps(f["input"])[:500])
        for d in res["disagreements"][:3]:
            print("DIS", json.dumps(d)[:600])


if __name__ == "__main__":
    main(sys.argv[1:])
