"""C03 — integer powers are never rounded past the exact value.

Lean: Props/C03.lean (C03_pow_int: side / faithful / exact for every base, exponent, precision, mode; small exact
powers correctly rounded; 0**negative raises; specials).  Tie: bit-exact correspondence of libmpf.mpf_pow_int with the
model (op `pow_int`), plus the public routes to it (mpf ** int, mpf ** integer-valued mpf, mp.power, libmp.mpf_pow,
mpc ** int on the real axis) compared with the model, plus the exact rational decision of the property on every output."""
import random
from fractions import Fraction
from props import _core
from common import Driver, Gen, enc_mpf, enc_result, enc_exc
import specdec
import core_ops


class _Cplx(tuple):
    def __new__(cls, re, im):
        return tuple.__new__(cls, (re, im))

LEVEL = "proof"
LEAN_MODULES = ["Props.C03"]
ASSUMPTIONS = ["theorems are about the Lean model of mpf_pow_int (MpModel/Core.lean: exact small case, directed binary exponentiation with "
               "table-driven bit counts, reciprocal mode swap at prec+5); the model is tied to libmpf.mpf_pow_int by the bit-exact "
               "correspondence run of this check",
               "the public routes (operators, mp.power, mpf_pow with integer-valued exponent, mpc_pow_int on the real axis) are tied to "
               "the model by a seeded comparison through the driver, not by a theorem about the glue code",
               "precision 0 (exact mode) is outside the statement: the loop truncates to prec+4*bitcount(n)+4 bits whatever prec is"]


def _api(ctx, n):
    import mpmath
    from mpmath import mp, libmp
    L = libmp
    g = Gen(ctx.seed * 7919 + 31)
    r = g.r
    lines, impl, kinds = [], [], []
    per = {}
    saved = (mp.prec, mp._prec_rounding[1], mp.trap_complex)
    try:
        for i in range(n):
            prec = g.prec()
            if prec == 0:
                prec = r.choice([1, 2, 53])
            rnd = g.rnd()
            k = r.random()
            if k < 0.04:
                x = g.special()
            elif k < 0.5:
                x = g.finite(prec, big_exp=False)
            else:
                nb = r.choice([1, 2, 3, 5, 10, 20, 33, 53, 100, 250])
                x = L.from_man_exp(g.man(nb, None) * r.choice([1, -1]), r.randint(-60, 60))
            e = r.choice([0, 1, 2, 3, -1, -2, -3, 4, 5, 7, 10, 16, 17, 31, 64, 100, 255, 1000, -7, -100,
                          r.randint(-2000, 2000), r.randint(3, 40)])
            bc = x[3]
            if bc > 0 and r.random() < 0.3:
                e = max(3, 1000 // bc + r.choice([-1, 0, 1])) * r.choice([1, 1, -1])
            kind = r.choice(["mpf**int", "mpf**mpf", "power", "mpf_pow", "mpc**int", "fpow"])
            mp.prec = prec
            mp._prec_rounding[1] = rnd
            X = mp.make_mpf(x)
            def thunk(kind=kind, X=X, x=x, e=e, prec=prec, rnd=rnd):
                if kind == "mpf**int":
                    v = X ** e
                elif kind == "mpf**mpf":
                    v = X ** mp.make_mpf(L.from_int(e))
                elif kind == "power":
                    v = mp.power(X, e)
                elif kind == "mpf_pow":
                    v = L.mpf_pow(x, L.from_int(e), prec, rnd)
                elif kind == "mpc**int":
                    v = mp.make_mpc((x, L.fzero)) ** e
                else:
                    v = mp.fpow(X, e) if hasattr(mp, "fpow") else X ** e
                if hasattr(v, "_mpf_"):
                    return v._mpf_
                if hasattr(v, "_mpc_"):
                    re, im = v._mpc_
                    return re if im == L.fzero else _Cplx(re, im)
                return v
            out = core_ops.call(thunk)
            lines.append("pow_int %s %d %d %s" % (enc_mpf(x), e, prec, rnd))
            impl.append(out)
            kinds.append(kind)
            per[kind] = per.get(kind, 0) + 1
    finally:
        mp.prec = saved[0]
        mp._prec_rounding[1] = saved[1]
    model = Driver().ask(lines)
    failing, dis = [], []
    decided = {"ok": 0, "violates": 0, "nospec": 0}
    for line, i, m, kind in zip(lines, impl, model, kinds):
        st, what = specdec.decide(line, i) if not i.startswith("P:") else ("nospec", None)
        decided[st] += 1
        if st == "violates":
            failing.append({"site": "api." + kind, "what": "%s: %s" % (kind, what), "input": {"line": line, "impl": i, "model": m, "kind": kind}})
        elif i != m:
            dis.append({"name": "T1:api." + kind, "op": "pow_int", "line": line, "impl": i, "model": m, "spec": st})
    return {"cases": len(lines), "per_kind": per, "decided": decided}, failing, dis


def run(ctx):
    res = _core.run_core(ctx, ["pow_int"], 40000, 1500000, monitors=("spec", "canonical", "bits"))
    cov, failing, dis = _api(ctx, 6000 if ctx.quick else 200000)
    res["coverage"]["api_pow"] = cov
    res["coverage"]["evaluations"] += cov["cases"]
    res["coverage"]["traces_validated_against_impl"] += cov["cases"]
    res["failing_inputs"] += failing
    res["disagreements"] += dis
    return res
