"""Containment of the TRANSCENDENTAL interval functions (properties C14 real, C15 complex).

    run_ivfun(ctx, pid) -> {"coverage": ..., "failing_inputs": [...], "disagreements": []}

What is decided, and how
 * The real code is called (context level `iv.<fun>` AND the raw `libmp.libmpi.mpi_*` / `mpci_*` routine) on structured
   intervals / rectangles; the returned endpoints are read from the `_mpi_` / `_mpci_` tuples as exact dyadics.
 * For sample points t of the input (both endpoints, midpoint, random interior dyadics, deep points of half-infinite
   inputs) the compiled VERIFIED evaluator (`mpdrv`, ops `encl`, `encl2 pow`; soundness: Props/C14fun.lean =
   MpProofs/EnclSound.lean, Encl2Sound.lean) returns a dyadic enclosure [l, u] of f(t) at working precision prec+40
   (retry prec+200, then 2*prec+1000).  With the returned interval [L, U]:
        u < L or U < l        -> the exact value is OUTSIDE: failing input  (site iv.<fun>.contain)
        L <= l and u <= U     -> inside
        otherwise             -> undecided (counted; never a pass, never a failure)
   All comparisons are exact integer arithmetic on (mantissa, exponent) pairs; no floating point, no mp.
 * sin/cos/sec/csc: if the verified pi enclosure proves that the input contains a point k*pi/2 where the function is +-1,
   then +-1 must be in the result; tan/cot/sec/csc: a pole proved to be inside forces [-inf, +inf].
 * infinite input endpoints: the limit (exp: 0 / +inf, log: -inf / +inf, sqrt: +inf, atan: +-pi/2, sin/cos: [-1, 1]) must
   be covered.
 * atan2: verified atan enclosures of a dyadic bracket of |y/x| + quadrant logic + verified pi (combination in Python).
 * x ** y (non-integer y): `encl2 pow`.
 * gamma / rgamma / loggamma / factorial: NO verified evaluator exists.  Only exactly known points are used: integers
   (Gamma(n) = (n-1)!) and half-integers (rational multiple of sqrt(pi), bracketed through the verified pi and sqrt
   enclosures); poles inside the input force an unbounded result.  This is a NECESSARY condition only.
 * C15 (iv.mpc exp/log/cos/sin/abs, plus mul/div): for sample points z = x+iy of the rectangle the enclosure of the exact
   real and imaginary parts is built from the verified REAL enclosures with exact dyadic/rational interval arithmetic in
   Python (e^x cos y, e^x sin y; cos x cosh y, -sin x sinh y; sin x cosh y, cos x sinh y; (1/2) log(x^2+y^2), atan2(y,x);
   sqrt(x^2+y^2)).  That combination step is NOT verified.
 * mpmath's `mp` context is used ONLY TO STEER the generators (choose arguments whose function value has a run of
   0000000000 / 1111111111 right below the interval precision, build dyadics near k*pi/2); never in a decision.

usage:  iv_fun_ops.py [C14|C15] [seed] [quick|thorough]
"""
import os, sys, time, signal, random, math
from fractions import Fraction
from concurrent.futures import ThreadPoolExecutor
sys.path.insert(0, os.path.dirname(os.path.abspath(__file__)))
from common import Driver, import_repo, InfraError, enc_mpf, dec_mpf, load_known_findings
import findings as findings_mod
import iv_fun_findings  # noqa  (registers the known-finding predicates)

mpmath = import_repo()
if hasattr(sys, 'set_int_max_str_digits'):
    sys.set_int_max_str_digits(0)
from mpmath import mp, iv
from mpmath.libmp import from_man_exp, fzero, finf, fninf, fnan
import mpmath.libmp.libmpi as LI

NPROC = 3                 # concurrent mpdrv processes
PSTEER = 240              # mp precision of the steering evaluations
MAINP = (24, 53, 64, 113)
PINF, NINF, NAN = "+inf", "-inf", "nan"
ZERO, ONE, MONE = (0, 0), (1, 0), (-1, 0)


# ======================================================================================================
# exact arithmetic on extended dyadics (m, e) = m*2^e ; Fractions are accepted in comparisons
# ======================================================================================================

def x_of_mpf(t):
    s, m, e, bc = t
    if m:
        return (-int(m) if s else int(m), int(e))
    if e == 0:
        return ZERO
    if t == finf:
        return PINF
    if t == fninf:
        return NINF
    return NAN


def mpf_of_x(a):
    if a == PINF:
        return finf
    if a == NINF:
        return fninf
    return from_man_exp(a[0], a[1])


def fin(a):
    return isinstance(a, tuple)


def dsign(a):
    m = a[0]
    return (m > 0) - (m < 0)


def to_q(a):
    if isinstance(a, Fraction):
        return a
    m, e = a
    return Fraction(m << e) if e >= 0 else Fraction(m, 1 << -e)


def dcmp(a, b):
    if isinstance(a, Fraction) or isinstance(b, Fraction):
        a, b = to_q(a), to_q(b)
        return (a > b) - (a < b)
    m1, e1 = a
    m2, e2 = b
    s1 = (m1 > 0) - (m1 < 0)
    s2 = (m2 > 0) - (m2 < 0)
    if s1 != s2:
        return 1 if s1 > s2 else -1
    if s1 == 0:
        return 0
    g1 = abs(m1).bit_length() + e1
    g2 = abs(m2).bit_length() + e2
    if g1 != g2:
        return s1 if g1 > g2 else -s1
    if e1 >= e2:
        x, y = m1 << (e1 - e2), m2
    else:
        x, y = m1, m2 << (e2 - e1)
    return (x > y) - (x < y)


def xcmp(a, b):
    """compare extended values (no NAN)"""
    if a == b:
        return 0
    if a == NINF or b == PINF:
        return -1
    if a == PINF or b == NINF:
        return 1
    return dcmp(a, b)


def dneg(a):
    return (-a[0], a[1])


def dadd(a, b):
    m1, e1 = a
    m2, e2 = b
    if not m1:
        return b
    if not m2:
        return a
    e = min(e1, e2)
    return ((m1 << (e1 - e)) + (m2 << (e2 - e)), e)


def dsub(a, b):
    return dadd(a, dneg(b))


def dmul(a, b):
    return (a[0] * b[0], a[1] + b[1]) if (a[0] and b[0]) else ZERO


def dshift(a, k):
    return (a[0], a[1] + k) if a[0] else ZERO


def dmag(a):
    """exponent g with 2^(g-1) <= |a| < 2^g (a != 0)"""
    return abs(a[0]).bit_length() + a[1]


def dmin(xs):
    r = xs[0]
    for x in xs[1:]:
        if dcmp(x, r) < 0:
            r = x
    return r


def dmax(xs):
    r = xs[0]
    for x in xs[1:]:
        if dcmp(x, r) > 0:
            r = x
    return r


def imul(A, B):
    ps = [dmul(A[0], B[0]), dmul(A[0], B[1]), dmul(A[1], B[0]), dmul(A[1], B[1])]
    return (dmin(ps), dmax(ps))


def iadd(A, B):
    return (dadd(A[0], B[0]), dadd(A[1], B[1]))


def isub(A, B):
    return (dsub(A[0], B[1]), dsub(A[1], B[0]))


def ineg(A):
    return (dneg(A[1]), dneg(A[0]))


def dtrunc(a, nbits):
    """drop low bits (toward zero) so that at most nbits significant bits remain"""
    m, e = a
    k = abs(m).bit_length() - nbits
    if k <= 0:
        return a
    s = -1 if m < 0 else 1
    return (s * (abs(m) >> k), e + k)


def dround_out(a, nbits, up):
    """dyadic with <= nbits bits that is >= a (up) or <= a (not up); a may be a Fraction"""
    q = to_q(a)
    if q == 0:
        return ZERO
    n, d = abs(q.numerator), q.denominator
    k = nbits + d.bit_length() - n.bit_length() + 1
    num, den = (n << k, d) if k >= 0 else (n, d << -k)
    fl, rem = divmod(num, den)
    neg = q < 0
    if rem and (up != neg):
        fl += 1
    return (-fl if neg else fl, -k)


def xstr(a):
    if not fin(a):
        return a
    if isinstance(a, Fraction):
        return "%d/%d" % (a.numerator, a.denominator)
    return "%d*2^%d" % a


def parse_P(ans):
    """'P:lo_m,lo_e,hi_m,hi_e' -> ((lo_m, lo_e), (hi_m, hi_e)); 'N:' -> None"""
    if not ans.startswith("P:"):
        return None
    a, b, c, d = ans[2:].split(",")
    return ((int(a), int(b)), (int(c), int(d)))


# ======================================================================================================
# driver access: batched, a few processes in parallel, answers cached per request line
# ======================================================================================================
_CACHE = {}
DRV_STATS = {"requests": 0, "driver_lines": 0, "driver_s": 0.0}


def ask_many(lines):
    todo = [l for l in dict.fromkeys(lines) if l not in _CACHE]
    DRV_STATS["requests"] += len(lines)
    if todo:
        t0 = time.time()
        DRV_STATS["driver_lines"] += len(todo)
        n = NPROC if len(todo) >= 60 else 1
        # interleave so that expensive neighbours are spread over the processes
        chunks = [todo[i::n] for i in range(n)]
        if n == 1:
            outs = [Driver().ask(chunks[0])]
        else:
            with ThreadPoolExecutor(n) as ex:
                outs = list(ex.map(lambda c: Driver().ask(c), chunks))
        for c, o in zip(chunks, outs):
            for l, a in zip(c, o):
                _CACHE[l] = a
        DRV_STATS["driver_s"] += time.time() - t0
    return [_CACHE[l] for l in lines]


_PI = {}


def PI(wp):
    """verified enclosure of pi, at least wp bits (cached per 256-bit step)"""
    k = (max(wp, 64) + 255) // 256 * 256 + 64
    if k not in _PI:
        _PI[k] = parse_P(ask_many(["encl pi %d 0 0" % k])[0])
    return _PI[k]


_SQRTPI = {}


def SQRTPI(wp):
    """[sqrt_lo(pi_lo), sqrt_hi(pi_hi)]: sqrt is increasing, both sqrt enclosures verified"""
    k = (max(wp, 64) + 255) // 256 * 256 + 64
    if k not in _SQRTPI:
        pl, ph = PI(k)
        a, b = ask_many(["encl sqrt %d %d %d" % (k, pl[0], pl[1]), "encl sqrt %d %d %d" % (k, ph[0], ph[1])])
        _SQRTPI[k] = (parse_P(a)[0], parse_P(b)[1])
    return _SQRTPI[k]


def run_refs(jobs):
    """jobs: list of generator objects (reference coroutines yielding lists of driver lines).
    Returns the list of their return values."""
    res = [None] * len(jobs)
    pend = {}
    for i, g in enumerate(jobs):
        try:
            pend[i] = (g, next(g))
        except StopIteration as s:
            res[i] = s.value
    while pend:
        lines = []
        for i, (g, req) in pend.items():
            lines.extend(req)
        ans = ask_many(lines)
        k = 0
        nxt = {}
        for i, (g, req) in pend.items():
            a = ans[k:k + len(req)]
            k += len(req)
            try:
                nxt[i] = (g, g.send(a))
            except StopIteration as s:
                res[i] = s.value
        pend = nxt
    return res


# ======================================================================================================
# guarded calls into the real code
# ======================================================================================================
class _Timeout(Exception):
    pass


def _alarm(signum, frame):
    raise _Timeout()


def guarded(thunk, seconds=8.0):
    signal.setitimer(signal.ITIMER_REAL, seconds)
    try:
        return ("ok", thunk())
    except _Timeout:
        return ("timeout", None)
    except Exception as e:  # noqa
        return ("exc", type(e).__name__)
    finally:
        signal.setitimer(signal.ITIMER_REAL, 0)


def _ivm(pair):
    return iv.make_mpf(pair)


def _ivc(rect):
    return iv.make_mpc(rect)


def _real_res(r):
    if hasattr(r, "_mpi_"):
        return r._mpi_
    return ("complex", getattr(r, "_mpci_", None))


def _cplx_res(r):
    if hasattr(r, "_mpci_"):
        return r._mpci_
    if hasattr(r, "_mpi_"):
        return (r._mpi_, (fzero, fzero))
    return None


# name -> list of (variant label, callable(args, prec) -> raw result)
def _variants():
    V = {}
    for f in ("exp", "log", "sqrt", "sin", "cos", "tan", "gamma", "rgamma", "loggamma", "factorial"):
        raw = {"log": "mpi_log"}.get(f, "mpi_" + f)
        V[f] = [("iv." + f, (lambda a, p, f=f: _real_res(getattr(iv, f)(_ivm(a[0]))))),
                ("libmpi." + raw, (lambda a, p, raw=raw: getattr(LI, raw)(a[0], p)))]
    V["cot"] = [("iv.cot", lambda a, p: _real_res(iv.cot(_ivm(a[0])))), ("libmpi.mpi_cot", lambda a, p: LI.mpi_cot(a[0], p))]
    V["sec"] = [("iv.sec", lambda a, p: _real_res(iv.sec(_ivm(a[0]))))]
    V["csc"] = [("iv.csc", lambda a, p: _real_res(iv.csc(_ivm(a[0]))))]
    V["atan"] = [("libmpi.mpi_atan", lambda a, p: LI.mpi_atan(a[0], p))]
    V["atan2"] = [("iv.atan2", lambda a, p: _real_res(iv.atan2(_ivm(a[0]), _ivm(a[1])))),
                  ("libmpi.mpi_atan2", lambda a, p: LI.mpi_atan2(a[0], a[1], p))]
    V["pow"] = [("iv.mpf.__pow__", lambda a, p: _real_res(_ivm(a[0]) ** _ivm(a[1]))),
                ("libmpi.mpi_pow", lambda a, p: LI.mpi_pow(a[0], a[1], p))]
    # complex: args = [rect] or [rect, rect], rect = ((a, b), (c, d))
    for f in ("exp", "log", "cos", "sin"):
        V["c" + f] = [("iv." + f + "[mpc]", (lambda a, p, f=f: _cplx_res(getattr(iv, f)(_ivc(a[0]))))),
                      ("libmpi.mpci_" + f, (lambda a, p, f=f: getattr(LI, "mpci_" + f)(a[0], p)))]
    V["cabs"] = [("iv.mpc.__abs__", lambda a, p: _real_res(abs(_ivc(a[0])))),
                 ("libmpi.mpci_abs", lambda a, p: LI.mpci_abs(a[0], p))]
    V["carg"] = [("iv.arg[mpc]", lambda a, p: _real_res(iv.arg(_ivc(a[0])))),
                 ("libmpi.mpci_arg", lambda a, p: LI.mpci_arg(a[0], p))]
    V["cmul"] = [("iv.mpc.__mul__", lambda a, p: _cplx_res(_ivc(a[0]) * _ivc(a[1]))),
                 ("libmpi.mpci_mul", lambda a, p: LI.mpci_mul(a[0], a[1], p))]
    V["cdiv"] = [("iv.mpc.__div__", lambda a, p: _cplx_res(_ivc(a[0]) / _ivc(a[1]))),
                 ("libmpi.mpci_div", lambda a, p: LI.mpci_div(a[0], a[1], p))]
    return V


VARIANTS = _variants()
# extension hooks (filled by iv_cgamma_ops.py): per function  gen(r, f, n, st) -> cases,  points(r, case) -> sample points,
# req(case, box) -> [(status, what)];  per enclosure tag  (decide(box, enc), excess(box, enc, prec), show(enc))
EXT_GEN, EXT_POINTS, EXT_REQ, EXT_DECIDE = {}, {}, {}, {}


def enc_tag(enc):
    """tag of a tagged enclosure ('mod2', (lo, hi)) / ('re', (lo, hi)), None for ordinary enclosures"""
    return enc[0] if (isinstance(enc, tuple) and enc and isinstance(enc[0], str)) else None
C14_FUNS = ["exp", "log", "sqrt", "sin", "cos", "tan", "cot", "sec", "csc", "atan", "atan2", "pow",
            "gamma", "rgamma", "loggamma", "factorial"]
C15_FUNS = ["cexp", "clog", "ccos", "csin", "cabs", "carg", "cmul", "cdiv"]
COMPLEX_VALUED = ("cexp", "clog", "ccos", "csin", "cmul", "cdiv")
GAMMAS = ("gamma", "rgamma", "loggamma", "factorial")
TRIG = ("sin", "cos", "tan", "cot", "sec", "csc")


def site(fun, what="contain"):
    if fun in C15_FUNS:
        return "%s.%s" % ({"cabs": "iv.mpc.abs", "carg": "iv.mpc.arg", "cmul": "iv.mpc.mul", "cdiv": "iv.mpc.div"}.get(fun, "iv.mpc." + fun[1:]), what)
    return "iv.%s.%s" % (fun, what)


# ======================================================================================================
# reference coroutines: (point, wp) -> enclosure (lo, hi) | "undef" | None (no reference available)
# ======================================================================================================

def _isqrt_exact(t):
    m, e = t
    if m < 0:
        return None
    if m == 0:
        return ZERO
    if e & 1:
        m, e = m << 1, e - 1
    r = math.isqrt(m)
    return (r, e // 2) if r * r == m else None


def exact1(name, t):
    """exactly known values / points outside the domain (trivial facts, decided in Python)"""
    s = dsign(t)
    if name == "exp":
        return (ONE, ONE) if s == 0 else None
    if name == "log":
        if s <= 0:
            return "undef"
        return (ZERO, ZERO) if dcmp(t, ONE) == 0 else None
    if name == "sqrt":
        if s < 0:
            return "undef"
        r = _isqrt_exact(t)
        return (r, r) if r is not None else None
    if name in ("sin", "tan", "atan", "sinh"):
        return (ZERO, ZERO) if s == 0 else None
    if name in ("cos", "sec", "cosh"):
        return (ONE, ONE) if s == 0 else None
    if name in ("cot", "csc"):
        return "undef" if s == 0 else None
    return None


EXPLIKE = ("exp", "sinh", "cosh")


def encl1(name, t, wp):
    """coroutine: verified enclosure of name(t)"""
    ex = exact1(name, t)
    if ex is not None:
        return ex
    if name in EXPLIKE and dmag(t) > 24:
        return None
    ans = yield ["encl %s %d %d %d" % (name, wp, t[0], t[1])]
    return parse_P(ans[0])


def ref1(name):
    def ref(pt, wp):
        r = yield from encl1(name, pt[0], wp)
        return r
    return ref


def quot_bracket(n, d, bits):
    """n, d > 0 dyadics: dyadics ql <= n/d <= qh with about `bits` bits (equal when the quotient is dyadic)"""
    m1, e1 = n
    m2, e2 = d
    k = bits + m2.bit_length() - m1.bit_length() + 1
    if k >= 0:
        q, r = divmod(m1 << k, m2)
    else:
        q, r = divmod(m1, m2 << -k)
    ql = (q, e1 - e2 - k)
    qh = ql if r == 0 else (q + 1, e1 - e2 - k)
    return ql, qh


def atan2_encl(y, x, wp):
    """coroutine: enclosure of atan2(y, x) with mpmath's conventions atan2(0, x>=0) = 0, atan2(0, x<0) = pi"""
    sy, sx = dsign(y), dsign(x)
    if sy == 0 and sx == 0:
        return "undef"           # the origin is outside the domain of atan2 / arg
    if sy == 0:
        if sx > 0:
            return (ZERO, ZERO)
        return PI(wp)
    if sx == 0:
        pl, ph = PI(wp)
        h = (dshift(pl, -1), dshift(ph, -1))
        return h if sy > 0 else ineg(h)
    ay = (abs(y[0]), y[1])
    ax = (abs(x[0]), x[1])
    ql, qh = quot_bracket(ay, ax, wp + 8)
    if abs(dmag(ql)) > 10 ** 6:
        return None
    if ql == qh:
        A = yield from encl1("atan", ql, wp)
    else:
        ans = yield ["encl atan %d %d %d" % (wp, ql[0], ql[1]), "encl atan %d %d %d" % (wp, qh[0], qh[1])]
        a, b = parse_P(ans[0]), parse_P(ans[1])
        if a is None or b is None:
            return None
        A = (a[0], b[1])         # atan increasing
    if A is None or A == "undef":
        return None
    if sx < 0:
        A = isub(PI(wp), A)
    if sy < 0:
        A = ineg(A)
    return A


def ref_atan2(pt, wp):
    r = yield from atan2_encl(pt[0], pt[1], wp)
    return r


def _int_of(y):
    """the integer n if the dyadic y is an integer, else None"""
    m, e = y
    if m == 0:
        return 0
    if e >= 0:
        return m << e if e < 64 else None
    if m & ((1 << -e) - 1):
        return None
    return m >> -e


def ref_pow(pt, wp):
    x, y = pt
    sx = dsign(x)
    if sx < 0:
        return "undef"
    if sx == 0:
        return (ZERO, ZERO) if dsign(y) > 0 else "undef"
    if dcmp(x, ONE) == 0 or dsign(y) == 0:
        return (ONE, ONE)
    n = _int_of(y)
    if n is not None and 0 < n <= 32 and abs(x[0]).bit_length() * n < 20000:
        v = (x[0] ** n, x[1] * n)
        return (v, v)
    if n is not None and n < 0 and x[0] == 1 and -n < 2 ** 30:
        v = (1, x[1] * n)
        return (v, v)
    n2 = _int_of(dshift(y, 1))
    if n2 is not None and (n2 & 1) and abs(n2) <= 64:
        r = _isqrt_exact(x)                 # x = r^2, y = n2/2: x^y = r^n2 exactly
        if r is not None and n2 > 0 and abs(r[0]).bit_length() * n2 < 20000:
            v = (r[0] ** n2, r[1] * n2)
            return (v, v)
        if r is not None and n2 < 0 and r[0] == 1:
            v = (1, r[1] * n2)
            return (v, v)
    ans = yield ["encl2 pow %d %d %d %d %d" % (wp, x[0], x[1], y[0], y[1])]
    return parse_P(ans[0])


_FACT = [1]


def fact(n):
    while len(_FACT) <= n:
        _FACT.append(_FACT[-1] * len(_FACT))
    return _FACT[n]


def gamma_point_kind(t):
    """('int', n) / ('half', k) for t = n or k + 1/2, else None"""
    m, e = t
    if m == 0:
        return ("int", 0)
    if e >= 0:
        return ("int", m << e) if e < 40 else None
    if e == -1 and (m & 1):
        return ("half", (m - 1) // 2)
    n = _int_of(t)
    return ("int", n) if n is not None else None


def half_coeff(k):
    """Gamma(k + 1/2) = c * sqrt(pi), c rational"""
    if k >= 0:
        return Fraction(fact(2 * k), (4 ** k) * fact(k))
    n = -k
    return Fraction(((-4) ** n) * fact(n), fact(2 * n))


def ref_gamma(kind):
    def ref(pt, wp):
        t = pt[0]
        if kind == "factorial":
            t = dadd(t, ONE)
        gk = gamma_point_kind(t)
        if gk is None:
            return None
        typ, n = gk
        if abs(n) > 3000:
            return None
        if typ == "int":
            if n <= 0:
                if kind == "rgamma":
                    return (ZERO, ZERO)
                return "undef"            # pole (handled by the pole requirement)
            F = fact(n - 1)
            if kind in ("gamma", "factorial"):
                return ((F, 0), (F, 0))
            if kind == "rgamma":
                q = Fraction(1, F)
                return (q, q)
            r = yield from encl1("log", (F, 0), wp)
            return r
        c = half_coeff(n)
        sl, sh = SQRTPI(wp + 16)
        v = (c * to_q(sl), c * to_q(sh))
        if c < 0:
            v = (v[1], v[0])
        if kind in ("gamma", "factorial"):
            return v
        if kind == "rgamma":
            return (1 / v[1], 1 / v[0])
        if c < 0:
            return "undef"               # loggamma of a negative value is complex
        lo = dround_out(v[0], wp + 16, False)
        hi = dround_out(v[1], wp + 16, True)
        ans = yield ["encl log %d %d %d" % (wp, lo[0], lo[1]), "encl log %d %d %d" % (wp, hi[0], hi[1])]
        a, b = parse_P(ans[0]), parse_P(ans[1])
        if a is None or b is None:
            return None
        return (a[0], b[1])              # log increasing
    return ref


# ---- complex references: enclosure = (RE, IM) with RE, IM = (lo, hi) ------------------------------------

def ref_cexp(pt, wp):
    x, y = pt
    E = yield from encl1("exp", x, wp)
    C = yield from encl1("cos", y, wp)
    S = yield from encl1("sin", y, wp)
    if E is None or C is None or S is None:
        return None
    return (imul(E, C), imul(E, S))


def _trigh(x, y, wp):
    c = yield from encl1("cos", x, wp)
    s = yield from encl1("sin", x, wp)
    ch = yield from encl1("cosh", y, wp)
    sh = yield from encl1("sinh", y, wp)
    if None in (c, s, ch, sh):
        return None
    return c, s, ch, sh


def ref_ccos(pt, wp):
    r = yield from _trigh(pt[0], pt[1], wp)
    if r is None:
        return None
    c, s, ch, sh = r
    return (imul(c, ch), ineg(imul(s, sh)))


def ref_csin(pt, wp):
    r = yield from _trigh(pt[0], pt[1], wp)
    if r is None:
        return None
    c, s, ch, sh = r
    return (imul(s, ch), imul(c, sh))


def _norm2(x, y):
    return dadd(dmul(x, x), dmul(y, y))


def ref_clog(pt, wp):
    x, y = pt
    n2 = _norm2(x, y)
    if dsign(n2) == 0:
        return "undef"
    Lg = yield from encl1("log", n2, wp)
    A = yield from atan2_encl(y, x, wp)
    if Lg is None or A is None:
        return None
    if A == "undef":
        return "undef"
    return ((dshift(Lg[0], -1), dshift(Lg[1], -1)), A)


def ref_cabs(pt, wp):
    x, y = pt
    r = yield from encl1("sqrt", _norm2(x, y), wp)
    return r


def ref_carg(pt, wp):
    r = yield from atan2_encl(pt[1], pt[0], wp)
    return r


def ref_cmul(pt, wp):
    a, b, c, d = pt
    re = dsub(dmul(a, c), dmul(b, d))
    im = dadd(dmul(a, d), dmul(b, c))
    return ((re, re), (im, im))
    yield  # pragma: no cover  (makes this a generator)


def ref_cdiv(pt, wp):
    a, b, c, d = pt
    n2 = _norm2(c, d)
    if dsign(n2) == 0:
        return "undef"
    q = to_q(n2)
    re = to_q(dadd(dmul(a, c), dmul(b, d))) / q
    im = to_q(dsub(dmul(b, c), dmul(a, d))) / q
    return ((re, re), (im, im))
    yield  # pragma: no cover


REFS = {"atan2": ref_atan2, "pow": ref_pow, "cexp": ref_cexp, "clog": ref_clog, "ccos": ref_ccos, "csin": ref_csin,
        "cabs": ref_cabs, "carg": ref_carg, "cmul": ref_cmul, "cdiv": ref_cdiv}
for _f in ("exp", "log", "sqrt", "sin", "cos", "tan", "cot", "sec", "csc", "atan"):
    REFS[_f] = ref1(_f)
for _f in GAMMAS:
    REFS[_f] = ref_gamma(_f)


# ======================================================================================================
# requirements that are not point samples: extrema, poles, limits at infinite endpoints
# ======================================================================================================

def find_multiple(a, b, residues, wp):
    """a <= b finite dyadics.  Returns an integer c with c mod 4 in residues and a <= c*pi/2 <= b PROVED with the verified
    pi enclosure, or None when no such c could be proved."""
    if dsign(a) <= 0 <= dsign(b) and 0 in residues:
        return 0
    g = max(dmag(a) if a[0] else 0, dmag(b) if b[0] else 0, 0)
    pl, ph = PI(wp + g + 16)

    def inside(c):
        if c == 0:
            return dsign(a) <= 0 <= dsign(b)
        lo = dshift(dmul((c, 0), pl if c > 0 else ph), -1)
        hi = dshift(dmul((c, 0), ph if c > 0 else pl), -1)
        return dcmp(a, lo) <= 0 and dcmp(hi, b) <= 0
    # candidates: integers around 2a/pi (and 2b/pi)
    cands = []
    for t, rng in ((a, range(-1, 7)), (b, range(-6, 2))):
        num = to_q(dshift(t, 1))
        c0 = (num.numerator * (1 << -pl[1])) // (num.denominator * pl[0]) if pl[1] < 0 else 0
        cands += [c0 + j for j in rng]
    for c in cands:
        if c % 4 in residues and inside(c):
            return c
    return None


def requirements(fun, args, L, U, prec):
    """list of (status, what): status in 'fail', 'ok', 'undecided'"""
    out = []

    def need(cond_ok, cond_fail, what):
        out.append(("ok" if cond_ok else ("fail" if cond_fail else "undecided"), what))

    def need_le(x, y, what):           # exact, always decided
        ok = xcmp(x, y) <= 0
        need(ok, not ok, what)

    if fun in ("atan2", "pow") or fun in C15_FUNS:
        return out
    xa, xb = x_of_mpf(args[0][0]), x_of_mpf(args[0][1])
    if xa == NAN or xb == NAN:
        return out
    inf_in = (not fin(xa)) or (not fin(xb))
    if fun in ("sin", "cos"):
        if inf_in:
            need_le(L, MONE, "unbounded input: -1 must be in the result")
            need_le(ONE, U, "unbounded input: +1 must be in the result")
        else:
            mx, mn = ({0}, {2}) if fun == "cos" else ({1}, {3})
            c = find_multiple(xa, xb, mx, prec + 40)
            if c is not None:
                need_le(ONE, U, "input contains %d*pi/2 where %s = +1: upper endpoint must be >= 1" % (c, fun))
            c = find_multiple(xa, xb, mn, prec + 40)
            if c is not None:
                need_le(L, MONE, "input contains %d*pi/2 where %s = -1: lower endpoint must be <= -1" % (c, fun))
    elif fun in ("tan", "cot", "sec", "csc"):
        poles = {"tan": {1, 3}, "cot": {0, 2}, "sec": {1, 3}, "csc": {0, 2}}[fun]
        full = inf_in
        c = None
        if not inf_in:
            c = find_multiple(xa, xb, poles, prec + 40)
            if c == 0 and (dsign(xa) == 0 or dsign(xb) == 0):
                c = None          # pole at an endpoint: one-sided, covered by the sample points
            full = c is not None
        if full:
            why = "unbounded input" if inf_in else "pole %d*pi/2 inside the input" % c
            ok = (L == NINF and U == PINF)
            need(ok, not ok, "%s: %s takes every large value of both signs, result must be [-inf, +inf]" % (why, fun))
        elif fun in ("sec", "csc") and not inf_in:
            one, mone = ({0}, {2}) if fun == "sec" else ({1}, {3})
            c = find_multiple(xa, xb, one, prec + 40)
            if c is not None:
                ok = xcmp(L, ONE) <= 0 and xcmp(ONE, U) <= 0
                need(ok, not ok, "input contains %d*pi/2 where %s = +1: 1 must be in the result" % (c, fun))
            c = find_multiple(xa, xb, mone, prec + 40)
            if c is not None:
                ok = xcmp(L, MONE) <= 0 and xcmp(MONE, U) <= 0
                need(ok, not ok, "input contains %d*pi/2 where %s = -1: -1 must be in the result" % (c, fun))
    elif fun == "exp":
        if xb == PINF:
            need(U == PINF, U != PINF, "exp is unbounded on [a, +inf): upper endpoint must be +inf")
        if xa == NINF:
            need_le(L, ZERO, "inf exp = 0 on (-inf, b]: lower endpoint must be <= 0")
    elif fun == "log":
        if xb == PINF:
            need(U == PINF, U != PINF, "log is unbounded on [a, +inf): upper endpoint must be +inf")
        if fin(xa) and dsign(xa) == 0 and xb != xa:
            need(L == NINF, L != NINF, "log -> -inf at 0+: lower endpoint must be -inf")
    elif fun == "sqrt":
        if xb == PINF:
            need(U == PINF, U != PINF, "sqrt is unbounded on [a, +inf): upper endpoint must be +inf")
    elif fun == "atan":
        pl, ph = PI(prec + 60)
        if xb == PINF:
            need(xcmp(dshift(ph, -1), U) <= 0, xcmp(U, dshift(pl, -1)) < 0, "sup atan = pi/2 on [a, +inf): upper endpoint must be >= pi/2")
        if xa == NINF:
            need(xcmp(L, dneg(dshift(ph, -1))) <= 0, xcmp(dneg(dshift(pl, -1)), L) < 0, "inf atan = -pi/2 on (-inf, b]: lower endpoint must be <= -pi/2")
    elif fun in ("gamma", "factorial") and not inf_in:
        sh = ONE if fun == "factorial" else ZERO
        a, b = dadd(xa, sh), dadd(xb, sh)
        # a pole (integer n <= 0) strictly inside (a, b)
        if dsign(a) < 0 or (dsign(a) == 0 and False):
            qa = to_q(a)
            n = math.floor(qa) + 1          # smallest integer > a
            if n <= 0 and dcmp((n, 0), b) < 0:
                ok = (L == NINF and U == PINF)
                need(ok, not ok, "pole of Gamma at %d strictly inside the argument range: result must be [-inf, +inf]" % n)
    elif fun == "gamma" and xb == PINF and False:
        pass
    if fun in ("gamma", "factorial") and xb == PINF:
        need(U == PINF, U != PINF, "%s is unbounded on [a, +inf): upper endpoint must be +inf" % fun)
    if fun == "loggamma" and xb == PINF:
        need(U == PINF, U != PINF, "loggamma is unbounded on [a, +inf): upper endpoint must be +inf")
    if fun == "rgamma" and xb == PINF:
        need_le(L, ZERO, "inf rgamma = 0 on [a, +inf): lower endpoint must be <= 0")
    return out


# ======================================================================================================
# generators
# ======================================================================================================

def rand_man(r, nb):
    return ((1 << (nb - 1)) | r.getrandbits(nb - 1)) if nb > 1 else 1


def gen_prec(r):
    c = r.random()
    if c < 0.62:
        return r.choice(MAINP)
    if c < 0.72:
        return r.choice([2, 3, 4, 5, 10, 100, 150, 200])
    return r.randint(2, 200)


def mp_near_kpi2(r, nb):
    """STEERING ONLY: a dyadic with nb bits next to k*pi/2"""
    k = r.choice([1, 1, 2, 2, 3, 4, 5, 6, 7, 8, 11, 22, 44, 100, 355, 710, r.getrandbits(20) + 1, r.getrandbits(60) + 1])
    old = mp.prec
    try:
        mp.prec = nb + k.bit_length() + 80
        v = k * mp.pi / 2
        s, man, ex, bc = v._mpf_
    finally:
        mp.prec = old
    sh = max(0, bc - nb)
    man >>= sh
    ex += sh
    man += r.choice([-2, -1, 0, 0, 1, 2])
    return (int(man), int(ex)), k


def gen_pt(r, group, p, note):
    """a dyadic argument (m, e) for a function group, with its shape"""
    nb = max(1, r.choice([1, 2, 5, p - 1, p, p, p, p, p + 1, p + 7, 2 * p + 3, 24, 53]))
    m = rand_man(r, nb)
    c = r.random()
    neg = r.random() < 0.45
    if group == "exp":
        if c < 0.55:
            shape, mag = "ordinary", r.randint(-6, 6)
        elif c < 0.70:
            shape, mag = "tiny", -r.choice([20, 50, 200, 1000])
        elif c < 0.93:
            shape, mag = "huge", r.randint(7, 23)
        else:
            shape, m, mag = "zero", 0, 0
    elif group == "pos":          # log, sqrt, base of pow
        neg = False
        if c < 0.38:
            shape, mag = "ordinary", r.randint(-8, 8)
        elif c < 0.60:
            shape = "near1"
            k = r.choice([1, 2, 5, 20, p - 1, p, p + 3, 2 * p])
            j = r.choice([1, 1, 3, 5, 255])
            m, nb, mag = (1 << k) + r.choice([1, -1]) * j, 0, None
            e = -k
        elif c < 0.80:
            shape, mag = "hugeexp", r.choice([-1, 1]) * r.choice([30, 50, 200, 1000, 4000])
        elif c < 0.88:
            shape, m, nb, mag = "pow2", 1, 1, r.randint(-40, 40)
        elif c < 0.96:
            shape = "exact_square"
            m = r.randint(1, 1 << max(1, min(30, p // 2))) ** 2
            nb, mag = m.bit_length(), None
            e = 2 * r.randint(-20, 20)
        else:
            shape, m, nb, mag = "small_int", r.randint(1, 12), 0, None
            e = 0
    elif group == "trig":
        if c < 0.40:
            shape, mag = "ordinary", r.randint(-4, 6)
        elif c < 0.50:
            shape, mag = "tiny", -r.choice([10, 30, 100, 1000])
        elif c < 0.63:
            shape, mag = "huge", r.choice([20, 30, 64, 64, 200, 300, 300, 1000 if r.random() < 0.1 else 100])
        elif c < 0.95:
            shape = "near_k_pi_2"
            (m, e), k = mp_near_kpi2(r, r.choice([nb if nb > 4 else p, p, p + 5, 24, 53]))
            mag = None
        else:
            shape, m, mag = "zero", 0, 0
    else:                           # "any": atan, atan2 components
        if c < 0.45:
            shape, mag = "ordinary", r.randint(-6, 6)
        elif c < 0.58:
            shape, mag = "tiny", -r.choice([10, 30, 100, 1000, 4000])
        elif c < 0.72:
            shape, mag = "huge", r.choice([10, 30, 100, 1000, 4000])
        elif c < 0.85:
            shape = "near1"
            k = r.choice([1, 2, 5, 20, p, 2 * p])
            m, mag = (1 << k) + r.choice([1, -1]), None
            e = -k
        elif c < 0.93:
            shape, m, mag = "small_int", r.randint(1, 12), None
            e = 0
        else:
            shape, m, mag = "zero", 0, 0
    if mag is not None:
        e = mag - (m.bit_length() if m else 0)
    if neg:
        m = -m
    if note is not None:
        note("shape", shape)
    return (m, e)


def lengthen(r, a, p):
    """append random low bits: an endpoint with more bits than the interval precision"""
    m, e = a
    if m == 0:
        return a
    k = r.choice([1, 2, 3, 10, p, p + 20])
    s = -1 if m < 0 else 1
    return (s * ((abs(m) << k) | r.getrandbits(k) | 1), e - k)


def small_width(r, a, p):
    """a positive dyadic width relative to a"""
    g = dmag(a) if a[0] else r.randint(-p, 0)
    return (r.randint(1, 255), g + r.randint(-10, 3) - 8)


KINDS = (("point", 26), ("narrow", 18), ("wide", 18), ("straddle", 14), ("long", 12), ("halfinf", 6), ("hugewide", 6))
_KIND_NAMES = [k for k, w in KINDS for _ in range(w)]


def mk_interval(r, p, genpt, lo_dom=None, specials=(ZERO,), allow_inf=(True, True), kind=None, note=None):
    """(xa, xb, kind): extended dyadics, xa <= xb, inside the domain [lo_dom, +inf) when lo_dom is given"""
    kind = kind or r.choice(_KIND_NAMES)
    a = genpt()
    sub = kind
    if kind == "long":
        a = lengthen(r, a, p)
        sub = r.choice(["point", "narrow", "wide"])
    if sub == "point":
        b = a
    elif sub == "narrow":
        g = dmag(a) if a[0] else -p
        b = dadd(a, (r.randint(1, 4), g - p))
        if kind == "long":
            b = lengthen(r, b, p)
    elif sub == "wide":
        b = dadd(a, small_width(r, a, p))
        if kind == "long" and r.random() < 0.5:
            b = lengthen(r, b, p)
    elif sub == "hugewide":
        b = dadd(a, (r.randint(1, 1 << 20), r.randint(-10, 12)))
    elif sub == "straddle":
        c = r.choice(specials) if specials else ZERO
        if callable(c):
            c = c()
        g = dmag(c) if c[0] else 0
        w1 = r.choice([ZERO, (1, g - p), (r.randint(1, 9), g - p - r.randint(0, 3)), (r.randint(1, 255), g - 8 - r.randint(0, 12)), (r.randint(1, 40), -3)])
        w2 = r.choice([ZERO, (1, g - p), (r.randint(1, 9), g - p - r.randint(0, 3)), (r.randint(1, 255), g - 8 - r.randint(0, 12)), (r.randint(1, 40), -3)])
        a, b = dsub(c, w1), dadd(c, w2)
    else:   # halfinf
        if allow_inf[1] and (r.random() < 0.6 or not allow_inf[0]):
            b = PINF
        elif allow_inf[0]:
            a, b = NINF, a
        else:
            b = a
    if fin(a) and fin(b) and dcmp(a, b) > 0:
        a, b = b, a
    if lo_dom is not None:
        if not fin(a) or dcmp(a, lo_dom) < 0:
            a = lo_dom
        if fin(b) and dcmp(b, lo_dom) < 0:
            b = dneg(b) if dcmp(dneg(b), lo_dom) >= 0 else lo_dom
        if fin(b) and dcmp(a, b) > 0:
            a, b = b, a
    if note is not None:
        note("kind", kind)
    return a, b, kind


def pair(a, b):
    return (mpf_of_x(a), mpf_of_x(b))


def trunc_in(t, a, b, nbits):
    u = dtrunc(t, nbits)
    if xcmp(a, u) <= 0 and xcmp(u, b) <= 0:
        return u
    if abs(t[0]).bit_length() <= 4 * nbits + 400:
        return t
    return None


def sample_pts(r, xa, xb, p, lim, extra=()):
    """dyadic sample points of [xa, xb]; lim = largest allowed magnitude exponent of a sample point"""
    pts = []
    nb = p + 24
    if fin(xa) and fin(xb):
        pts.append(xa)
        if dcmp(xa, xb) != 0:
            pts.append(xb)
            w = dsub(xb, xa)
            for num, sh in ((1, 1), (r.getrandbits(10) | 1, 11)):
                t = trunc_in(dadd(xa, dshift(dmul(w, (num, 0)), -sh)), xa, xb, nb)
                if t is not None:
                    pts.append(t)
    elif fin(xb) or fin(xa):
        base = xb if fin(xb) else xa
        sgn = -1 if fin(xb) else 1
        pts.append(base)
        g = dmag(base) if base[0] else 0
        for j in sorted({g - 3, g + 1, g + 8, min(lim - 1, g + 40), lim - 1, r.randint(min(g, lim - 2), lim - 1)}):
            if j < lim:
                pts.append(dadd(base, (sgn * r.randint(1, 7), j - 2)))
    else:
        for j in (-5, 0, 3, min(10, lim - 1), lim - 2):
            pts.append((r.choice([-1, 1]) * r.randint(1, 7), j - 2))
        pts.append(ZERO)
    for t in extra:
        if xcmp(xa, t) <= 0 and xcmp(t, xb) <= 0:
            pts.append(t)
    out, seen = [], set()
    for t in pts:
        if t[0] and dmag(t) > lim:
            continue
        if t not in seen:
            seen.add(t)
            out.append(t)
    return out


GROUP = {"exp": "exp", "log": "pos", "sqrt": "pos", "sin": "trig", "cos": "trig", "tan": "trig", "cot": "trig",
         "sec": "trig", "csc": "trig", "atan": "any"}
LIM = {"exp": 24, "log": 6000, "sqrt": 6000, "atan": 6000, "sin": 1100, "cos": 1100, "tan": 1100, "cot": 1100, "sec": 1100, "csc": 1100}


class Case(object):
    __slots__ = ("fun", "prec", "args", "kind", "steered", "pts", "results", "reqs", "tag")

    def __init__(self, fun, prec, args, kind, steered=False, pts=None):
        self.fun, self.prec, self.args, self.kind, self.steered, self.pts = fun, prec, args, kind, steered, pts
        self.results, self.reqs, self.tag = [], [], None

    def key(self):
        return (self.fun, self.prec, self.args)

    def to_input(self):
        def enc(x):
            if isinstance(x[0], tuple):
                return [enc(y) for y in x]
            return enc_mpf(x)
        return {"fun": self.fun, "prec": self.prec, "args": [enc(a) for a in self.args], "kind": self.kind, "steered": bool(self.steered)}


def case_from_input(inp):
    def dec(x):
        if isinstance(x, str):
            return dec_mpf(x)
        return tuple(dec(y) for y in x)
    return Case(inp["fun"], int(inp["prec"]), tuple(dec(a) for a in inp["args"]), inp.get("kind", "replay"), inp.get("steered", False))


def gen_case_real1(r, f, p, st):
    note = lambda k, v: st.note(f, k, v)   # noqa
    grp = GROUP[f]
    genpt = lambda: gen_pt(r, grp, p, note)   # noqa
    if grp == "pos":
        specials = (ONE, (1, -1), (1, 1)) if f == "log" else (ONE, ZERO)
        xa, xb, kind = mk_interval(r, p, genpt, lo_dom=ZERO, specials=specials, allow_inf=(False, True), note=note)
    elif grp == "trig":
        specials = (ZERO, lambda: mp_near_kpi2(r, r.choice([p, p + 9, 24, 53]))[0], lambda: mp_near_kpi2(r, p)[0])
        xa, xb, kind = mk_interval(r, p, genpt, specials=specials, note=note)
        if kind in ("wide", "hugewide") and fin(xa) and fin(xb) and r.random() < 0.5:
            xb = dadd(xa, (r.randint(1, 200), -4))      # widths up to ~12: several extrema / poles
    else:
        xa, xb, kind = mk_interval(r, p, genpt, note=note)
    return Case(f, p, (pair(xa, xb),), kind)


def gen_case_atan2(r, p, st):
    note = lambda k, v: st.note("atan2", k, v)   # noqa
    genpt = lambda: gen_pt(r, "any", p, None)    # noqa
    c = r.random()
    if c < 0.30:
        ya, yb, k1 = mk_interval(r, p, genpt, kind="point")
        xa, xb, k2 = mk_interval(r, p, genpt, kind="point")
        kind = "point"
    elif c < 0.55:
        # touching / straddling the axes
        ya, yb, k1 = mk_interval(r, p, genpt, kind=r.choice(["straddle", "straddle", "wide", "point"]))
        xa, xb, k2 = mk_interval(r, p, genpt, kind=r.choice(["straddle", "straddle", "wide", "point"]))
        kind = "axes"
    else:
        ya, yb, k1 = mk_interval(r, p, genpt, allow_inf=(False, False))
        xa, xb, k2 = mk_interval(r, p, genpt, allow_inf=(False, False))
        kind = k1 + "/" + k2
    note("kind", kind)
    return Case("atan2", p, (pair(ya, yb), pair(xa, xb)), kind)


def gen_case_pow(r, p, st):
    note = lambda k, v: st.note("pow", k, v)   # noqa
    genx = lambda: gen_pt(r, "pos", p, note)   # noqa
    xa, xb, kx = mk_interval(r, p, genx, lo_dom=ZERO, specials=(ONE,), allow_inf=(False, False),
                             kind=r.choice(["point", "point", "narrow", "wide", "straddle", "long"]))
    # |log2 x| bound over the interval
    def l2(t):
        if not t[0]:
            return 4000
        g = dmag(t)
        if g in (0, 1):
            d = dsub(t, ONE)
            return 2.0 ** (dmag(d) + 1) if d[0] else 2.0 ** -60
        return abs(g) + 1
    lx = max(l2(xa), l2(xb))
    budget = r.choice([-8, -2, 0, 2, 4, 8, 12, 16, 19])        # log2 |y log2 x|
    ymag = int(budget - math.log2(lx))
    ymag = max(-60, min(60, ymag))
    nb = max(2, r.choice([2, 3, 8, p, p, p + 5, 24, 53]))

    def geny():
        m = rand_man(r, nb) | 1
        e = ymag - nb
        if e >= 0:
            e = -1            # keep the exponent non-integer
        return (-m if r.random() < 0.4 else m, e)
    c = r.random()
    if c < 0.08:
        ya = yb = (1, -1)
        ky = "half"
    elif c < 0.55:
        ya = yb = geny()
        ky = "point"
    else:
        ya, yb, ky = mk_interval(r, p, geny, specials=(ZERO, ONE, (2, 0), (-1, 0), (1, -1)), allow_inf=(False, False),
                                 kind=r.choice(["narrow", "wide", "straddle", "long"]))
    note("kind", "x:%s/y:%s" % (kx, ky))
    return Case("pow", p, (pair(xa, xb), pair(ya, yb)), "x:%s/y:%s" % (kx, ky))


def gen_case_gamma(r, f, p, st):
    note = lambda k, v: st.note(f, k, v)   # noqa
    c = r.random()
    lo_n = 1 if f == "loggamma" else -12
    if c < 0.35:
        n = r.choice([r.randint(1, 30), r.randint(1, 170), r.randint(lo_n, 5), r.randint(1, 400)])
        t = (n, 0)
        kind = "int_point"
    elif c < 0.60:
        k = r.choice([r.randint(0, 30), r.randint(0, 120), r.randint(max(lo_n, -10), 3)])
        t = (2 * k + 1, -1)
        kind = "half_point"
    elif c < 0.80:
        n = r.choice([r.randint(1, 30), r.randint(lo_n, 5), r.randint(1, 200)])
        t = (n, 0) if r.random() < 0.6 else (2 * n + 1, -1)
        kind = "narrow_around"
    else:
        n = r.randint(lo_n, 40)
        t = (n, 0)
        kind = "wide_around"
    if f == "factorial":
        t = dsub(t, ONE)
    if kind.endswith("point"):
        xa = xb = t
    elif kind == "narrow_around":
        g = dmag(t) if t[0] else 0
        xa = dsub(t, (r.randint(0, 4), g - p))
        xb = dadd(t, (r.randint(0, 4), g - p))
    else:
        xa = dsub(t, (r.randint(0, 40), -4))
        xb = dadd(t, (r.randint(0, 60), -4))
        if r.random() < 0.15:
            xb = PINF
    if f == "loggamma" and dsign(xa) <= 0:
        xa = (1, -r.randint(1, 6))
        if fin(xb) and dcmp(xa, xb) > 0:
            xb = xa
    note("kind", kind)
    return Case(f, p, (pair(xa, xb),), kind)


def gamma_points(f, xa, xb):
    """integers and half-integers (in the variable of f) inside [xa, xb]: at most 8, spread"""
    if not fin(xa):
        return []
    lo = to_q(xa)
    hi = to_q(xb) if fin(xb) else lo + 60
    k0 = math.ceil(2 * lo)
    k1 = math.floor(2 * hi)
    ks = list(range(k0, k1 + 1))
    if len(ks) > 8:
        ks = ks[:3] + ks[len(ks) // 2 - 1:len(ks) // 2 + 1] + ks[-3:]
    return [(k, -1) if (k & 1) else (k // 2, 0) for k in ks]


def gen_rect(r, p, groups, st, fun, allow_inf=False):
    note = lambda k, v: st.note(fun, k, v)   # noqa
    gx = lambda: gen_pt(r, groups[0], p, None)   # noqa
    gy = lambda: gen_pt(r, groups[1], p, None)   # noqa
    c = r.random()
    ai = (allow_inf, allow_inf)
    if c < 0.32:
        kx = ky = "point"
    elif c < 0.55:
        kx, ky = r.choice(["straddle", "narrow", "point"]), r.choice(["straddle", "narrow", "point"])
    else:
        kx, ky = None, None
    sp = (ZERO,)
    if groups[0] == "trig":
        sp = (ZERO, lambda: mp_near_kpi2(r, p)[0])
    xa, xb, kx = mk_interval(r, p, gx, specials=sp, allow_inf=ai, kind=kx)
    sp = (ZERO,)
    if groups[1] == "trig":
        sp = (ZERO, lambda: mp_near_kpi2(r, p)[0])
    ya, yb, ky = mk_interval(r, p, gy, specials=sp, allow_inf=ai, kind=ky)
    note("kind", "%s/%s" % (kx, ky))
    return (pair(xa, xb), pair(ya, yb)), "%s/%s" % (kx, ky)


def gen_case_cplx(r, f, p, st):
    if f == "cexp":
        rect, kind = gen_rect(r, p, ("exp", "trig"), st, f)
        return Case(f, p, (rect,), kind)
    if f in ("ccos", "csin"):
        rect, kind = gen_rect(r, p, ("trig", "exp"), st, f)
        return Case(f, p, (rect,), kind)
    if f in ("clog", "cabs", "carg"):
        rect, kind = gen_rect(r, p, ("any", "any"), st, f)
        return Case(f, p, (rect,), kind)
    r1, k1 = gen_rect(r, p, ("any", "any"), st, f)
    r2, k2 = gen_rect(r, p, ("any", "any"), st, f)
    return Case(f, p, (r1, r2), k1 + "|" + k2)


def rect_points(r, rect, p, lims):
    (a, b), (c, d) = rect
    xs = sample_pts(r, x_of_mpf(a), x_of_mpf(b), p, lims[0])
    ys = sample_pts(r, x_of_mpf(c), x_of_mpf(d), p, lims[1])
    if not xs or not ys:
        return []
    pts = [(xs[0], ys[0])]
    if len(xs) > 1 or len(ys) > 1:
        pts += [(xs[min(1, len(xs) - 1)], ys[min(1, len(ys) - 1)]),
                (xs[0], ys[min(1, len(ys) - 1)]), (xs[min(1, len(xs) - 1)], ys[0]),
                (r.choice(xs), r.choice(ys)), (xs[-1], ys[-1])]
    out = []
    for t in pts:
        if t not in out:
            out.append(t)
    if len(out) > 4:
        out = out[:2] + r.sample(out[2:], 2)
    return out


CLIMS = {"cexp": (24, 1100), "ccos": (1100, 24), "csin": (1100, 24), "clog": (6000, 6000), "cabs": (6000, 6000),
         "carg": (6000, 6000), "cmul": (6000, 6000), "cdiv": (6000, 6000)}


def points_of(r, c):
    f, p = c.fun, c.prec
    if c.pts is not None:
        return c.pts
    if f in EXT_POINTS:
        return EXT_POINTS[f](r, c)
    if f in C15_FUNS:
        if f in ("cmul", "cdiv"):
            p1 = rect_points(r, c.args[0], p, CLIMS[f])
            p2 = rect_points(r, c.args[1], p, CLIMS[f])
            if not p1 or not p2:
                return []
            pts = [p1[0] + p2[0], p1[-1] + p2[-1], r.choice(p1) + r.choice(p2)]
            out = []
            for t in pts:
                if t not in out:
                    out.append(t)
            return out
        return rect_points(r, c.args[0], p, CLIMS[f])
    if f in GAMMAS:
        xa, xb = x_of_mpf(c.args[0][0]), x_of_mpf(c.args[0][1])
        if xa == NAN or xb == NAN:
            return []
        return [(t,) for t in gamma_points(f, xa, xb)]
    if f in ("atan2", "pow"):
        A = [x_of_mpf(t) for t in c.args[0]]
        B = [x_of_mpf(t) for t in c.args[1]]
        if NAN in A or NAN in B:
            return []
        lim = 6000
        xs = sample_pts(r, A[0], A[1], p, lim)
        ys = sample_pts(r, B[0], B[1], p, lim)
        if not xs or not ys:
            return []
        pts = [(xs[0], ys[0]), (xs[min(1, len(xs) - 1)], ys[min(1, len(ys) - 1)]), (xs[0], ys[min(1, len(ys) - 1)]),
               (xs[min(1, len(xs) - 1)], ys[0]), (r.choice(xs), r.choice(ys)), (xs[-1], ys[-1])]
        out = []
        for t in pts:
            if t not in out:
                out.append(t)
        return out[:5]
    xa, xb = x_of_mpf(c.args[0][0]), x_of_mpf(c.args[0][1])
    if xa == NAN or xb == NAN:
        return []
    return [(t,) for t in sample_pts(r, xa, xb, p, LIM[f])]


# ---- steering (mp is used here and ONLY here / in mp_near_kpi2) ------------------------------------------

def steer_positions(v):
    """interval precisions p (2..200) such that the bits of |v| right below the first p bits are 0000000000 or 1111111111"""
    s, man, ex, bc = v
    if not man or bc < 60:
        return []
    bits = bin(man)[2:]
    hits = []
    for pat in ("0000000000", "1111111111"):
        i = bits.find(pat, 2)
        while i != -1 and i <= 200:
            hits.append((i, bits.startswith(pat[:6], i + 10)))      # deep: a run of at least 16 equal bits
            i = bits.find(pat, i + 1)
    return hits


MPF = {"exp": mp.exp, "log": mp.log, "sqrt": mp.sqrt, "sin": mp.sin, "cos": mp.cos, "tan": mp.tan, "cot": mp.cot,
       "sec": mp.sec, "csc": mp.csc, "atan": mp.atan}


def steer_arg(r, f):
    nb = r.choice([12, 24, 24, 24, 40, 53])
    m = rand_man(r, nb)
    if f == "exp":
        mag = r.randint(-5, 7)
    elif f in ("log", "sqrt"):
        mag = r.randint(-12, 12)
    elif f in TRIG:
        mag = r.randint(-4, 7)
    else:
        mag = r.randint(-8, 8)
    if f not in ("log", "sqrt") and r.random() < 0.45:
        m = -m
    return (m, mag - nb)


def steered_cases(r, funs, n_eval, quota_main, quota_other, st):
    """point arguments whose exact value is (according to mp -- steering only) within ~2^-10 ulp of a grid point"""
    out = []
    old = mp.prec
    mp.prec = PSTEER
    try:
        for f in funs:
            main, other, deep = [], [], []
            for _ in range(n_eval):
                if f == "atan2":
                    y, x = steer_arg(r, "atan"), steer_arg(r, "atan")
                    vals = [mp.atan2(mp.make_mpf(mpf_of_x(y)), mp.make_mpf(mpf_of_x(x)))._mpf_]
                    args = (y, x)
                elif f == "pow":
                    x, y = steer_arg(r, "log"), steer_arg(r, "exp")
                    if dcmp(x, ONE) == 0 or y[1] >= 0:
                        continue
                    if abs(dmag(y) + math.log2(abs(dmag(x)) + 1)) > 12:
                        continue
                    vals = [mp.power(mp.make_mpf(mpf_of_x(x)), mp.make_mpf(mpf_of_x(y)))._mpf_]
                    args = (x, y)
                elif f in ("cexp", "ccos", "csin", "clog"):
                    x, y = steer_arg(r, "exp" if f != "clog" else "atan"), steer_arg(r, "exp" if f != "clog" else "atan")
                    z = mp.mpc(mp.make_mpf(mpf_of_x(x)), mp.make_mpf(mpf_of_x(y)))
                    w = getattr(mp, f[1:])(z)
                    vals = [w.real._mpf_, w.imag._mpf_]
                    args = (x, y)
                elif f == "cabs":
                    x, y = steer_arg(r, "atan"), steer_arg(r, "atan")
                    vals = [abs(mp.mpc(mp.make_mpf(mpf_of_x(x)), mp.make_mpf(mpf_of_x(y))))._mpf_]
                    args = (x, y)
                else:
                    x = steer_arg(r, f)
                    vals = [MPF[f](mp.make_mpf(mpf_of_x(x)))._mpf_]
                    args = (x,)
                for v in vals:
                    for p, is_deep in steer_positions(v):
                        if p < 2:
                            continue
                        (deep if is_deep else (main if p in MAINP else other)).append((p, args))
            r.shuffle(other)
            if len(main) > quota_main:
                r.shuffle(main)
            st.add(f, "steered_deep16", len(deep[:quota_main]))
            for p, args in deep[:quota_main] + main[:quota_main] + other[:quota_other]:
                st.note(f, "steered_prec", p if p in MAINP else "other")
                if f in C15_FUNS:
                    rect = (pair(args[0], args[0]), pair(args[1], args[1]))
                    out.append(Case(f, p, (rect,), "steered_point", True, pts=[args]))
                elif len(args) == 2:
                    out.append(Case(f, p, (pair(args[0], args[0]), pair(args[1], args[1])), "steered_point", True, pts=[args]))
                else:
                    x = args[0]
                    out.append(Case(f, p, (pair(x, x),), "steered_point", True, pts=[args]))
                    if r.random() < 0.35:
                        # the steered point as one endpoint of a proper interval
                        w = small_width(r, x, p)
                        a, b = (x, dadd(x, w)) if r.random() < 0.5 else (dsub(x, w), x)
                        if f in ("log", "sqrt") and dsign(a) <= 0:
                            continue
                        out.append(Case(f, p, (pair(a, b),), "steered_endpoint", True, pts=[(x,)]))
    finally:
        mp.prec = old
    return out


def gamma_enumeration(r, f, precs, nmax):
    """every integer / half-integer point up to nmax at the given precisions (Gamma values are exactly known there)"""
    out = []
    for p in precs:
        for n in range(1, nmax + 1):
            for t in ((n, 0), (2 * n + 1, -1)):
                if f == "factorial":
                    t = dsub(t, ONE)
                out.append(Case(f, p, (pair(t, t),), "enumerated_point", False, pts=[(t,)]))
    return out


# ======================================================================================================
# statistics
# ======================================================================================================
class Stats(object):
    def __init__(self):
        self.per = {}
        self.hist = {}

    def add(self, f, key, n=1):
        d = self.per.setdefault(f, {})
        d[key] = d.get(key, 0) + n

    def note(self, f, key, val):
        d = self.hist.setdefault(f, {}).setdefault(key, {})
        d[str(val)] = d.get(str(val), 0) + 1


# ======================================================================================================
# evaluation of cases
# ======================================================================================================

def call_case(c):
    iv.prec = c.prec
    res = []
    for label, fn in VARIANTS[c.fun]:
        st, val = guarded(lambda: fn(c.args, c.prec))
        res.append((label, st, val))
    iv.prec = 53
    c.results = res
    return res


def result_boxes(c):
    """distinct well-typed results: list of (labels, box) with box = [(L, U)] (real) or [(L, U), (L, U)] (complex);
    plus list of ill-formed results (labels, reason, raw)"""
    good, bad, other = [], [], []
    for label, st, val in c.results:
        if st != "ok":
            other.append((label, st if st == "timeout" else "exception:" + str(val)))
            continue
        if val is None or (isinstance(val, tuple) and val and val[0] == "complex"):
            other.append((label, "complex_result"))
            continue
        try:
            if c.fun in COMPLEX_VALUED:
                box = [(x_of_mpf(val[0][0]), x_of_mpf(val[0][1])), (x_of_mpf(val[1][0]), x_of_mpf(val[1][1]))]
            else:
                box = [(x_of_mpf(val[0]), x_of_mpf(val[1]))]
        except Exception:  # noqa
            other.append((label, "malformed_result"))
            continue
        reason = None
        for (L, U) in box:
            if L == NAN or U == NAN:
                reason = "nan endpoint"
            elif xcmp(L, U) > 0:
                reason = "lower endpoint above upper endpoint"
        if reason:
            bad.append((label, reason, box))
            continue
        for g in good:
            if g[1] == box:
                g[0].append(label)
                break
        else:
            good.append(([label], box))
    return good, bad, other


def box_str(box):
    return [[xstr(L), xstr(U)] for (L, U) in box]


def excess_bits(box, enc, prec):
    """for an OUTSIDE verdict: (component, side, k) with the exact value about 2^k ulps (of the prec-bit grid at the
    violated endpoint) beyond that endpoint"""
    if enc_tag(enc):
        return EXT_DECIDE[enc_tag(enc)][1](box, enc, prec)
    encs = [enc] if len(box) == 1 else list(enc)
    for idx, ((L, U), (l, u)) in enumerate(zip(box, encs)):
        for side, e, far in (("lower", L, l), ("upper", U, u)):
            bad = (xcmp(u, L) < 0) if side == "lower" else (xcmp(U, l) < 0)
            if not bad:
                continue
            if not fin(e) or not fin(far):
                return (idx, side, None)
            e2, far2 = e, far
            if isinstance(far2, Fraction):
                far2 = dround_out(far2, 64, True)
            if isinstance(e2, Fraction):
                e2 = dround_out(e2, 64, True)
            d = dsub(e2, far2)
            ref = e2 if e2[0] else far2
            if not d[0] or not ref[0]:
                return (idx, side, None)
            return (idx, side, dmag(d) - (dmag(ref) - prec))
    return (0, "?", None)


def decide_box(box, enc):
    """enc: (lo, hi) for real-valued, ((lo, hi), (lo, hi)) for complex-valued"""
    if enc_tag(enc):
        return EXT_DECIDE[enc_tag(enc)][0](box, enc)
    encs = [enc] if len(box) == 1 else list(enc)
    inside = True
    for (L, U), (l, u) in zip(box, encs):
        if xcmp(u, L) < 0 or xcmp(U, l) < 0:
            return "outside"
        if not (xcmp(L, l) <= 0 and xcmp(u, U) <= 0):
            inside = False
    return "inside" if inside else "undecided"


def enc_str(fun, enc):
    if enc_tag(enc):
        return EXT_DECIDE[enc_tag(enc)][2](enc)
    if fun in COMPLEX_VALUED:
        return [[xstr(enc[0][0]), xstr(enc[0][1])], [xstr(enc[1][0]), xstr(enc[1][1])]]
    return [[xstr(enc[0]), xstr(enc[1])]]


def evaluate(cases, r, st, failing, budget_s=None, t0=None):
    """call the real code, build sample points, decide.  Returns number of distinct non-trivial decided cases."""
    # 1. real code + requirements
    work = []            # (case, good boxes, points)
    old_handler = signal.signal(signal.SIGALRM, _alarm)
    try:
        for c in cases:
            call_case(c)
    finally:
        signal.signal(signal.SIGALRM, old_handler)
    for c in cases:
        f = c.fun
        st.add(f, "cases")
        if c.steered:
            st.add(f, "steered")
        good, bad, other = result_boxes(c)
        for label, why in other:
            st.add(f, "no_interval:" + why)
        for label, reason, box in bad:
            st.add(f, "illformed")
            inp = c.to_input()
            inp.update({"variant": label, "result": box_str(box), "class": "wellformed"})
            failing.append({"site": site(f, "wellformed"), "what": "%s at prec %d returns an ill-formed interval (%s): %s" %
                            (label, c.prec, reason, box_str(box)), "input": inp})
        if not good:
            continue
        for labels, box in good:
            if f in COMPLEX_VALUED and f not in EXT_REQ:
                continue
            for status, what in (EXT_REQ[f](c, box) if f in EXT_REQ else requirements(f, c.args, box[0][0], box[0][1], c.prec)):
                st.add(f, "req_" + status)
                if status == "fail":
                    inp = c.to_input()
                    inp.update({"variant": labels[0], "result": box_str(box), "class": "requirement"})
                    failing.append({"site": site(f), "what": "%s at prec %d: %s; result %s" % (labels[0], c.prec, what, box_str(box)),
                                    "input": inp})
        pts = points_of(r, c)
        if pts:
            work.append((c, good, pts))
    # 2. passes at increasing working precision
    todo = [(i, j) for i, (c, good, pts) in enumerate(work) for j in range(len(pts))]
    decided_cases = set()
    for pas, wpf in enumerate((lambda p: p + 40, lambda p: p + 200, lambda p: 2 * p + 1000)):
        if not todo:
            break
        if pas == 2:
            todo = todo[:400]
        if pas == 2:
            # tiny / huge points (atan x ~ x, exp x ~ 1 + x, ...): the gap to the endpoint is of relative size 2^-2|mag|
            def wp3(i, j):
                g = max([abs(dmag(t)) for t in work[i][2][j] if t[0]] + [0])
                return 2 * work[i][0].prec + 1000 + 2 * min(g, 4500)
            jobs = [REFS[work[i][0].fun](work[i][2][j], wp3(i, j)) for (i, j) in todo]
        else:
            jobs = [REFS[work[i][0].fun](work[i][2][j], wpf(work[i][0].prec)) for (i, j) in todo]
        encs = run_refs(jobs)
        nxt = []
        for (i, j), enc in zip(todo, encs):
            c, good, pts = work[i]
            f = c.fun
            if enc is None:
                st.add(f, "pts_no_reference")
                continue
            if enc == "undef":
                st.add(f, "pts_outside_domain")
                continue
            und = False
            for labels, box in good:
                v = decide_box(box, enc)
                if v == "outside":
                    st.add(f, "pts_outside")
                    inp = c.to_input()
                    comp, side, k = excess_bits(box, enc, c.prec)
                    inp.update({"variant": labels[0], "point": [xstr(t) for t in pts[j]], "result": box_str(box),
                                "verified_enclosure": enc_str(f, enc), "wp": wpf(c.prec), "class": "contain",
                                "component": comp, "side": side, "excess_log2_ulp": k,
                                "point_mag": [(dmag(t) if t[0] else None) for t in pts[j]]})
                    failing.append({"site": site(f), "what": "%s at prec %d: exact value at the point %s lies in %s, outside the returned %s" %
                                    (labels[0], c.prec, [xstr(t) for t in pts[j]], enc_str(f, enc), box_str(box)), "input": inp})
                elif v == "undecided":
                    und = True
            if und:
                nxt.append((i, j))
            else:
                st.add(f, "pts_inside" if all(decide_box(b, enc) == "inside" for _, b in good) else "pts_mixed")
                if c.steered:
                    st.add(f, "steered_pts_decided")
                decided_cases.add(c.key())
        if pas == 2 or not nxt:
            for (i, j) in nxt:
                st.add(work[i][0].fun, "pts_undecided")
                if os.environ.get("IVFUN_UNDEC"):
                    print("UNDECIDED", work[i][0].to_input(), [xstr(t) for t in work[i][2][j]], [box_str(b) for _, b in work[i][1]])
        else:
            st.add("_all", "retry_pass%d" % (pas + 1), len(nxt))
        todo = nxt
    if todo and len(todo) > 0:
        pass
    return decided_cases


# ======================================================================================================
# top level
# ======================================================================================================
SIZES = {
    # n / n2 / ng: random cases per unary / binary / gamma-family function; n_eval: steering evaluations per function (mp at 240 bits);
    # qm / qo: steered cases kept per function at the main precisions (24/53/64/113) / at other precisions
    ("C14", True): dict(n=2600, n2=1900, ng=1200, n_eval=13000, qm=450, qo=750, gam_precs=(24, 53, 64, 113), gam_n=80),
    ("C14", False): dict(n=40000, n2=30000, ng=12000, n_eval=200000, qm=7000, qo=12000, gam_precs=(10, 24, 53, 64, 100, 113, 200), gam_n=400),
    # ncg: rectangles per complex gamma-family function (iv_cgamma_ops.py)
    ("C15", True): dict(n=1700, n2=1700, ng=0, n_eval=9000, qm=350, qo=550, gam_precs=(), gam_n=0, ncg=420),
    ("C15", False): dict(n=30000, n2=30000, ng=0, n_eval=150000, qm=6000, qo=10000, gam_precs=(), gam_n=0, ncg=9000),
}


def build_cases(r, pid, quick, st):
    sz = SIZES[(pid, bool(quick))]
    cases = []
    if pid == "C14":
        for f in C14_FUNS:
            if f in GAMMAS:
                for _ in range(sz["ng"]):
                    cases.append(gen_case_gamma(r, f, gen_prec(r), st))
                cases += gamma_enumeration(r, f, sz["gam_precs"], sz["gam_n"])
            elif f == "atan2":
                for _ in range(sz["n2"]):
                    cases.append(gen_case_atan2(r, gen_prec(r), st))
            elif f == "pow":
                for _ in range(sz["n2"]):
                    cases.append(gen_case_pow(r, gen_prec(r), st))
            else:
                for _ in range(sz["n"]):
                    cases.append(gen_case_real1(r, f, gen_prec(r), st))
        cases += steered_cases(r, [f for f in C14_FUNS if f not in GAMMAS], sz["n_eval"], sz["qm"], sz["qo"], st)
    else:
        for f in C15_FUNS:
            if f in EXT_GEN:
                continue
            n = sz["n"] if f not in ("cmul", "cdiv", "carg") else sz["n"] // 2
            for _ in range(n):
                cases.append(gen_case_cplx(r, f, gen_prec(r), st))
        cases += steered_cases(r, ["cexp", "clog", "ccos", "csin", "cabs"], sz["n_eval"], sz["qm"], sz["qo"], st)
        for f in C15_FUNS:          # extension functions last: the random stream of the cases above does not depend on them
            if f in EXT_GEN:
                cases += EXT_GEN[f](r, f, sz["ncg"], st)
    return cases


def run_ivfun(ctx, pid):
    t0 = time.time()
    r = random.Random(ctx.seed * 1000003 + (14 if pid == "C14" else 15))
    st = Stats()
    failing = []
    cases = []
    # replay corpus first
    if getattr(ctx, "replay", None):
        try:
            import json
            rp = json.load(open(ctx.replay))
            for f in [rp.get("failing_input") or {}] + list(rp.get("others") or []):
                inp = f.get("input") or {}
                if "fun" in inp and "args" in inp:
                    cases.append(case_from_input(inp))
        except (OSError, ValueError):
            pass
    n_replay = len(cases)
    cases += build_cases(r, pid, ctx.quick, st)
    for c in cases:
        st.note(c.fun, "prec", c.prec if c.prec in MAINP else ("<24" if c.prec < 24 else ("25..112" if c.prec < 113 else "114..200")))
    decided = set()
    # evaluate in slices so that memory stays small and a time budget can be honoured
    SL = 4000
    for k in range(0, len(cases), SL):
        decided |= evaluate(cases[k:k + SL], r, st, failing)
    funs = C14_FUNS if pid == "C14" else C15_FUNS
    per = {}
    tot = {"cases": 0, "inside": 0, "undecided": 0, "outside": 0, "steered": 0, "points": 0}
    for f in funs:
        d = st.per.get(f, {})
        row = {"cases": d.get("cases", 0), "points_decided_inside": d.get("pts_inside", 0),
               "points_undecided": d.get("pts_undecided", 0), "points_outside": d.get("pts_outside", 0),
               "points_no_reference": d.get("pts_no_reference", 0), "points_outside_domain": d.get("pts_outside_domain", 0),
               "steered_cases": d.get("steered", 0), "steered_16bit_runs": d.get("steered_deep16", 0), "steered_points_decided": d.get("steered_pts_decided", 0),
               "requirements_ok": d.get("req_ok", 0), "requirements_failed": d.get("req_fail", 0),
               "requirements_undecided": d.get("req_undecided", 0), "illformed_results": d.get("illformed", 0)}
        for k2, v in d.items():
            if k2.startswith("no_interval:"):
                row[k2] = v
        per[f] = row
        tot["cases"] += row["cases"]
        tot["inside"] += row["points_decided_inside"]
        tot["undecided"] += row["points_undecided"]
        tot["outside"] += row["points_outside"]
        tot["steered"] += row["steered_cases"]
    samples = []
    for c in cases[n_replay:n_replay + 4000:997]:
        d = c.to_input()
        d["results"] = [(lab, s, str(v)[:160]) for lab, s, v in c.results][:2]
        samples.append(d)
    # at most 3 failing inputs per (site, matching known finding or none): a new failure is never hidden behind known ones
    known = [k for k in load_known_findings() if k.get("property") == pid and k.get("status") == "finding"]
    seen, out, unmatched = {}, [], 0
    for f in failing:
        k = findings_mod.match(known, f)
        key = "%s%s" % (f["site"], (" [%s]" % k["id"]) if k is not None else " [NEW]")
        unmatched += k is None
        n = seen.get(key, 0)
        seen[key] = n + 1
        if n < 3 or os.environ.get("IVFUN_ALL"):
            out.append(f)
    cov = {
        "evaluations": sum(len(c.results) for c in cases),
        "cases": tot["cases"], "distinct_nontrivial": len(decided),
        "points_decided_inside": tot["inside"], "undecided": tot["undecided"], "points_outside": tot["outside"],
        "steered_cases": tot["steered"],
        "rule": "structured intervals (point, narrow = few ulps, wide, straddling 0 / 1 / k*pi/2, endpoints longer than the "
                "precision, half-infinite, huge/tiny magnitudes) at interval precisions 2..200 (62% in 24/53/64/113) plus a STEERED "
                "stream (point arguments whose value has 0000000000 / 1111111111 right below the precision, chosen with mp at 240 bits; "
                "mp is never used in a decision); each sample point of each input is decided against the enclosure of the verified "
                "evaluator in exact integer arithmetic; distinct_nontrivial = distinct (function, precision, input) with at least one "
                "sample point decided INSIDE or OUTSIDE",
        "per_function": per, "input_distribution": st.hist,
        "retries": st.per.get("_all", {}),
        "driver": {k: (round(v, 2) if isinstance(v, float) else v) for k, v in DRV_STATS.items()},
        "failing_per_site": seen, "failing_not_matching_a_known_finding": unmatched, "samples": samples, "wall_s": round(time.time() - t0, 1),
        "gamma_note": "gamma/rgamma/loggamma/factorial: only integer and half-integer points (exact values) and poles are checked: "
                      "a NECESSARY condition, not containment at every point",
        "unverified_steps": "atan2 (quotient bracket + monotone atan + quadrant + pi), complex formulas, Gamma at (half-)integers: "
                            "exact rational interval arithmetic in Python on top of verified real enclosures",
    }
    return {"coverage": cov, "failing_inputs": out, "disagreements": []}


def merge_into(res, ivres):
    """merge the result of run_ivfun into the result dict of an existing check: coverage keys prefixed `ivfun_`, the counters
    evaluations / distinct_nontrivial / undecided added up, failing inputs and disagreements concatenated"""
    cov = res.setdefault("coverage", {})
    icov = ivres["coverage"]
    for k, v in icov.items():
        cov["ivfun_" + k] = v
    cov["evaluations"] = cov.get("evaluations", 0) + icov.get("evaluations", 0)
    cov["distinct_nontrivial"] = cov.get("distinct_nontrivial", 0) + icov.get("distinct_nontrivial", 0)
    cov["undecided"] = cov.get("undecided", 0) + icov.get("undecided", 0)
    if "programs" in cov:
        cov["programs"] = cov["programs"] + len(icov.get("per_function", {}))
    res["failing_inputs"] = list(res.get("failing_inputs", [])) + list(ivres.get("failing_inputs", []))
    res["disagreements"] = list(res.get("disagreements", [])) + list(ivres.get("disagreements", []))
    return res


class _Ctx(object):
    def __init__(self, seed, quick=True, replay=None):
        self.seed, self.quick, self.replay = seed, quick, replay


if __name__ == "__main__":
    import json
    pid = sys.argv[1] if len(sys.argv) > 1 else "C14"
    seed = int(sys.argv[2]) if len(sys.argv) > 2 else 0
    quick = (sys.argv[3] != "thorough") if len(sys.argv) > 3 else True
    t = time.time()
    res = run_ivfun(_Ctx(seed, quick), pid)
    cov = res["coverage"]
    print("%s seed %d: cases %d, evaluations %d, distinct decided %d, points inside %d, undecided %d, outside %d, steered cases %d, wall %.1fs (driver %.1fs, %d lines)" %
          (pid, seed, cov["cases"], cov["evaluations"], cov["distinct_nontrivial"], cov["points_decided_inside"], cov["undecided"],
           cov["points_outside"], cov["steered_cases"], time.time() - t, DRV_STATS["driver_s"], DRV_STATS["driver_lines"]))
    for f, row in cov["per_function"].items():
        print("  %-10s %s" % (f, " ".join("%s=%s" % (k.replace("points_", "p_").replace("requirements_", "req_"), v) for k, v in row.items() if v)))
    print("  retries:", cov["retries"])
    print("failing inputs: %d  per site: %s" % (len(res["failing_inputs"]), cov["failing_per_site"]))
    print("NEW-FAILURES %d %s" % (cov["failing_not_matching_a_known_finding"],
                                 json.dumps({k: v for k, v in cov["failing_per_site"].items() if k.endswith("[NEW]")})))
    for f in res["failing_inputs"][:int(os.environ.get("IVFUN_SHOW", "12"))]:
        print("  FAIL", f["site"], "|", f["what"][:400])
        if os.environ.get("IVFUN_JSON"):
            print("       ", json.dumps(f["input"]))
