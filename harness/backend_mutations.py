"""Mutants for C37: `python backend_mutations.py` runs each mutant in its own process (hard timeout);
`python backend_mutations.py <name>` runs one (monkey-patching in that process only / a scratch copy of the
package for the site table).  Never touches /repo."""
import os, sys, shutil, tempfile, json, subprocess
sys.path.insert(0, os.path.dirname(os.path.abspath(__file__)))

NAMES = ["unchanged", "small_trailing_entry", "bctable_entry", "powers_short", "gmul_no_bitcount", "isqrt_fast_minus_2",
         "mul_int_bc_off", "new_site"]


def run(label):
    import backend_ops
    st, dis, sf, g = backend_ops.run_t1(12000, 5)
    hyp = [k for k in ("bitcount_hyp_est_in_reach", "sqrtrem_hyp_isqrt_fast_ge_root_minus_1") if g.hist.get(k, {}).get(False)]
    print("%-24s disagreements=%d spec_failures=%d broken_hypotheses=%s sites=%s -> %s" % (
        label, len(dis), len(sf), hyp, sorted({f["site"] for f in sf})[:3], "CAUGHT" if (dis or sf or hyp) else "missed"), flush=True)


def one(name):
    import backend_ops
    import mpmath.libmp.libintmath as LI
    import mpmath.libmp.libmpf as L
    if name == "small_trailing_entry":
        LI.small_trailing[64] = 5
    elif name == "bctable_entry":
        LI.bctable[20] = 4
    elif name == "powers_short":
        LI.powers = LI.powers[:299]
    elif name == "gmul_no_bitcount":
        src_old = L.gmpy_mpf_mul
        def bad_gmul(s, t, prec=0, rnd=L.round_fast):
            ssign, sman, sexp, sbc = s; tsign, tman, texp, tbc = t
            man = sman * tman
            if man:
                bc = sbc + tbc
                if prec: return L.normalize1(ssign ^ tsign, man, sexp + texp, bc, prec, rnd)
                return (ssign ^ tsign, man, sexp + texp, bc)
            return src_old(s, t, prec, rnd)
        L.gmpy_mpf_mul = bad_gmul
    elif name == "isqrt_fast_minus_2":
        old_fast = LI.isqrt_fast_python
        LI.isqrt_fast_python = lambda x: old_fast(x) - 2
    elif name == "mul_int_bc_off":
        old = L.gmpy_mpf_mul_int
        def bad(s, n, prec, rnd=L.round_fast):
            sign, man, exp, bc = s
            if not man or not n:
                return old(s, n, prec, rnd)
            if n < 0:
                sign ^= 1; n = -n
            man *= n
            return L.normalize(sign, man, exp, LI.bitcount(man) - 1, prec, rnd)
        L.gmpy_mpf_mul_int = bad
    elif name == "new_site":
        tmp = tempfile.mkdtemp()
        shutil.copytree(os.path.join(backend_ops.REPO, "mpmath"), os.path.join(tmp, "mpmath"), ignore=shutil.ignore_patterns("tests", "__pycache__"))
        p = os.path.join(tmp, "mpmath", "libmp", "libmpf.py")
        open(p, "a").write("\nif BACKEND == 'gmpy':\n    mpf_add = gmpy._mpmath_add\n")
        base = json.load(open(os.path.join(os.path.dirname(os.path.abspath(__file__)), "backend_sites.json")))
        new = [s["key"] for s in backend_ops.sites(repo=tmp) if s["key"] not in base]
        print("%-24s new unclassified sites=%s -> %s" % (name, new, "CAUGHT" if new else "missed"), flush=True)
        shutil.rmtree(tmp)
        return
    run(name)


if __name__ == "__main__":
    if len(sys.argv) > 1:
        one(sys.argv[1])
    else:
        for nm in NAMES:
            try:
                p = subprocess.run([sys.executable, os.path.abspath(__file__), nm], timeout=180, stdout=subprocess.PIPE, stderr=subprocess.STDOUT, text=True)
                print(p.stdout.strip().split("\n")[-1][:400], flush=True)
            except subprocess.TimeoutExpired:
                print("%-24s the mutated routine does not terminate on the generated inputs (180 s) -> CAUGHT (timeout)" % nm, flush=True)
