"""mutation check for harness/str_ops.py: patch one function of mpmath.libmp.libmpf in memory (never on disk)."""
import sys, inspect, os
sys.path.insert(0, os.path.dirname(os.path.abspath(__file__)))
os.environ["MPMATH_NOGMPY"] = "1"
import str_ops as S
L = S._lib()

MUTS = [
    ("from_str", "abs(exp) > 400", "abs(exp) >= 400", "cutoff boundary"),
    ("from_str", "s = from_int(man, prec+10)", "s = from_int(man, prec+9)", "one guard bit fewer"),
    ("to_str", "digits[dps] in '56789'", "digits[dps] in '6789'", "half-down digit rounding"),
    ("to_str", "while i >= 0 and digits[i] == '9'", "while i > 0 and digits[i] == '9'", "carry stops before first digit"),
    ("str_to_man_exp", "parts[1].rstrip('0')", "parts[1]", "no stripping of fractional zeros"),
    ("to_digits_exp", "int(dps * math.log(10,2)) + 10", "int(dps * math.log(10,2)) + 9", "bitprec guard"),
    ("to_digits_exp", "if abs(exp_from_1) > 3500", "if abs(exp_from_1) > 3499", "big-exponent switch"),
    ("repr_dps", "if dps == 15 and", "if dps == 16 and", "repr_dps special case"),
    ("repr_dps", " and n <= 53", "", "repr_dps 54-bit guard removed (pre-c03e100 code)"),
    ("str_to_man_exp", "x = x.replace('_', '')", "pass", "separators not removed (pre-ad5f351 code)"),
    ("str_to_man_exp", "if x in ('', '+', '-'):", "if x in ('',):", "signed '.0' not padded"),
    ("prec_to_dps", "3.3219280948873626", "3.3219280948873", "constant truncated"),
]
for fn, old, new, what in MUTS:
    src = inspect.getsource(getattr(L, fn))
    assert old in src, (fn, old)
    orig = getattr(L, fn)
    ns = L.__dict__
    exec(compile(src.replace(old, new), "<mut>", "exec"), ns)
    try:
        if fn == "from_str":
            st, dis, g = S.run_t1(["from_str"], 60000, 3)
        elif fn in ("from_str", "str_to_man_exp"):
            st, dis, g = S.run_t1(["from_str", "str_to_man_exp", "mpi_from_str"], 30000, 3)
        else:
            st, dis, g = S.run_t1(S.ALL_STR_OPS, 14000, 3)
        ops = sorted({d["op"] for d in dis})
        print("%-16s %-36s disagreements %5d  ops %s" % (fn, what, len(dis), ",".join(ops)))
    finally:
        ns[fn] = orig
st, dis, g = S.run_t1(S.ALL_STR_OPS, 14000, 3)
print("unmutated: disagreements", len(dis))
