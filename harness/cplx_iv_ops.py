"""T1 correspondence + exact property decisions for the arithmetic parts of mpmath's complex layer
(libmpc.py), interval layer (libmpi.py) and the comparison / membership / conversion layer of ctx_iv.py.

Properties:  C04 complex arithmetic correctly rounded per component
             C14 real interval operations contain every exact result
             C15 complex interval operations contain every exact result
             C16 interval comparisons are sound three-valued predicates

* every request line is self-contained: `exec_line(line)` runs the real code of /repo on it,
  the Lean driver `mpdrv` runs the model on it (ops of MpModel/DrvCplxIv.lean), the two answers
  are compared as strings (bit-exact tuples);
* `decide(line, out)` decides the *property* on the implementation's answer in exact rational
  arithmetic (fractions.Fraction); sample points are drawn from a PRNG seeded by the line itself,
  so a violation is replayed by `python cplx_iv_ops.py --replay '<line>'`.

Usage:  python cplx_iv_ops.py [ncases] [seed] [op,op,...]
"""
from common import *  # noqa
from spec import val, round_ok, is_special, is_canonical, FZERO, FNAN, FINF, FNINF
from fractions import Fraction
import math, zlib

INF = float("inf")


# ----------------------------------------------------------------------------------------------
# the real code
# ----------------------------------------------------------------------------------------------

class Impl:
    def __init__(self):
        mp = import_repo()
        import mpmath.libmp.libmpf as L
        import mpmath.libmp.libmpc as C
        import mpmath.libmp.libmpi as I
        self.mpmath, self.L, self.C, self.I = mp, L, C, I
        self.iv = mp.iv
        self.mp = mp.mp


_impl = None


def impl():
    global _impl
    if _impl is None:
        _impl = Impl()
    return _impl


class _Fallback(NotImplementedError):
    pass


def _no_mpc_exp(*a, **k):
    raise _Fallback("transcendental continuation of mpc_pow_int is outside the model")


def enc_c(z):
    return "%s %s" % (enc_mpf(z[0]), enc_mpf(z[1]))


def enc_ci(x):
    return "%s %s" % (enc_c(x[0]), enc_c(x[1]))


def enc_tv(v):
    if v is None:
        return "T:none"
    if v is True:
        return "T:1"
    if v is False:
        return "T:0"
    return "?:" + repr(v)


def enc_b(v):
    if v is True:
        return "B:1"
    if v is False:
        return "B:0"
    return "?:" + repr(v)


def _num_from_tokens(toks, im):
    """parse one number (context layer) -> (python object, rest)"""
    k = toks[0]
    if k == "int":
        return int(toks[1]), toks[2:]
    if k == "mpf":
        return im.mp.make_mpf(dec_mpf(toks[1])), toks[2:]
    if k == "float":
        m, e = int(toks[1]), int(toks[2])
        return math.ldexp(float(m), e), toks[3:]
    if k == "fspec":
        t = dec_mpf(toks[1])
        return {FNAN: float("nan"), FINF: INF, FNINF: -INF}[t], toks[2:]
    raise ValueError("bad number token " + k)


def _arg_from_tokens(toks, im):
    if toks[0] == "iv":
        return im.iv.make_mpf((dec_mpf(toks[1]), dec_mpf(toks[2])))
    if toks[0] == "pair":
        x, rest = _num_from_tokens(toks[1:], im)
        y, rest = _num_from_tokens(rest, im)
        assert not rest
        return (x, y)
    x, rest = _num_from_tokens(toks, im)
    assert not rest
    return x


# signature tables: (kinds of the arguments) ; kinds: c = mpc, m = mpf, i = int, p = prec, r = rnd, I = mpi, Q = mpci
MPC_SIG = {
    "mpc_is_inf": "c", "mpc_is_infnan": "c", "mpc_is_nonzero": "c", "mpc_conjugate": "cpr",
    "mpc_add": "ccpr", "mpc_add_mpf": "cmpr", "mpc_sub": "ccpr", "mpc_sub_mpf": "cmpr", "mpc_pos": "cpr",
    "mpc_neg": "cpr", "mpc_shift": "ci", "mpc_abs": "cpr", "mpc_floor": "cpr", "mpc_ceil": "cpr", "mpc_nint": "cpr",
    "mpc_frac": "cpr", "mpc_mul": "ccpr", "mpc_square": "cpr", "mpc_mul_mpf": "cmpr", "mpc_mul_imag_mpf": "cmpr",
    "mpc_mul_int": "cipr", "mpc_div": "ccpr", "mpc_div_mpf": "cmpr", "mpc_reciprocal": "cpr", "mpc_mpf_div": "mcpr",
    "mpc_pow_int": "cipr",
}
MPI_SIG = {
    "mpi_eq": "II", "mpi_ne": "II", "mpi_lt": "II", "mpi_le": "II", "mpi_gt": "II", "mpi_ge": "II",
    "mpi_add": "IIp", "mpi_sub": "IIp", "mpi_delta": "Ip", "mpi_mid": "Ip", "mpi_pos": "Ip", "mpi_neg": "Ip",
    "mpi_shift": "Ii", "mpi_abs": "Ip", "mpi_mul": "IIp", "mpi_mul_mpf": "Imp", "mpi_square": "Ip", "mpi_div": "IIp",
    "mpi_div_mpf": "Imp", "mpi_sqrt": "Ip", "mpi_pow_int": "Iip",
    "mpci_add": "QQp", "mpci_sub": "QQp", "mpci_neg": "Qp", "mpci_pos": "Qp", "mpci_mul": "QQp", "mpci_div": "QQp",
    "mpci_abs": "Qp", "mpci_square": "Qp", "mpci_pow_int": "Qip",
}
TV_OPS = {"mpi_lt", "mpi_le", "mpi_gt", "mpi_ge", "iv_cmp", "ivc_overlap"}
BOOL_OPS = {"mpi_eq", "mpi_ne", "mpc_is_inf", "mpc_is_infnan", "mpc_is_nonzero", "iv_eq", "iv_ne", "iv_contains",
            "ivc_contains", "ivc_eq", "ivc_ne", "ivc_eq_real"}


def parse_args(sig, toks):
    """tokens -> python arguments according to a signature string"""
    out = []
    i = 0
    for k in sig:
        if k == "c" or k == "I":
            out.append((dec_mpf(toks[i]), dec_mpf(toks[i + 1]))); i += 2
        elif k == "Q":
            out.append(((dec_mpf(toks[i]), dec_mpf(toks[i + 1])), (dec_mpf(toks[i + 2]), dec_mpf(toks[i + 3])))); i += 4
        elif k == "m":
            out.append(dec_mpf(toks[i])); i += 1
        elif k in "ip":
            out.append(int(toks[i])); i += 1
        elif k == "r":
            out.append(toks[i]); i += 1
    assert i == len(toks), "arity"
    return out


def exec_line(line):
    """run the real code on a request line; returns the raw python value (or raises)"""
    im = impl()
    t = line.split()
    op, a = t[0], t[1:]
    if op in MPC_SIG:
        args = parse_args(MPC_SIG[op], a)
        f = getattr(im.C, op)
        if op == "mpc_pow_int":
            old = im.C.mpc_exp
            im.C.mpc_exp = _no_mpc_exp
            try:
                return f(*args)
            finally:
                im.C.mpc_exp = old
        return f(*args)
    if op == "complex_int_pow":
        return tuple(int(v) for v in im.C.complex_int_pow(int(a[0]), int(a[1]), int(a[2])))
    if op == "mpf_min_max":
        return im.L.mpf_min_max([dec_mpf(x) for x in a])
    if op in MPI_SIG:
        args = parse_args(MPI_SIG[op], a)
        return getattr(im.I, op)(*args)
    iv = im.iv
    if op == "iv_convert":
        iv.prec = int(a[0])
        x = _arg_from_tokens(a[1:], im)
        return iv.convert(x)._mpi_
    if op in ("iv_cmp", "iv_eq", "iv_ne", "iv_contains"):
        if op == "iv_cmp":
            rel, a = a[0], a[1:]
        s = iv.make_mpf((dec_mpf(a[0]), dec_mpf(a[1])))
        iv.prec = int(a[2])
        x = _arg_from_tokens(a[3:], im)
        if op == "iv_cmp":
            return {"lt": lambda: s < x, "le": lambda: s <= x, "gt": lambda: s > x, "ge": lambda: s >= x}[rel]()
        if op == "iv_eq":
            return s == x
        if op == "iv_ne":
            return s != x
        return x in s
    if op in ("ivc_contains", "ivc_overlap", "ivc_eq", "ivc_ne"):
        s, x = parse_args("QQ", a)
        s = iv.make_mpc(s); x = iv.make_mpc(x)
        if op == "ivc_contains":
            return x in s
        if op == "ivc_overlap":
            return s.overlap(x)
        if op == "ivc_eq":
            return s == x
        return s != x
    if op == "ivc_eq_real":
        s, x = parse_args("QI", a)
        return iv.make_mpc(s) == iv.make_mpf(x)
    raise ValueError("unknown op " + op)


NOVAL = object()      # "the call raised"


def call_line(line):
    """-> (encoded answer, raw value or NOVAL)"""
    op = line.split(None, 1)[0]
    try:
        v = exec_line(line)
    except RecursionError:
        raise
    except _Fallback:
        return "E:NotImplementedError", NOVAL
    except Exception as e:  # noqa
        return enc_exc(e), NOVAL
    if op in TV_OPS:
        return enc_tv(v), v
    if op in BOOL_OPS:
        return enc_b(v), v
    return enc_result(v), v


# ----------------------------------------------------------------------------------------------
# exact decisions of the properties
# ----------------------------------------------------------------------------------------------

MAXEXP = 6000        # operands with larger exponents get no exact decision (memory), only T1


def small(*ts):
    return all((not t[1]) or abs(t[2]) <= MAXEXP for t in ts)


def finite(*ts):
    """finite and canonical (the malformed stream has no specification)"""
    return all((not is_special(t)) and is_canonical(t) for t in ts)


def ev(t):
    """extended-real value of an endpoint; None for nan"""
    t = tuple(t)
    if t == FINF:
        return INF
    if t == FNINF:
        return -INF
    if t == FNAN:
        return None
    return val(t)


def valid_iv(I):
    a, b = ev(I[0]), ev(I[1])
    return a is not None and b is not None and a <= b and is_canonical(I[0]) and is_canonical(I[1])


def samples(rng, I, k=3):
    """real sample points of a valid interval: endpoints, midpoint, 0 if inside, random dyadics"""
    a, b = ev(I[0]), ev(I[1])
    if a == INF or b == -INF:
        return []
    lo, hi = a, b
    if lo == -INF and hi == INF:
        lo, hi = -Fraction(2) ** rng.randint(0, 90), Fraction(2) ** rng.randint(0, 90)
    elif lo == -INF:
        lo = hi - Fraction(2) ** rng.randint(-60, 90)
    elif hi == INF:
        hi = lo + Fraction(2) ** rng.randint(-60, 90)
    pts = [lo, hi]
    if lo < hi:
        pts.append((lo + hi) / 2)
        for _ in range(k):
            j = rng.choice([1, 2, 3, 8, 30, 70])
            pts.append(lo + (hi - lo) * Fraction(rng.getrandbits(j), 1 << j))
        if lo < 0 < hi:
            pts.append(Fraction(0))
        if a == -INF or b == INF:   # far out
            pts.append(lo - Fraction(3) ** rng.randint(1, 200) if a == -INF else lo)
            pts.append(hi + Fraction(3) ** rng.randint(1, 200) if b == INF else hi)
    out = []
    for p in pts:
        if p not in out:
            out.append(p)
    return out


def inside(v, J):
    lo, hi = ev(J[0]), ev(J[1])
    if lo is None or hi is None:
        return False
    return lo <= v <= hi


def gauss_pow(x, y, n):
    """(x + iy)^n, n >= 0, left-to-right binary powering on Fractions"""
    re, im = Fraction(1), Fraction(0)
    for bit in bin(n)[2:]:
        re, im = re * re - im * im, 2 * re * im
        if bit == "1":
            re, im = re * x - im * y, re * y + im * x
    return re, im


def _line_rng(line):
    return random.Random(zlib.crc32(line.encode()))


def decide(line, out, raw=NOVAL):
    """-> list of (property, class, detail).  Empty list: nothing found (or no spec for this case)."""
    t = line.split()
    op, a = t[0], t[1:]
    if raw is NOVAL or out.startswith("E:") or out.startswith("?"):
        return []
    try:
        if op in MPC_SIG:
            return _canon_monitor(op, raw) + _decide_mpc(op, parse_args(MPC_SIG[op], a), raw)
        if op in MPI_SIG:
            return _canon_monitor(op, raw) + _decide_mpi(op, parse_args(MPI_SIG[op], a), raw, _line_rng(line))
        if op in ("iv_cmp", "iv_eq", "iv_ne", "iv_contains", "iv_convert"):
            return _decide_ctx(op, a, raw, _line_rng(line))
    except MemoryError:
        return []
    return []


def _canon_monitor(op, raw):
    """C01 for the libmpc / libmpi layer: every raw mpf tuple in the result (components of complex numbers, interval endpoints,
    special values included) is one of the canonical encodings"""
    V = []

    def walk(o, path):
        if isinstance(o, (tuple, list)):
            if len(o) == 4 and all(isinstance(x, int) or type(x).__name__ == "mpz" for x in o) and not isinstance(o[0], (tuple, list)):
                t = tuple(int(x) for x in o)
                if not is_canonical(t):
                    V.append(("C01", op + ".noncanonical" + path, "component %r is not a canonical encoding" % (t,)))
            else:
                for i, x in enumerate(o):
                    walk(x, path + "[%d]" % i)
    walk(raw, "")
    return V


def _rok(prec, rnd, x, r):
    return round_ok(prec, rnd, x, r)


def _decide_mpc(op, args, res):
    V = []

    def comp(name, prec, rnd, x, r):
        if not _rok(prec, rnd, x, r):
            V.append(("C04", op + "." + name, "exact=%s got=%s prec=%d rnd=%s" % (_fr(x), enc_mpf(r), prec, rnd)))

    def passthrough(name, prec, x, r):
        # the component is handed through without rounding
        if is_special(r) or val(r) != x or not is_canonical(r):
            V.append(("C04", op + "." + name, "passthrough changed the value"))
        elif prec and r[3] > prec:
            V.append(("C04", op + "." + name + ".unrounded", "component has %d bits at prec %d" % (r[3], prec)))

    if op in ("mpc_add", "mpc_sub", "mpc_mul"):
        z, w, prec, rnd = args
        if not (finite(*z, *w) and small(*z, *w)):
            return V
        a, b, c, d = val(z[0]), val(z[1]), val(w[0]), val(w[1])
        if op == "mpc_add":
            re, im = a + c, b + d
        elif op == "mpc_sub":
            re, im = a - c, b - d
        else:
            re, im = a * c - b * d, a * d + b * c
        comp("re", prec, rnd, re, res[0]); comp("im", prec, rnd, im, res[1])
    elif op in ("mpc_add_mpf", "mpc_sub_mpf", "mpc_mul_mpf", "mpc_mul_imag_mpf"):
        z, x, prec, rnd = args
        if not (finite(*z, x) and small(*z, x)):
            return V
        a, b, p = val(z[0]), val(z[1]), val(x)
        if op == "mpc_add_mpf":
            comp("re", prec, rnd, a + p, res[0]); passthrough("im", prec, b, res[1])
        elif op == "mpc_sub_mpf":
            comp("re", prec, rnd, a - p, res[0]); passthrough("im", prec, b, res[1])
        elif op == "mpc_mul_mpf":
            comp("re", prec, rnd, a * p, res[0]); comp("im", prec, rnd, b * p, res[1])
        else:
            # re = -(round(b*x)) : the rounding is applied before the negation
            comp("re", prec, {"f": "c", "c": "f"}.get(rnd, rnd), -b * p, res[0]); comp("im", prec, rnd, a * p, res[1])
    elif op == "mpc_mul_int":
        z, n, prec, rnd = args
        if not (finite(*z) and small(*z)):
            return V
        comp("re", prec, rnd, val(z[0]) * n, res[0]); comp("im", prec, rnd, val(z[1]) * n, res[1])
    elif op in ("mpc_square", "mpc_pos", "mpc_neg"):
        z, prec, rnd = args
        if not (finite(*z) and small(*z)):
            return V
        a, b = val(z[0]), val(z[1])
        if op == "mpc_square":
            comp("re", prec, rnd, a * a - b * b, res[0]); comp("im", prec, rnd, 2 * a * b, res[1])
        elif op == "mpc_pos":
            comp("re", prec, rnd, a, res[0]); comp("im", prec, rnd, b, res[1])
        else:
            comp("re", prec, rnd, -a, res[0]); comp("im", prec, rnd, -b, res[1])
    elif op == "mpc_pow_int":
        z, n, prec, rnd = args
        if not (finite(*z) and small(*z)) or abs(n) > 4000:
            return V
        bits = max(z[0][3] + abs(z[0][2]), z[1][3] + abs(z[1][2]), 1) * abs(n)
        if bits > 40000:
            return V
        a, b = val(z[0]), val(z[1])
        if n >= 0:
            # "exact result of at most about 10^4 bits"
            ebits = abs(n) * (abs(z[0][2] - z[1][2]) + max(z[0][3], z[1][3])) if (z[0][1] and z[1][1]) else abs(n) * max(z[0][3], z[1][3])
            if ebits >= 10000:
                return V
            re, im = gauss_pow(a, b, n)
            comp("re", prec, rnd, re, res[0]); comp("im", prec, rnd, im, res[1])
            if V and (a == 0 or b == 0):
                # z on an axis: the answer is mpf_pow_int's, possibly negated after rounding
                bc = max(z[0][3], z[1][3])
                flip = {"f": "c", "c": "f"}.get(rnd, rnd)
                if bc * n >= 1000:
                    sub = ".axis.powloop"        # mpf_pow_int outside its exact regime (bc*n >= 1000)
                elif _rok(prec, flip, re, res[0]) and _rok(prec, flip, im, res[1]):
                    sub = ".axis.negflip"        # rounded, then negated: direction of f/c reversed
                else:
                    sub = ".axis.other"
                V[:] = [(p_, c_.replace("mpc_pow_int", "mpc_pow_int" + sub), d_) for (p_, c_, d_) in V]
        else:
            if a == 0 and b == 0:
                return V
            re, im = gauss_pow(a, b, -n)
            m = re * re + im * im
            _tol(V, op, prec, (re / m, -im / m), res, 4)
    elif op in ("mpc_div", "mpc_reciprocal", "mpc_mpf_div", "mpc_div_mpf"):
        if op == "mpc_div":
            z, w, prec, rnd = args
        elif op == "mpc_reciprocal":
            w, prec, rnd = args; z = (impl().L.fone, FZERO)
        elif op == "mpc_mpf_div":
            x, w, prec, rnd = args; z = (x, FZERO)
        else:
            z, x, prec, rnd = args; w = (x, FZERO)
        if not (finite(*z, *w) and small(*z, *w)):
            return V
        a, b, c, d = val(z[0]), val(z[1]), val(w[0]), val(w[1])
        m = c * c + d * d
        if m == 0:
            return V
        exact = ((a * c + b * d) / m, (b * c - a * d) / m)
        if op == "mpc_div_mpf":
            comp("re", prec, rnd, exact[0], res[0]); comp("im", prec, rnd, exact[1], res[1])
        else:
            _tol(V, op, prec, exact, res, 4)
    return V


ULP_STATS = {}


def _tol(V, op, prec, exact, res, k):
    """|res - exact| <= k * 2^(1-prec) * |exact| (in modulus), decided on the squares"""
    if not finite(*res):
        V.append(("C04", op + ".tol", "non-finite result for finite operands: %s" % enc_c(res)))
        return
    er, ei = val(res[0]) - exact[0], val(res[1]) - exact[1]
    e2 = er * er + ei * ei
    m2 = exact[0] * exact[0] + exact[1] * exact[1]
    if m2 == 0:
        if e2 != 0:
            V.append(("C04", op + ".tol", "exact result 0, got %s" % enc_c(res)))
        return
    ulp2 = Fraction(4) / (Fraction(4) ** prec)       # (2^(1-prec))^2
    ratio2 = e2 / (m2 * ulp2)
    # statistic: the largest error in ulps seen (integer ceiling of the square)
    s = ULP_STATS.setdefault(op, [0, 0.0])
    s[0] += 1
    r = float(ratio2) ** 0.5
    if r > s[1]:
        s[1] = r
    if ratio2 > k * k:
        V.append(("C04", op + ".tol", "error %.3f ulp(2^(1-prec)) > %d" % (r, k)))


def _fr(x):
    if isinstance(x, Fraction) and (x.numerator.bit_length() > 180 or x.denominator.bit_length() > 180):
        return "~%.17g" % _approx(x)
    s = str(x)
    return s if len(s) < 60 else s[:28] + "..." + s[-28:]


def _approx(x):
    try:
        return float(x)
    except OverflowError:
        return INF if x > 0 else -INF


def _wellformed(pid, op, J):
    lo, hi = ev(J[0]), ev(J[1])
    if lo is None or hi is None:
        return [(pid, op + ".wellformed", "nan endpoint in %s" % enc_c(J))]
    if not lo <= hi:
        return [(pid, op + ".wellformed", "reversed endpoints in %s" % enc_c(J))]
    return []


REAL_IV_RESULT = {"mpi_add", "mpi_sub", "mpi_mul", "mpi_div", "mpi_mul_mpf", "mpi_div_mpf", "mpi_pos", "mpi_neg", "mpi_abs",
                  "mpi_square", "mpi_shift", "mpi_sqrt", "mpi_pow_int", "mpci_abs"}
CPLX_IV_RESULT = {"mpci_add", "mpci_sub", "mpci_mul", "mpci_div", "mpci_neg", "mpci_pos", "mpci_square", "mpci_pow_int"}


def _decide_mpi(op, args, res, rng):
    V = _decide_mpi0(op, args, res, rng)
    if not V and (op in REAL_IV_RESULT or op in CPLX_IV_RESULT):
        ivs = []
        for a_ in args:
            if isinstance(a_, tuple) and len(a_) == 2 and isinstance(a_[0], tuple):
                ivs += [a_] if len(a_[0]) == 4 else list(a_)
            elif isinstance(a_, tuple) and len(a_) == 4:
                ivs.append((a_, a_))
        if all(valid_iv(I) for I in ivs):
            if op in REAL_IV_RESULT:
                V += _wellformed("C15" if op == "mpci_abs" else "C14", op, res)
            else:
                V += _wellformed("C15", op, res[0]) + _wellformed("C15", op, res[1])
    return V


def _decide_mpi0(op, args, res, rng):
    V = []

    def contain(pid, pt, exact, J, what=""):
        if not inside(exact, J):
            V.append((pid, op + ".contain", "point %s -> exact %s not in %s %s" % (pt, _fr(exact), enc_c(J), what)))

    # ---------------- comparisons (C16)
    if op in ("mpi_lt", "mpi_le", "mpi_gt", "mpi_ge", "mpi_eq", "mpi_ne"):
        s, t = args
        if not (valid_iv(s) and valid_iv(t) and small(*s, *t)):
            return V
        _decide_cmp(V, op[4:], s, (ev(t[0]), ev(t[1])), res, rng, op)
        return V
    # ---------------- real intervals (C14)
    if op in ("mpi_add", "mpi_sub", "mpi_mul", "mpi_div"):
        s, t, prec = args
        if not (valid_iv(s) and valid_iv(t) and small(*s, *t)):
            return V
        for x in samples(rng, s):
            for y in samples(rng, t):
                if op == "mpi_div" and y == 0:
                    continue
                e = {"mpi_add": lambda: x + y, "mpi_sub": lambda: x - y, "mpi_mul": lambda: x * y, "mpi_div": lambda: x / y}[op]()
                contain("C14", (_fr(x), _fr(y)), e, res)
                if V:
                    return V
    elif op in ("mpi_mul_mpf", "mpi_div_mpf"):
        s, t, prec = args
        if not (valid_iv(s) and valid_iv((t, t)) and small(*s, t)):
            return V
        y = ev(t)
        if y in (INF, -INF) or (op == "mpi_div_mpf" and y == 0):
            return V
        for x in samples(rng, s):
            contain("C14", _fr(x), x * y if op == "mpi_mul_mpf" else x / y, res)
    elif op in ("mpi_pos", "mpi_neg", "mpi_abs", "mpi_square"):
        s, prec = args
        if not (valid_iv(s) and small(*s)):
            return V
        for x in samples(rng, s):
            e = {"mpi_pos": x, "mpi_neg": -x, "mpi_abs": abs(x), "mpi_square": x * x}[op]
            contain("C14", _fr(x), e, res)
        if op in ("mpi_abs", "mpi_square") and not V:
            lo = ev(res[0])
            if lo is not None and lo < 0:
                V.append(("C14", op + ".nonneg", "lower endpoint negative: %s" % enc_c(res)))
    elif op == "mpi_shift":
        s, n = args
        if not (valid_iv(s) and small(*s)) or abs(n) > MAXEXP:
            return V
        for x in samples(rng, s):
            contain("C14", _fr(x), x * Fraction(2) ** n, res)
    elif op == "mpi_delta":
        s, prec = args
        if not (valid_iv(s) and small(*s)) or not finite(*s):
            return V
        d = ev(res)
        if d is None or d < val(s[1]) - val(s[0]):
            V.append(("C14", op, "delta %s below the exact width" % enc_mpf(res)))
    elif op == "mpi_sqrt":
        s, prec = args
        if not (valid_iv(s) and small(*s)):
            return V
        lo, hi = ev(res[0]), ev(res[1])
        for x in samples(rng, s):
            if x < 0:
                continue
            if lo is None or hi is None or not (lo <= 0 or lo * lo <= x) or not (hi >= 0 and (hi == INF or hi * hi >= x)):
                V.append(("C14", op + ".contain", "sqrt(%s) not in %s" % (_fr(x), enc_c(res))))
                break
    elif op == "mpi_pow_int":
        s, n, prec = args
        if not (valid_iv(s) and small(*s)) or abs(n) > 3000:
            return V
        mx = max([tt[3] + abs(tt[2]) for tt in s if tt[1]] + [1])
        if mx * abs(n) > 60000:
            return V
        for x in samples(rng, s, k=2):
            if n < 0 and x == 0:
                continue
            if (x.numerator.bit_length() + x.denominator.bit_length()) * abs(n) > 400000:
                continue
            e = x ** n
            contain("C14", _fr(x), e, res, "n=%d" % n)
            if V:
                break
    # ---------------- complex intervals (C15)
    elif op in ("mpci_add", "mpci_sub", "mpci_mul", "mpci_div"):
        X, Y, prec = args
        if not all(valid_iv(I) for I in (*X, *Y)) or not small(*X[0], *X[1], *Y[0], *Y[1]):
            return V
        pa, pb = samples(rng, X[0], 1), samples(rng, X[1], 1)
        pc, pd = samples(rng, Y[0], 1), samples(rng, Y[1], 1)
        for a in pa:
            for b in pb:
                for c in pc:
                    for d in pd:
                        if op == "mpci_add":
                            re, im = a + c, b + d
                        elif op == "mpci_sub":
                            re, im = a - c, b - d
                        elif op == "mpci_mul":
                            re, im = a * c - b * d, a * d + b * c
                        else:
                            m = c * c + d * d
                            if m == 0:
                                continue
                            re, im = (a * c + b * d) / m, (b * c - a * d) / m
                        if not (inside(re, res[0]) and inside(im, res[1])):
                            V.append(("C15", op + ".contain", "point (%s,%s),(%s,%s) -> (%s,%s) not in %s" %
                                      (_fr(a), _fr(b), _fr(c), _fr(d), _fr(re), _fr(im), enc_ci(res))))
                            return V
    elif op in ("mpci_neg", "mpci_pos", "mpci_square", "mpci_abs", "mpci_pow_int"):
        if op == "mpci_pow_int":
            X, n, prec = args
            if abs(n) > 400:
                return V
        else:
            X, prec = args
        if not all(valid_iv(I) for I in X) or not small(*X[0], *X[1]):
            return V
        if op == "mpci_pow_int":
            mx = max([tt[3] + abs(tt[2]) for tt in (*X[0], *X[1]) if tt[1]] + [1])
            if mx * abs(n) > 40000:
                return V
        for a in samples(rng, X[0], 2):
            for b in samples(rng, X[1], 2):
                if op == "mpci_abs":
                    lo, hi = ev(res[0]), ev(res[1])
                    m = a * a + b * b
                    if lo is None or hi is None or not (lo <= 0 or lo * lo <= m) or not (hi >= 0 and (hi == INF or hi * hi >= m)):
                        V.append(("C15", op + ".contain", "|(%s,%s)| not in %s" % (_fr(a), _fr(b), enc_c(res))))
                        return V
                    continue
                if op == "mpci_neg":
                    re, im = -a, -b
                elif op == "mpci_pos":
                    re, im = a, b
                elif op == "mpci_square":
                    re, im = a * a - b * b, 2 * a * b
                else:
                    if (a.numerator.bit_length() + a.denominator.bit_length() + b.numerator.bit_length()
                            + b.denominator.bit_length()) * abs(n) > 300000:
                        continue
                    re, im = gauss_pow(a, b, abs(n))
                    if n < 0:
                        m = re * re + im * im
                        if m == 0:
                            continue
                        re, im = re / m, -im / m
                if not (inside(re, res[0]) and inside(im, res[1])):
                    V.append(("C15", op + ".contain", "point (%s,%s) -> (%s,%s) not in %s" %
                              (_fr(a), _fr(b), _fr(re), _fr(im), enc_ci(res))))
                    return V
    return V


def _decide_cmp(V, rel, s, tv, res, rng, op, pid="C16", tag=""):
    """s: raw interval (valid); tv = (ta, tb): extended-real endpoints of the right operand."""
    sa, sb = ev(s[0]), ev(s[1])
    ta, tb = tv
    if rel in ("eq", "ne"):
        want = (sa == ta and sb == tb)
        if rel == "ne":
            want = not want
        if res is not want:
            V.append((pid, op + tag, "%s: endpoints %s vs (%s,%s): got %r want %r" % (rel, enc_c(s), _fr(ta), _fr(tb), res, want)))
        return
    if rel in ("gt", "ge"):
        sa, sb, ta, tb = ta, tb, sa, sb
        rel = {"gt": "lt", "ge": "le"}[rel]
    if rel == "lt":
        all_hold = sb < ta          # x < y for every x in s, y in t
        none_hold = sa >= tb        # fails for every pair
    else:
        all_hold = sb <= ta
        none_hold = sa > tb
    want = True if all_hold else (False if none_hold else None)
    if res is not want:
        cls = "unsound" if res is not None else "none-but-decidable"
        V.append((pid, op + tag + "." + cls, "%s: got %r want %r" % (rel, res, want)))


def _num_value(toks):
    """exact extended-real value denoted by a number token group -> (value or None for nan, rest)"""
    k = toks[0]
    if k == "int":
        return Fraction(int(toks[1])), toks[2:]
    if k == "mpf":
        return ev(dec_mpf(toks[1])), toks[2:]
    if k == "float":
        m, e = int(toks[1]), int(toks[2])
        return Fraction(m) * Fraction(2) ** e, toks[3:]
    if k == "fspec":
        return ev(dec_mpf(toks[1])), toks[2:]
    raise ValueError(k)


def _arg_value(toks):
    """-> (ta, tb, kind) the exact range denoted by the operand; None components for nan"""
    if toks[0] == "iv":
        t = (dec_mpf(toks[1]), dec_mpf(toks[2]))
        return ev(t[0]), ev(t[1]), "iv"
    if toks[0] == "pair":
        x, rest = _num_value(toks[1:])
        y, rest = _num_value(rest)
        return x, y, "pair"
    x, rest = _num_value(toks)
    return x, x, "num"


def _decide_ctx(op, a, res, rng):
    V = []
    if op == "iv_convert":
        ta, tb, kind = _arg_value(a[1:])
        if ta is None or tb is None:
            if tuple(res) != (FNINF, FINF):
                V.append(("C14", "iv_convert.nan", "nan operand must give the whole line, got %s" % enc_c(res)))
            return V
        lo, hi = ev(res[0]), ev(res[1])
        if lo is None or hi is None or not (lo <= ta and tb <= hi):
            V.append(("C14", "iv_convert.contain", "range (%s,%s) not inside %s" % (_fr(ta), _fr(tb), enc_c(res))))
        return V
    if op == "iv_cmp":
        rel, a = a[0], a[1:]
    elif op == "iv_contains":
        rel = "in"
    else:
        rel = op[3:]
    s = (dec_mpf(a[0]), dec_mpf(a[1]))
    ta, tb, kind = _arg_value(a[3:])
    if not valid_iv(s) or ta is None or tb is None or not (ta <= tb):
        return V
    tag = "" if kind == "iv" else ".number"
    if rel == "in":
        sa, sb = ev(s[0]), ev(s[1])
        want = (sa <= ta and tb <= sb)
        if res is not want:
            V.append(("C16", "iv_contains" + tag, "got %r want %r" % (res, want)))
        return V
    _decide_cmp(V, rel, s, (ta, tb), res, rng, op, tag=tag)
    return V


# ----------------------------------------------------------------------------------------------
# generators
# ----------------------------------------------------------------------------------------------

class CplxIvOps:
    """each gen_<op>(g) returns (request line, thunk, meta)"""

    def __init__(self):
        im = impl()
        self.im, self.L, self.C, self.I = im, im.L, im.C, im.I

    # ------------------------------------------------------------------ complex operands
    def comp(self, g, prec, big=False):
        r = g.r
        k = r.random()
        if k < 0.04:
            return self.L.fzero
        if k < 0.07:
            return g.special()
        if k < 0.25:
            # operand longer than the precision
            nb = prec + r.choice([1, 2, 3, prec, 2 * prec + 1, 50, 3 * prec + 7])
            g.note("operand", "long")
            return self.L.from_man_exp(g.man(nb, prec) * r.choice([1, -1]), g.exp(False))
        return g.finite(prec, big_exp=big and r.random() < 0.15)

    def mpc(self, g, prec, big=False, special_ok=True):
        r = g.r
        k = r.random()
        L = self.L
        if k < 0.08:
            kind, z = "pure_real", (self.comp(g, prec, big), L.fzero)
        elif k < 0.16:
            kind, z = "pure_imag", (L.fzero, self.comp(g, prec, big))
        elif k < 0.19:
            kind, z = "zero", (L.fzero, L.fzero)
        elif k < 0.24 and special_ok:
            sp = g.special()
            other = self.comp(g, prec, big)
            kind, z = "special", ((sp, other) if r.random() < 0.5 else (other, sp))
        elif k < 0.45:
            a = g.finite(prec, allow_zero=False, big_exp=False)
            kind, z = "near_components", (a, g.near(a, prec))
        else:
            kind, z = "general", (self.comp(g, prec, big), self.comp(g, prec, big))
        if not special_ok and not finite(*z):
            z = (g.finite(prec, big_exp=False), g.finite(prec, big_exp=False))
        g.note("mpc_kind", kind)
        return z

    def cancel_pair(self, g, prec):
        """(a+bi), (c+di) with a*c ~ b*d (real part of the product cancels) or a*d ~ -b*c, to many bits"""
        r, L = g.r, self.L
        a = g.finite(prec, allow_zero=False, big_exp=False)
        b = g.finite(prec, allow_zero=False, big_exp=False)
        c = g.finite(prec, allow_zero=False, big_exp=False)
        nb = r.choice([prec, prec + 3, 2 * prec, 3 * prec + 10, 200, max(2, prec - 1)])
        which = r.random() < 0.5
        if which:
            d = L.mpf_div(L.mpf_mul(a, c), b, nb, r.choice(RNDS))              # b*d ~ a*c
        else:
            d = L.mpf_neg(L.mpf_div(L.mpf_mul(b, c), a, nb, r.choice(RNDS)))   # a*d ~ -b*c
        if r.random() < 0.4 and d[1]:
            d = L.from_man_exp((-1) ** d[0] * ((d[1] << 3) + r.choice([-1, 1, 3, -3])), d[2] - 3)
        g.note("mpc_kind", "cancel_re" if which else "cancel_im")
        z, w = (a, b), (c, d)
        if r.random() < 0.5:
            z, w = w, z
        return z, w

    def _prec_rnd(self, g, allow0=False):
        prec = g.prec()
        if allow0 and g.r.random() < 0.15:
            prec = 0
        return prec, g.rnd()

    def _line(self, line):
        return line, (lambda: exec_line(line)), {}

    def _cbin(self, name, g, allow0=True):
        prec, rnd = self._prec_rnd(g, allow0)
        r = g.r
        if r.random() < 0.35:
            z, w = self.cancel_pair(g, prec or 53)
        else:
            z, w = self.mpc(g, prec or 53, big=True), self.mpc(g, prec or 53, big=True)
        if prec == 0:
            es = [t[2] for t in (*z, *w) if t[1]]
            if es and max(es) - min(es) > 10 ** 5:
                prec = 53
        return self._line("%s %s %s %d %s" % (name, enc_c(z), enc_c(w), prec, rnd))

    def gen_mpc_add(self, g): return self._cbin("mpc_add", g)
    def gen_mpc_sub(self, g): return self._cbin("mpc_sub", g)
    def gen_mpc_mul(self, g): return self._cbin("mpc_mul", g)
    def gen_mpc_div(self, g): return self._cbin("mpc_div", g, allow0=False)

    def _cmpf(self, name, g, allow0=True, mpf_first=False):
        prec, rnd = self._prec_rnd(g, allow0)
        z = self.mpc(g, prec or 53, big=True)
        r = g.r
        x = self.comp(g, prec or 53, True) if r.random() < 0.6 or not z[0][1] else g.near(z[0], prec or 53)
        if prec == 0:
            es = [t[2] for t in (*z, x) if t[1]]
            if es and max(es) - min(es) > 10 ** 5:
                prec = 53
        if mpf_first:
            return self._line("%s %s %s %d %s" % (name, enc_mpf(x), enc_c(z), prec, rnd))
        return self._line("%s %s %s %d %s" % (name, enc_c(z), enc_mpf(x), prec, rnd))

    def gen_mpc_add_mpf(self, g): return self._cmpf("mpc_add_mpf", g)
    def gen_mpc_sub_mpf(self, g): return self._cmpf("mpc_sub_mpf", g)
    def gen_mpc_mul_mpf(self, g): return self._cmpf("mpc_mul_mpf", g)
    def gen_mpc_mul_imag_mpf(self, g): return self._cmpf("mpc_mul_imag_mpf", g)
    def gen_mpc_div_mpf(self, g): return self._cmpf("mpc_div_mpf", g, allow0=False)
    def gen_mpc_mpf_div(self, g): return self._cmpf("mpc_mpf_div", g, allow0=False, mpf_first=True)

    def _cun(self, name, g, allow0=True):
        prec, rnd = self._prec_rnd(g, allow0)
        z = self.mpc(g, prec or 53, big=True)
        return self._line("%s %s %d %s" % (name, enc_c(z), prec, rnd))

    def gen_mpc_pos(self, g): return self._cun("mpc_pos", g)
    def gen_mpc_neg(self, g): return self._cun("mpc_neg", g)
    def gen_mpc_conjugate(self, g): return self._cun("mpc_conjugate", g)
    def gen_mpc_reciprocal(self, g): return self._cun("mpc_reciprocal", g, allow0=False)

    def gen_mpc_square(self, g):
        prec, rnd = self._prec_rnd(g, True)
        r = g.r
        if r.random() < 0.35:
            # a^2 ~ b^2
            a = g.finite(prec or 53, allow_zero=False, big_exp=False)
            s, m, e, b_ = a
            k = r.choice([1, 2, prec or 53, 2 * (prec or 53), 70])
            bm = (m << k) + r.choice([-1, 1, 3, -3, 0])
            z = (a, self.L.from_man_exp(bm * r.choice([1, -1]), e - k))
            g.note("mpc_kind", "square_cancel")
        else:
            z = self.mpc(g, prec or 53, big=bool(prec))
        return self._line("mpc_square %s %d %s" % (enc_c(z), prec, rnd))

    def gen_mpc_abs(self, g):
        prec, rnd = self._prec_rnd(g)
        z = self.mpc(g, prec, big=False)
        return self._line("mpc_abs %s %d %s" % (enc_c(z), prec, rnd))

    def _cint(self, name, g):
        prec, rnd = self._prec_rnd(g, True)
        r, L = g.r, self.L

        def one():
            k = r.random()
            if k < 0.06:
                return g.special()
            nb = g.nbits(None)
            m = g.man(nb, None)
            if k < 0.6:
                e = -r.randint(0, nb + 3)
            elif k < 0.75:
                e = -nb - r.choice([0, 1, 2, 5])
            else:
                e = g.exp(big=False)
            return L.from_man_exp(m * r.choice([1, -1]), e)
        return self._line("%s %s %s %d %s" % (name, enc_mpf(one()), enc_mpf(one()), prec, rnd))

    def gen_mpc_floor(self, g): return self._cint("mpc_floor", g)
    def gen_mpc_ceil(self, g): return self._cint("mpc_ceil", g)
    def gen_mpc_nint(self, g): return self._cint("mpc_nint", g)
    def gen_mpc_frac(self, g): return self._cint("mpc_frac", g)

    def gen_mpc_shift(self, g):
        z = self.mpc(g, 53, big=True)
        return self._line("mpc_shift %s %d" % (enc_c(z), g.exp()))

    def _cpred(self, name, g):
        r = g.r
        z = (g.mpf(None, special_p=0.35), g.mpf(None, special_p=0.35))
        if r.random() < 0.1:
            z = (self.L.fzero, self.L.fzero)
        return self._line("%s %s" % (name, enc_c(z)))

    def gen_mpc_is_inf(self, g): return self._cpred("mpc_is_inf", g)
    def gen_mpc_is_infnan(self, g): return self._cpred("mpc_is_infnan", g)
    def gen_mpc_is_nonzero(self, g): return self._cpred("mpc_is_nonzero", g)

    def _smallint(self, g, prec):
        r = g.r
        k = r.random()
        if k < 0.5:
            return r.randint(-40, 40)
        if k < 0.8:
            return r.choice([1, -1]) * r.choice([1023, 1024, 1025, 2 ** 31, 2 ** 64 - 1, 10 ** 9 + 7, 3 ** 40])
        return r.choice([1, -1]) * g.man(g.nbits(prec), prec)

    def gen_mpc_mul_int(self, g):
        prec, rnd = self._prec_rnd(g)
        z = self.mpc(g, prec, big=True)
        return self._line("mpc_mul_int %s %d %d %s" % (enc_c(z), self._smallint(g, prec), prec, rnd))

    def gen_complex_int_pow(self, g):
        r = g.r
        a = r.choice([0, 1, -1, 2, r.randint(-50, 50), g.man(g.r.randint(1, 60), None) * r.choice([1, -1])])
        b = r.choice([0, 1, -1, 2, r.randint(-50, 50), g.man(g.r.randint(1, 60), None) * r.choice([1, -1])])
        n = r.choice([0, 1, 2, 3, 4, 5, 7, 8, 15, 16, 17, r.randint(0, 130)])
        return self._line("complex_int_pow %d %d %d" % (a, b, n))

    def gen_mpc_pow_int(self, g):
        prec, rnd = self._prec_rnd(g)
        r, L = g.r, self.L
        k = r.random()
        n = r.choice([0, 1, 2, 3, -1, -2, -3, 4, 5, 6, 7, 8, 9, 10, 16, 17, 31, 64, 100, -7, r.randint(-300, 300), r.randint(3, 40)])
        if k < 0.12:
            kind = "pure_real"
            z = (g.mpf(prec, special_p=0.1, big_exp=False), L.fzero)
        elif k < 0.24:
            kind = "pure_imag"
            z = (L.fzero, g.mpf(prec, special_p=0.1, big_exp=False))
            n = r.choice([n, 4 * r.randint(-5, 5) + r.randint(0, 3)])
        elif k < 0.30:
            kind = "special"
            z = self.mpc(g, prec, special_ok=True)
        elif k < 0.60:
            # exact_size = n*(|de| + max(abc, bbc)) around 10000
            kind = "threshold"
            n = r.randint(3, 150)
            q = max(2, round(10000 / n) + r.choice([-2, -1, 0, 0, 1, 2]))
            if r.random() < 0.5:
                # hit 9999 / 10000 / 10001 exactly when n divides
                tgt = r.choice([9999, 10000, 10001, 9996, 10004])
                divs = [d for d in range(3, 200) if tgt % d == 0]
                if divs:
                    n = r.choice(divs); q = tgt // n
            mb = r.randint(1, q)
            de = q - mb
            ab, bb = (mb, r.randint(1, mb)) if r.random() < 0.5 else (r.randint(1, mb), mb)
            ea = r.randint(-40, 40)
            eb = ea - de if r.random() < 0.5 else ea + de
            a = L.from_man_exp((g.man(ab, None) | 1) * r.choice([1, -1]), ea)
            b = L.from_man_exp((g.man(bb, None) | 1) * r.choice([1, -1]), eb)
            z = (a, b)
            if r.random() < 0.15:
                n = -n
        else:
            kind = "small"
            nb1, nb2 = r.choice([1, 2, 3, 5, 10, 24, 53]), r.choice([1, 2, 3, 5, 10, 24, 53])
            e = r.randint(-30, 30)
            z = (L.from_man_exp(g.man(nb1, None) * r.choice([1, -1]), e),
                 L.from_man_exp(g.man(nb2, None) * r.choice([1, -1]), e + r.choice([0, 0, 1, -1, 5, -7, 40])))
        mb = max(z[0][3], z[1][3], 1)
        if mb * abs(n) > 3 * 10 ** 5:
            n = 3
        g.note("pow_kind", kind)
        g.note("pow_n", "neg" if n < 0 else ("0-2" if n <= 2 else "pos"))
        return self._line("mpc_pow_int %s %d %d %s" % (enc_c(z), n, prec, rnd))

    def gen_mpc_pow_int_roottie(self, g):
        """pure real / pure imaginary base x with x^n next to a rounding boundary at precision prec,
        long enough (bc*n >= 1000) to leave mpf_pow_int's exact regime"""
        r, L = g.r, self.L
        prec = r.choice([1, 2, 3, 4, 5, 8, 10, 24, 53])
        rnd = g.rnd()
        n = r.choice([3, 4, 5, 6, 7, 9, 10, 12, 17, 20, 33])
        y = (1 << (prec - 1)) | r.getrandbits(prec - 1) if prec > 1 else 1
        y2 = 2 * y + (1 if rnd == "n" else 0)              # boundary: a prec-bit value, or a midpoint
        B = max(1000 // n + 6, prec + 30)
        sh = n * B
        root = _iroot(y2 << sh, n)                         # floor((y2 * 2^(nB))^(1/n))
        root += r.choice([0, 1])
        x = L.from_man_exp(root * r.choice([1, -1]), -B + r.choice([0, 0, 3, -5]) )
        z = (x, L.fzero) if r.random() < 0.5 else (L.fzero, x)
        g.note("pow_kind", "roottie")
        return self._line("mpc_pow_int %s %d %d %s" % (enc_c(z), n, prec, rnd))

    # ------------------------------------------------------------------ interval operands
    def pos_finite(self, g, prec):
        return self.L.mpf_abs(g.finite(prec, allow_zero=False, big_exp=False))

    def mpi(self, g, prec, bad_p=0.03):
        """a real interval: sign configuration x width class, occasionally malformed"""
        r, L = g.r, self.L
        if r.random() < bad_p:
            g.note("mpi_kind", "malformed")
            k = r.random()
            if k < 0.4:
                return (g.special(), g.mpf(prec, big_exp=False))
            if k < 0.7:
                return (g.mpf(prec, big_exp=False), g.special())
            a, b = g.finite(prec, big_exp=False), g.finite(prec, big_exp=False)
            return (a, b)       # possibly reversed
        if r.random() < 0.03:
            g.note("mpi_kind", "point-at-infinity")
            return r.choice([(L.finf, L.finf), (L.fninf, L.fninf)])
        sign = r.choice(["neg", "touch_hi", "touch_lo", "straddle", "pos", "pos", "neg", "straddle", "zero", "whole"])
        width = r.choice(["point", "thin", "wide", "wide", "inf"])
        x = self.pos_finite(g, prec)
        s_, m, e, bc = x
        if width == "point":
            y = x
        elif width == "thin":
            k = r.choice([0, 0, 1, 3, prec, 2 * prec])
            y = L.from_man_exp((m << k) + r.choice([1, 1, 2, 3]), e - k)
        elif width == "wide":
            if r.random() < 0.5:
                y = L.mpf_add(x, self.pos_finite(g, prec))
            else:
                y = L.from_man_exp(g.man(g.nbits(prec), prec), e + bc + r.randint(0, 40))
        else:
            y = L.finf
        g.note("mpi_kind", sign + "/" + width)
        if sign == "pos":
            return (x, y)
        if sign == "neg":
            return (L.mpf_neg(y), L.mpf_neg(x))
        if sign == "touch_lo":
            return (L.fzero, y)
        if sign == "touch_hi":
            return (L.mpf_neg(y), L.fzero)
        if sign == "zero":
            return (L.fzero, L.fzero)
        if sign == "whole":
            return (L.fninf, L.finf)
        # straddle
        lo = L.mpf_neg(y) if (width == "inf" and r.random() < 0.5) else L.mpf_neg(self.pos_finite(g, prec) if r.random() < 0.6 else x)
        hi = y if lo != L.fninf else (x if r.random() < 0.7 else L.finf)
        return (lo, hi)

    def mpi_rel(self, g, s, prec):
        """an interval related to s: touching, nested, overlapping, disjoint, equal"""
        r, L = g.r, self.L
        a, b = s
        if not (finite(a, b)) or r.random() < 0.25:
            g.note("mpi_rel", "independent")
            return self.mpi(g, prec, bad_p=0.0)
        w = self.pos_finite(g, prec)
        w2 = self.pos_finite(g, prec)
        k = r.choice(["touch_right", "touch_left", "nested_in", "nested_out", "overlap", "disjoint_r", "disjoint_l", "equal",
                      "point_a", "point_b", "share_a", "share_b", "ulp_gap"])
        g.note("mpi_rel", k)
        if k == "touch_right":
            return (b, L.mpf_add(b, w))
        if k == "touch_left":
            return (L.mpf_sub(a, w), a)
        if k == "nested_out":
            return (L.mpf_sub(a, w), L.mpf_add(b, w2))
        if k == "nested_in":
            mid = L.mpf_shift(L.mpf_add(a, b), -1)
            q = L.mpf_shift(L.mpf_add(mid, b), -1)
            return (mid, q)
        if k == "overlap":
            mid = L.mpf_shift(L.mpf_add(a, b), -1)
            return (mid, L.mpf_add(b, w))
        if k == "disjoint_r":
            lo = L.mpf_add(b, w)
            return (lo, L.mpf_add(lo, w2) if r.random() < 0.8 else L.finf)
        if k == "disjoint_l":
            hi = L.mpf_sub(a, w)
            return (L.mpf_sub(hi, w2) if r.random() < 0.8 else L.fninf, hi)
        if k == "equal":
            return (a, b)
        if k == "point_a":
            return (a, a)
        if k == "point_b":
            return (b, b)
        if k == "share_a":
            return (a, L.mpf_add(b, w))
        if k == "share_b":
            return (L.mpf_sub(a, w), b)
        # one ulp (at a long mantissa) next to an endpoint
        t = b if r.random() < 0.5 else a
        if not t[1]:
            return (t, t)
        kk = r.choice([0, 1, 10, 60])
        v = L.from_man_exp((-1) ** t[0] * ((t[1] << kk) + r.choice([-1, 1])), t[2] - kk)
        return (v, v) if r.random() < 0.5 else ((v, L.mpf_add(v, w)) if r.random() < 0.5 else (L.mpf_sub(v, w), v))

    def _iprec(self, g, allow0=True):
        prec = g.prec()
        if allow0 and g.r.random() < 0.12:
            prec = 0
        return prec

    def _ibin(self, name, g, allow0=True):
        prec = self._iprec(g, allow0)
        s = self.mpi(g, prec or 53)
        t = self.mpi(g, prec or 53) if g.r.random() < 0.7 else self.mpi_rel(g, s, prec or 53)
        return self._line("%s %s %s %d" % (name, enc_c(s), enc_c(t), prec))

    def gen_mpi_add(self, g): return self._ibin("mpi_add", g)
    def gen_mpi_sub(self, g): return self._ibin("mpi_sub", g)
    def gen_mpi_mul(self, g): return self._ibin("mpi_mul", g)

    def gen_mpi_div(self, g):
        prec = self._iprec(g, False)
        r, L = g.r, self.L
        s = self.mpi(g, prec)
        k = r.random()
        if k < 0.35:
            # denominators containing / touching zero, all shapes
            x, y = self.pos_finite(g, prec), self.pos_finite(g, prec)
            t = r.choice([(L.fzero, x), (L.mpf_neg(x), L.fzero), (L.mpf_neg(x), y), (L.fzero, L.fzero), (L.fzero, L.finf),
                          (L.fninf, L.fzero), (L.fninf, L.finf), (L.fninf, x), (L.mpf_neg(x), L.finf)])
            g.note("div_den", "zero-containing")
        else:
            t = self.mpi(g, prec)
            g.note("div_den", "generic")
        return self._line("mpi_div %s %s %d" % (enc_c(s), enc_c(t), prec))

    def _imf(self, name, g):
        prec = self._iprec(g, False)
        s = self.mpi(g, prec)
        x = g.mpf(prec, special_p=0.08, big_exp=False)
        return self._line("%s %s %s %d" % (name, enc_c(s), enc_mpf(x), prec))

    def gen_mpi_mul_mpf(self, g): return self._imf("mpi_mul_mpf", g)
    def gen_mpi_div_mpf(self, g): return self._imf("mpi_div_mpf", g)

    def _iun(self, name, g, allow0=True):
        prec = self._iprec(g, allow0)
        s = self.mpi(g, prec or 53)
        return self._line("%s %s %d" % (name, enc_c(s), prec))

    def gen_mpi_pos(self, g): return self._iun("mpi_pos", g)
    def gen_mpi_neg(self, g): return self._iun("mpi_neg", g)
    def gen_mpi_abs(self, g): return self._iun("mpi_abs", g)
    def gen_mpi_square(self, g): return self._iun("mpi_square", g)
    def gen_mpi_delta(self, g): return self._iun("mpi_delta", g)
    def gen_mpi_mid(self, g): return self._iun("mpi_mid", g)
    def gen_mpi_sqrt(self, g): return self._iun("mpi_sqrt", g, allow0=False)

    def gen_mpi_shift(self, g):
        s = self.mpi(g, 53)
        return self._line("mpi_shift %s %d" % (enc_c(s), g.exp()))

    def gen_mpf_min_max(self, g):
        xs = [g.mpf(None, special_p=0.12, big_exp=False) for _ in range(4)]
        if g.r.random() < 0.3:
            xs[g.r.randrange(4)] = xs[g.r.randrange(4)]
        return self._line("mpf_min_max " + " ".join(enc_mpf(x) for x in xs))

    def _pow_n(self, g, big=True):
        r = g.r
        n = r.choice([0, 1, 2, 3, -1, -2, -3, 4, 5, 6, 7, 8, 16, 17, 100, 101, -4, -5, r.randint(-60, 60),
                      r.choice([1000, 1001, 255, 256, -1000, -1001, 2 ** 20, 2 ** 20 + 1]) if big else r.randint(3, 40)])
        g.note("pow_n", "neg" if n < 0 else ("0-2" if n <= 2 else ("odd" if n & 1 else "even")))
        return n

    def gen_mpi_pow_int(self, g):
        prec = self._iprec(g, False)
        s = self.mpi(g, prec)
        n = self._pow_n(g)
        mb = max(s[0][3], s[1][3], 1)
        if mb * abs(n) > 3 * 10 ** 5 and abs(n) > 3:
            n = 3 if n > 0 else -3
        return self._line("mpi_pow_int %s %d %d" % (enc_c(s), n, prec))

    def _icmp(self, name, g):
        s = self.mpi(g, 53, bad_p=0.04)
        t = self.mpi_rel(g, s, 53) if g.r.random() < 0.8 else self.mpi(g, 53, bad_p=0.04)
        if g.r.random() < 0.5:
            s, t = t, s
        return self._line("%s %s %s" % (name, enc_c(s), enc_c(t)))

    def gen_mpi_eq(self, g): return self._icmp("mpi_eq", g)
    def gen_mpi_ne(self, g): return self._icmp("mpi_ne", g)
    def gen_mpi_lt(self, g): return self._icmp("mpi_lt", g)
    def gen_mpi_le(self, g): return self._icmp("mpi_le", g)
    def gen_mpi_gt(self, g): return self._icmp("mpi_gt", g)
    def gen_mpi_ge(self, g): return self._icmp("mpi_ge", g)

    # ------------------------------------------------------------------ complex intervals
    def mpci(self, g, prec):
        r = g.r
        k = r.random()
        if k < 0.1:
            return (self.mpi(g, prec, 0.01), (self.L.fzero, self.L.fzero))
        if k < 0.2:
            return ((self.L.fzero, self.L.fzero), self.mpi(g, prec, 0.01))
        return (self.mpi(g, prec, 0.01), self.mpi(g, prec, 0.01))

    def _qbin(self, name, g):
        prec = self._iprec(g, False)
        x, y = self.mpci(g, prec), self.mpci(g, prec)
        return self._line("%s %s %s %d" % (name, enc_ci(x), enc_ci(y), prec))

    def gen_mpci_add(self, g): return self._qbin("mpci_add", g)
    def gen_mpci_sub(self, g): return self._qbin("mpci_sub", g)
    def gen_mpci_mul(self, g): return self._qbin("mpci_mul", g)
    def gen_mpci_div(self, g): return self._qbin("mpci_div", g)

    def _qun(self, name, g, allow0=False):
        prec = self._iprec(g, allow0)
        return self._line("%s %s %d" % (name, enc_ci(self.mpci(g, prec or 53)), prec))

    def gen_mpci_neg(self, g): return self._qun("mpci_neg", g, True)
    def gen_mpci_pos(self, g): return self._qun("mpci_pos", g)
    def gen_mpci_abs(self, g): return self._qun("mpci_abs", g)
    def gen_mpci_square(self, g): return self._qun("mpci_square", g)

    def gen_mpci_pow_int(self, g):
        prec = self._iprec(g, False)
        x = self.mpci(g, prec)
        n = self._pow_n(g, big=False)
        mb = max([t[3] for I in x for t in I] + [1])
        if mb * abs(n) > 30000 and abs(n) > 3:
            n = 3 if n > 0 else -3
        return self._line("mpci_pow_int %s %d %d" % (enc_ci(x), n, prec))

    # ------------------------------------------------------------------ context layer
    def num_tokens(self, g, prec, near=None):
        """a plain number: int / mpf object / float (finite or special)"""
        r, L = g.r, self.L
        k = r.random()
        if near is not None and finite(near) and r.random() < 0.6:
            # a number equal / next to an endpoint
            if k < 0.35 and near[2] >= 0 and near[2] < 200:
                n = L.to_int(near) + r.choice([0, 0, 1, -1])
                g.note("num", "int@endpoint")
                return "int %d" % n
            if k < 0.7:
                g.note("num", "mpf@endpoint")
                return "mpf %s" % enc_mpf(near if r.random() < 0.6 else g.near(near, prec))
            try:
                f = L.to_float(near)
                if f == f and abs(f) != INF:
                    g.note("num", "float@endpoint")
                    return self._float_tok(f)
            except OverflowError:
                pass
        if k < 0.35:
            n = r.choice([0, 1, -1, 2, 3, r.randint(-100, 100), g.man(g.nbits(prec), prec) * r.choice([1, -1])])
            g.note("num", "int")
            return "int %d" % n
        if k < 0.65:
            g.note("num", "mpf")
            return "mpf %s" % enc_mpf(g.mpf(prec, special_p=0.1, big_exp=False))
        if k < 0.72:
            f = r.choice([float("nan"), INF, -INF])
            g.note("num", "float-special")
            return "fspec %s" % enc_mpf(L.from_float(f))
        f = r.choice([0.0, -0.0, 1.0, 0.1, -0.3, 1e300, 5e-324, 2.0 ** -1022, r.random(), r.uniform(-1e6, 1e6),
                      math.ldexp(r.random() - 0.5, r.randint(-200, 200))])
        g.note("num", "float")
        return self._float_tok(f)

    def _float_tok(self, f):
        m, e = math.frexp(f)
        return "float %d %d" % (int(m * (1 << 53)), e - 53)

    def arg_tokens(self, g, s, prec):
        r = g.r
        k = r.random()
        if k < 0.5:
            return "iv " + enc_c(self.mpi_rel(g, s, prec))
        ep = s[0] if r.random() < 0.5 else s[1]
        if k < 0.9:
            return self.num_tokens(g, prec, ep)
        return "pair %s %s" % (self.num_tokens(g, prec, s[0]), self.num_tokens(g, prec, s[1]))

    def _ctx(self, name, g, rel=None):
        prec = g.prec()
        s = self.mpi(g, prec, bad_p=0.02)
        arg = self.arg_tokens(g, s, prec)
        head = name if rel is None else "%s %s" % (name, rel)
        return self._line("%s %s %d %s" % (head, enc_c(s), prec, arg))

    def gen_iv_lt(self, g): return self._ctx("iv_cmp", g, "lt")
    def gen_iv_le(self, g): return self._ctx("iv_cmp", g, "le")
    def gen_iv_gt(self, g): return self._ctx("iv_cmp", g, "gt")
    def gen_iv_ge(self, g): return self._ctx("iv_cmp", g, "ge")
    def gen_iv_eq(self, g): return self._ctx("iv_eq", g)
    def gen_iv_ne(self, g): return self._ctx("iv_ne", g)
    def gen_iv_contains(self, g): return self._ctx("iv_contains", g)

    def gen_iv_convert(self, g):
        prec = g.prec()
        r = g.r
        if r.random() < 0.6:
            arg = self.num_tokens(g, prec)
        else:
            arg = "pair %s %s" % (self.num_tokens(g, prec), self.num_tokens(g, prec))
        return self._line("iv_convert %d %s" % (prec, arg))

    def _ivc(self, name, g):
        s = self.mpci(g, 53)
        r = g.r
        t = (self.mpi_rel(g, s[0], 53), self.mpi_rel(g, s[1], 53)) if r.random() < 0.8 else self.mpci(g, 53)
        if r.random() < 0.15:
            t = s
        return self._line("%s %s %s" % (name, enc_ci(s), enc_ci(t)))

    def gen_ivc_contains(self, g): return self._ivc("ivc_contains", g)
    def gen_ivc_overlap(self, g): return self._ivc("ivc_overlap", g)
    def gen_ivc_eq(self, g): return self._ivc("ivc_eq", g)
    def gen_ivc_ne(self, g): return self._ivc("ivc_ne", g)

    def gen_ivc_eq_real(self, g):
        s = self.mpci(g, 53)
        t = s[0] if g.r.random() < 0.6 else self.mpi_rel(g, s[0], 53)
        return self._line("ivc_eq_real %s %s" % (enc_ci(s), enc_c(t)))

    # ------------------------------------------------------------------ malformed stream
    def gen_malformed(self, g):
        """non-canonical / nonsensical tuples: both sides must still agree (model = code, no spec)"""
        r, L = g.r, self.L

        def weird():
            k = r.random()
            if k < 0.4:
                m = g.man(r.randint(1, 40), None) << r.randint(1, 5)      # even mantissa
                return (r.randint(0, 1), m, r.randint(-20, 20), m.bit_length())
            if k < 0.7:
                return g.special()
            return g.finite(None, big_exp=False)
        op = r.choice(["mpi_add", "mpi_sub", "mpi_mul", "mpi_lt", "mpi_le", "mpi_eq", "mpi_abs", "mpi_neg", "mpi_square",
                       "mpc_add", "mpc_mul", "mpc_is_nonzero", "mpi_div", "mpi_pow_int"])
        if op in ("mpi_lt", "mpi_le", "mpi_eq"):
            return self._line("%s %s %s" % (op, enc_c((weird(), weird())), enc_c((weird(), weird()))))
        if op in ("mpi_abs", "mpi_neg", "mpi_square"):
            return self._line("%s %s %d" % (op, enc_c((weird(), weird())), g.prec()))
        if op == "mpc_is_nonzero":
            return self._line("%s %s" % (op, enc_c((weird(), weird()))))
        if op == "mpi_pow_int":
            return self._line("%s %s %d %d" % (op, enc_c((weird(), weird())), r.randint(-6, 9), g.prec()))
        if op.startswith("mpc"):
            return self._line("%s %s %s %d %s" % (op, enc_c((weird(), weird())), enc_c((weird(), weird())), g.prec(), g.rnd()))
        return self._line("%s %s %s %d" % (op, enc_c((weird(), weird())), enc_c((weird(), weird())), g.prec()))


def _iroot(x, n):
    """floor of the n-th root of the non-negative integer x"""
    if x < 2:
        return x
    r = 1 << ((x.bit_length() + n - 1) // n)
    while True:
        y = ((n - 1) * r + x // r ** (n - 1)) // n
        if y >= r:
            return r
        r = y


COMPLEX_OPS = ["mpc_add", "mpc_sub", "mpc_mul", "mpc_div", "mpc_add_mpf", "mpc_sub_mpf", "mpc_mul_mpf", "mpc_mul_imag_mpf",
               "mpc_div_mpf", "mpc_mpf_div", "mpc_pos", "mpc_neg", "mpc_conjugate", "mpc_reciprocal", "mpc_square", "mpc_abs",
               "mpc_floor", "mpc_ceil", "mpc_nint", "mpc_frac", "mpc_shift", "mpc_is_inf", "mpc_is_infnan", "mpc_is_nonzero",
               "mpc_mul_int", "complex_int_pow", "mpc_pow_int", "mpc_pow_int", "mpc_pow_int_roottie"]
INTERVAL_OPS = ["mpi_add", "mpi_sub", "mpi_mul", "mpi_mul", "mpi_div", "mpi_div", "mpi_mul_mpf", "mpi_div_mpf", "mpi_pos", "mpi_neg",
                "mpi_abs", "mpi_square", "mpi_delta", "mpi_mid", "mpi_sqrt", "mpi_shift", "mpf_min_max", "mpi_pow_int",
                "mpi_pow_int"]
CMP_OPS = ["mpi_eq", "mpi_ne", "mpi_lt", "mpi_le", "mpi_gt", "mpi_ge", "iv_lt", "iv_le", "iv_gt", "iv_ge", "iv_eq", "iv_ne",
           "iv_contains", "iv_convert", "ivc_contains", "ivc_overlap", "ivc_eq", "ivc_ne", "ivc_eq_real"]
CI_OPS = ["mpci_add", "mpci_sub", "mpci_mul", "mpci_div", "mpci_neg", "mpci_pos", "mpci_abs", "mpci_square", "mpci_pow_int"]
ALL_OPS = COMPLEX_OPS + INTERVAL_OPS + CMP_OPS + CI_OPS + ["malformed"]
OPS_BY_PROP = {"C04": COMPLEX_OPS, "C14": INTERVAL_OPS + ["iv_convert", "malformed"], "C15": CI_OPS, "C16": CMP_OPS}


def run_t1(ops, ncases, seed, check_props=True):
    """Generate ncases over `ops`; run the real code and the model; decide the properties.
    Returns (stats, disagreements, violations, gen)."""
    co = CplxIvOps()
    g = Gen(seed)
    lines, impl_out, opnames, viol = [], [], [], []
    decided = {}
    for i in range(ncases):
        op = ops[i % len(ops)]
        line, thunk, meta = getattr(co, "gen_" + op)(g)
        out, raw = call_line(line)
        lines.append(line); impl_out.append(out); opnames.append(op)
        if check_props:
            vs = decide(line, out, raw)
            d = decided.setdefault(line.split(None, 1)[0], [0, 0])
            d[0] += 1
            if vs:
                d[1] += 1
                for v in vs:
                    viol.append({"property": v[0], "class": v[1], "detail": v[2], "line": line, "impl": out})
    model_out = Driver().ask(lines)
    dis = []
    per_op = {}
    for i, (a, b) in enumerate(zip(impl_out, model_out)):
        d = per_op.setdefault(opnames[i], [0, 0])
        d[0] += 1
        if a != b:
            d[1] += 1
            dis.append({"index": i, "op": opnames[i], "line": lines[i], "impl": a, "model": b})
    return {"per_op": per_op, "lines": lines, "impl": impl_out, "decided": decided}, dis, viol, g


def replay(line):
    out, raw = call_line(line)
    model = Driver().ask([line])[0]
    print("line :", line)
    print("impl :", out)
    print("model:", model, "" if model == out else "   <-- DISAGREE")
    for v in decide(line, out, raw):
        print("VIOLATION %s [%s] %s" % v)


if __name__ == "__main__":
    import sys as _s
    if len(_s.argv) > 2 and _s.argv[1] == "--replay":
        replay(_s.argv[2])
        _s.exit(0)
    verbose = "-v" in _s.argv
    argv = [x for x in _s.argv if x != "-v"]
    n = int(argv[1]) if len(argv) > 1 else 20000
    seed = int(argv[2]) if len(argv) > 2 else 0
    ops = argv[3].split(",") if len(argv) > 3 else ALL_OPS
    if len(ops) == 1 and ops[0] in OPS_BY_PROP:
        ops = OPS_BY_PROP[ops[0]]
    t = time.time()
    st, dis, viol, g = run_t1(ops, n, seed)
    print("cases", n, "seed", seed, "disagreements", len(dis), "property-violations", len(viol), "time %.1f" % (time.time() - t))
    for k, v in sorted(st["per_op"].items()):
        if v[1]:
            print("DISAGREE", k, v)
    for d in dis[:15]:
        print(d)
    byclass = {}
    for v in viol:
        byclass.setdefault((v["property"], v["class"]), []).append(v)
    for k, vs in sorted(byclass.items()):
        print("VIOLATION-CLASS %s %s count=%d" % (k[0], k[1], len(vs)))
        for v in vs[:2]:
            print("   ", v["detail"])
            print("    replay: python cplx_iv_ops.py --replay '%s'" % v["line"])
    if verbose:
        print("ulp stats (count, max error in units of 2^(1-prec)|z|):", {k: (v[0], round(v[1], 3)) for k, v in ULP_STATS.items()})
        for k in ("mpc_kind", "mpi_kind", "mpi_rel", "pow_kind", "pow_n", "num", "div_den", "prec", "rnd"):
            if k in g.hist:
                print("hist", k, dict(sorted(g.hist[k].items(), key=lambda kv: -kv[1])[:14]))
