"""API-level part of C04: the public routes to complex +, -, * (operators with mixed operand types under the context rounding
mode; fadd / fsub / fmul with `prec=` / `rounding=` keywords) decided componentwise against correct rounding of the exact
component in exact rational arithmetic.  The glue above libmpc (type dispatch, argument order, negation tricks) is what this
covers; the libmpc functions themselves are tied to the Lean model by the T1 run."""
from fractions import Fraction
import spec
import core_ops
from common import Gen

SITE_F3 = {"+": "libmpc.mpc_add_mpf:mpc_add_mpf.im.unrounded", "-": "libmpc.mpc_sub_mpf:mpc_sub_mpf.im.unrounded"}


def _val(t):
    return spec.val(t)


def run_api(ctx, n):
    from mpmath import mp, libmp as L
    g = Gen(ctx.seed * 104729 + 17)
    r = g.r
    failing, per, decided = [], {}, {"ok": 0, "violates": 0, "known_shape": 0, "skipped": 0}
    saved = (mp.prec, mp._prec_rounding[1])

    def operand(kind, prec):
        """returns (python object, exact (re, im) as Fractions, is_real_type)"""
        def fin(bits=None):
            nb = bits or r.choice([1, 2, 5, 20, prec, prec, prec + 1, prec + 7, 2 * prec + 3, 120])
            return L.from_man_exp(g.man(max(1, nb), None) * r.choice([1, -1]), r.randint(-80, 80))
        if kind == "mpc":
            a, b = fin(), fin()
            if r.random() < 0.15: a = L.fzero
            if r.random() < 0.1: b = L.fzero
            return mp.make_mpc((a, b)), (_val(a), _val(b)), False
        if kind == "mpf":
            a = fin()
            return mp.make_mpf(a), (_val(a), Fraction(0)), True
        if kind == "int":
            k = r.choice([0, 1, -1, 3, -7, 10 ** 6, -(2 ** 70 + 1), r.randint(-10 ** 9, 10 ** 9)])
            return k, (Fraction(k), Fraction(0)), True
        if kind == "float":
            f = r.choice([0.5, -0.1, 3.75, 1e-20, -2.5e30, r.uniform(-10, 10)])
            return f, (Fraction(f), Fraction(0)), True
        f = complex(r.uniform(-4, 4), r.choice([0.0, 1.0, -0.3, r.uniform(-4, 4)]))
        return f, (Fraction(f.real), Fraction(f.imag)), False

    try:
        for i in range(n):
            prec = r.choice([1, 2, 5, 24, 53, 53, 64, 100])
            rnd = g.rnd()
            op = r.choice("+-*")
            route = r.choice(["operator", "ffun", "ffun"])
            ka, kb = r.choice([("mpc", "mpc"), ("mpc", "mpf"), ("mpf", "mpc"), ("mpc", "int"), ("int", "mpc"), ("mpc", "float"),
                               ("float", "mpc"), ("mpc", "complex"), ("mpf", "complex")])
            x, (xr, xi), xreal = operand(ka, prec)
            y, (yr, yi), yreal = operand(kb, prec)
            key = "%s:%s%s%s" % (route, ka, op, kb)
            per[key] = per.get(key, 0) + 1

            def thunk(x=x, y=y, op=op, route=route, prec=prec, rnd=rnd):
                if route == "operator":
                    mp.prec = prec
                    mp._prec_rounding[1] = rnd
                    v = x + y if op == "+" else x - y if op == "-" else x * y
                else:
                    f = {"+": mp.fadd, "-": mp.fsub, "*": mp.fmul}[op]
                    v = f(x, y, prec=prec, rounding=rnd)
                if hasattr(v, "_mpc_"):
                    return tuple(v._mpc_)
                return (v._mpf_, L.fzero)
            try:
                mp.prec, mp._prec_rounding[1] = saved
                out = thunk()
            except Exception as e:  # noqa
                decided["skipped"] += 1
                continue
            finally:
                mp.prec, mp._prec_rounding[1] = saved
            if route == "operator" and not (hasattr(x, "_mpc_") or hasattr(x, "_mpf_") or hasattr(y, "_mpc_") or hasattr(y, "_mpf_")):
                decided["skipped"] += 1
                continue
            if op == "+":
                er, ei = xr + yr, xi + yi
            elif op == "-":
                er, ei = xr - yr, xi - yi
            else:
                er, ei = xr * yr - xi * yi, xr * yi + xi * yr
            re, im = out
            if spec.is_special(re) or spec.is_special(im):
                decided["skipped"] += 1
                continue
            bad = []
            for name, got, exact in (("re", re, er), ("im", im, ei)):
                want = spec.round_ref(prec, rnd, exact)
                if Fraction(want[0]) * spec._pow2(want[1]) != _val(got) or not spec.is_canonical(got):
                    bad.append((name, got, exact))
            if not bad:
                decided["ok"] += 1
                continue
            inp = {"route": route, "op": op, "types": [ka, kb], "prec": prec, "rnd": rnd, "x": repr(x), "y": repr(y),
                   "result": [list(map(str, re)), list(map(str, im))]}
            # the recorded shape F3: complex +- real passes the imaginary part of the complex operand through unrounded
            if op in "+-" and len(bad) == 1 and bad[0][0] == "im" and (xreal != yreal) and (op == "+" or yreal) \
                    and _val(im) == ei:
                decided["known_shape"] += 1
                failing.append({"site": SITE_F3[op], "what": "api %s: imaginary part returned unrounded (%d bits at precision %d)" %
                                (key, im[3], prec), "input": inp})
                continue
            decided["violates"] += 1
            name, got, exact = bad[0]
            failing.append({"site": "api.complex." + key, "what": "%s: %s part %r is not the correctly rounded value of the exact component "
                            "(prec=%d rnd=%s)" % (key, name, tuple(got), prec, rnd), "input": inp})
    finally:
        mp.prec, mp._prec_rounding[1] = saved
    return {"cases": n, "per_route_and_types": per, "decided": decided}, failing
