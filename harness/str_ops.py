"""T1 correspondence for the decimal string conversions (properties C07, C08).

Model side: MpModel/Str.lean through the driver ops of MpModel/DrvStr.lean.
Real side : str_to_man_exp / from_str / to_digits_exp / to_str / repr_dps / prec_to_dps / dps_to_prec raw,
            and through mpf('...'), mpmathify, nstr, str, repr.

  python str_ops.py [ncases] [seed] [op,op,...]     T1 run, prints the number of disagreements
  python str_ops.py floats                           exhaustive check of the binary64-modelled maps
  python str_ops.py laws [ncases] [seed]             API-level laws (eval(repr(x)) == x, float()/Decimal parse)
  python str_ops.py findings                         replay of the known falsities (D4, D5, ...)
"""
from common import *  # noqa
import math
from fractions import Fraction


def enc_str(s):
    return ",".join(str(ord(c)) for c in s) if s else "-"


def _lib():
    import_repo()
    import mpmath.libmp.libmpf as L
    return L


def call(thunk, enc=enc_result):
    try:
        return enc(thunk())
    except RecursionError:
        raise
    except Exception as e:  # noqa
        return enc_exc(e)


def enc_digits(t):
    return "T:%s,%s,%d" % t


def enc_S(s):
    return "S:" + s


def exact_decimal(m, e):
    """decimal expansion of m*2**e (m > 0) as (digits:int, dexp) with value = digits * 10**dexp"""
    if e >= 0:
        return m << e, 0
    return m * 5 ** (-e), e


def dec_literal(d, dexp, style, r):
    """write the decimal number d*10**dexp (d >= 0) as a literal in one of several layouts"""
    s = str(d)
    if style == "sci":
        # d.ddd e k
        k = dexp + len(s) - 1
        body = s[0] + ("." + s[1:] if len(s) > 1 else "")
        return body + "e" + str(k)
    if style == "int_e":
        return s + "e" + str(dexp)
    # fixed
    if dexp >= 0:
        return s + "0" * dexp
    k = -dexp
    if k >= len(s):
        return "0." + "0" * (k - len(s)) + s
    return s[:-k] + "." + s[-k:]


class StrOps:
    BIGEXPS = [-401, -400, 400, 401, -1000, 1000, -10 ** 6, 10 ** 6]

    def __init__(self):
        self.L = _lib()
        import mpmath
        import mpmath.libmp.libelefun as LE
        self.LE = LE
        self.mp = mpmath.mp
        self.mpmath = mpmath

    # ----- literal generators ------------------------------------------------------------
    def digits(self, g, n, kind=None):
        r = g.r
        kind = kind or r.choice(["random", "random", "nines", "zeros1", "one0", "alt"])
        if kind == "random":
            return "".join(r.choice("0123456789") for _ in range(n))
        if kind == "nines":
            return "9" * n
        if kind == "zeros1":
            return "0" * (n - 1) + "1"
        if kind == "one0":
            return "1" + "0" * (n - 1)
        return ("5" + "0" * n)[:n]

    def ndig(self, g):
        r = g.r
        k = r.random()
        if k < 0.5:
            return r.randint(1, 25)
        if k < 0.8:
            return r.randint(1, 450)
        return r.randint(400, 2000)

    def exp_part(self, g):
        r = g.r
        k = r.random()
        if k < 0.35:
            g.note("lit_exp", "none")
            return ""
        if k < 0.65:
            e = r.randint(-30, 30)
            g.note("lit_exp", "small")
        elif k < 0.85:
            e = r.choice(self.BIGEXPS) + r.choice([0, 0, 0, -1, 1])
            g.note("lit_exp", "boundary")
        else:
            e = r.randint(-3000, 3000)
            g.note("lit_exp", "mid")
        sg = "" if e >= 0 and r.random() < 0.5 else ("+" if e >= 0 else "")
        es = str(e) if e < 0 else sg + str(e)
        if r.random() < 0.1:
            es = es[0] + "00" + es[1:] if es[0] in "+-" else "00" + es
        return r.choice("eeeE") + es

    def decorate(self, g, lit, ws=True):
        r = g.r
        if r.random() < 0.1:
            lit += r.choice(["l", "L", "ll"])
            g.note("lit_deco", "l")
        if ws and r.random() < 0.15:
            lit = r.choice(["", " ", "\t", "\n ", "\x1c"]) + lit + r.choice(["", " ", "\n", " \t", "\x1f"])
            g.note("lit_deco", "ws")
        return lit

    def valid_literal(self, g, ws=True):
        r = g.r
        k = r.random()
        sign = r.choice(["", "", "-", "+"])
        if k < 0.02:
            g.note("lit_kind", "repaired-fixed")
            return r.choice(self.REPAIRED)
        if k < 0.08:
            g.note("lit_kind", "special")
            s = r.choice(["inf", "+inf", "-inf", "nan", "INF", "NaN", "-Inf", "+INF"])
            return self.decorate(g, s, ws) if r.random() < 0.3 else s
        if k < 0.16:
            g.note("lit_kind", "p/q")
            p = self.digits(g, r.randint(1, 40), "random")
            q = self.digits(g, r.randint(1, 40), "random")
            if r.random() < 0.9:
                q = q.lstrip("0") or "7"
            s = sign + p + "/" + r.choice(["", "-", "+"]) + q
            if r.random() < 0.1:
                s += "l"
            return s
        if k < 0.30:
            g.note("lit_kind", "tie")
            return self.decorate(g, self.tie_literal(g), ws)
        if k < 0.33:
            # no digit before the point and only zeros after it (repaired in 59f8b17), with and without separators
            g.note("lit_kind", "dot-zero")
            z = "0" * r.randint(1, 6)
            if r.random() < 0.3 and len(z) > 1:
                z = z[0] + "_" + z[1:]
            body = r.choice(["." + z, "." + z, "0." + z, "0_0." + z, "00."])
            return self.decorate(g, sign + body + self.exp_part(g), ws)
        if k < 0.40:
            g.note("lit_kind", "underscore")
            a = "_".join(self.digits(g, r.randint(1, 4), "random") for _ in range(r.randint(1, 3)))
            b = "_".join(self.digits(g, r.randint(1, 4), "random") for _ in range(r.randint(1, 3)))
            body = r.choice([a, a + ".", a + "." + b, "." + b])
            e = self.exp_part(g)
            if e and r.random() < 0.3 and len(e) > 3:
                e = e[:-1] + "_" + e[-1]
            return sign + body + e
        # plain decimal
        g.note("lit_kind", "plain")
        n = self.ndig(g)
        ni = r.choice([0, n, r.randint(0, n), 1])
        ni = min(ni, n)
        ip = self.digits(g, ni) if ni else ""
        fp = self.digits(g, n - ni) if n - ni else ""
        if r.random() < 0.3:
            ip = "0" * r.randint(1, 5) + ip
        if r.random() < 0.3 and fp:
            fp = fp + "0" * r.randint(1, 5)
        if fp or r.random() < 0.2:
            body = ip + "." + fp
        else:
            body = ip
        if body in ("", "."):
            body = "0."
        return self.decorate(g, sign + body + self.exp_part(g), ws)

    def tie_literal(self, g):
        """exact decimal expansion of a (prec+1)-bit midpoint or a prec-bit value, optionally moved by one unit in its
        last decimal place (the shapes on which the rounding branches differ)"""
        r = g.r
        if r.random() < 0.4:
            return self.scaled_tie_literal(g)
        prec = r.choice([1, 2, 5, 24, 53, 64, 100])
        nb = prec + r.choice([0, 1, 1, 2])
        m = g.man(nb, prec) | r.choice([0, 1])
        e = r.choice([0, -1, -3, -nb, -nb - 5, 5, 20, -60, -200, -399, -400, -401, -420, -1300, -1400, r.randint(-500, 100)])
        d, dexp = exact_decimal(m, e)
        d = d + r.choice([0, 0, 1, -1])
        if d <= 0:
            d = 1
        lit = dec_literal(d, dexp, r.choice(["fixed", "fixed", "sci", "int_e"]), r)
        self._tie_prec = prec
        return r.choice(["", "-"]) + lit

    def scaled_tie_literal(self, g):
        """d e E with E at the branch boundary of from_str and d*10**E within about 10**-nd (relative) of a
        (prec+1)-bit midpoint or a prec-bit number: separates the exact branch from the prec+10-bit approximate one"""
        r = g.r
        prec = r.choice([5, 24, 53, 64])
        E = r.choice([399, 400, 401, -399, -400, -401, 1000, -1000])
        nd = r.choice([25, 40, 60])
        nb = prec + r.choice([0, 1, 1])
        m = g.man(nb, prec) | 1
        # choose the binary exponent so that m*2**e2 / 10**E has nd digits
        target_bits = int((nd + E) * 3.3219280948873626)
        e2 = target_bits - nb
        num, den = (m << e2, 1) if e2 >= 0 else (m, 1 << -e2)
        if E >= 0:
            den *= 10 ** E
        else:
            num *= 10 ** -E
        d = num // den + r.choice([0, 0, 1, 1, -1, 2])
        if d <= 0:
            d = 1
        self._tie_prec = prec
        g.note("lit_kind", "scaled-tie")
        return r.choice(["", "-"]) + str(d) + "e" + str(E)

    # literals that were rejected or mis-read before the repairs ad5f351 / 59f8b17 (now ordinary valid cases)
    REPAIRED = ["1.5_0", ".0", "-.0", "+.0", ".0e5", ".00e-3", "1.0_1", "1_0.0_1", "0_0", "-.0_0e1_0", "1_2.3_4e-5_6", ".0l", " .0 "]

    MALFORMED = ["", ".", "e5", "1e", "1e+", "1..2", "1.2.3", "1e5e5", "--1", "+-1", "1_", "_1", "1__0", "1 2", "abc", "0x10",
                 "1/2/3", "1/", "/2", "1/0", "0/0", "infinity", "-nan", "+nan", "1,5", "1e1.5",
                 "1._5", "1_.5", "1e_5", "l", "1el", "in f", "1.5/2", "1/2.5", "1e3/2", "1\x005", "1.5 5",
                 "1.5\x1c", "\x1c1.5", "- 1", "1 e5", "1e 5", "1 /2", "1/ 2", "1d5", "nan/1", "-0", "1" * 4300, "1" * 4301,
                 "0" * 4301, "1." + "3" * 4300, "1e" + "0" * 4301 + "5"]

    def malformed_literal(self, g):
        r = g.r
        if r.random() < 0.4:
            g.note("lit_kind", "malformed-fixed")
            return r.choice(self.MALFORMED)
        g.note("lit_kind", "malformed-mutated")
        s = self.valid_literal(g)
        if len(s) > 60:
            s = s[:30] + s[-30:]
        alphabet = "0123456789.eE+-_l /infa\t"
        for _ in range(r.randint(1, 2)):
            k = r.random()
            i = r.randint(0, len(s))
            if k < 0.4:
                s = s[:i] + r.choice(alphabet) + s[i:]
            elif k < 0.7 and s:
                i = min(i, len(s) - 1)
                s = s[:i] + s[i + 1:]
            elif s:
                i = min(i, len(s) - 1)
                s = s[:i] + r.choice(alphabet) + s[i + 1:]
        return s

    def literal(self, g, ws=True):
        if g.r.random() < 0.2:
            return self.malformed_literal(g)
        return self.valid_literal(g, ws)

    def lit_prec(self, g):
        p = getattr(self, "_tie_prec", None)
        self._tie_prec = None
        if p is not None and g.r.random() < 0.8:
            return p
        return g.prec()

    # ----- C07 ops -------------------------------------------------------------------------
    def gen_str_to_man_exp(self, g):
        lit = self.literal(g)
        self._tie_prec = None
        return "str_to_man_exp " + enc_str(lit), (lambda: tuple(int(v) for v in self.L.str_to_man_exp(lit))), {"lit": lit}

    def gen_from_str(self, g):
        lit = self.literal(g)
        prec = self.lit_prec(g)
        rnd = g.rnd()
        return "from_str %s %d %s" % (enc_str(lit), prec, rnd), (lambda: self.L.from_str(lit, prec, rnd)), {"lit": lit}

    def gen_mpf_ctor(self, g):
        """mpf('...') at context precision / with prec=, rounding= keywords"""
        lit = self.literal(g)
        prec = self.lit_prec(g)
        mp = self.mp
        if g.r.random() < 0.5:
            rnd = "n"

            def thunk():
                old = mp.prec
                try:
                    mp.prec = prec
                    return mp.mpf(lit)._mpf_
                finally:
                    mp.prec = old
        else:
            rnd = g.rnd()

            def thunk():
                return mp.mpf(lit, prec=prec, rounding=rnd)._mpf_
        return "from_str %s %d %s" % (enc_str(lit), prec, rnd), thunk, {"lit": lit}

    def gen_mpmathify(self, g):
        lit = self.literal(g)
        while "j" in lit.lower():
            lit = self.literal(g)
        prec = self.lit_prec(g)
        mp = self.mp

        def thunk():
            old = mp.prec
            try:
                mp.prec = prec
                try:
                    return mp.mpmathify(lit)._mpf_
                except TypeError as e:
                    # convert() swallows the ValueError of from_str and ends in _convert_fallback
                    if "cannot create mpf" in str(e):
                        raise ValueError(str(e))
                    raise
            finally:
                mp.prec = old
        return "from_str %s %d n" % (enc_str(lit), prec), thunk, {"lit": lit}

    # ----- C08 ops -------------------------------------------------------------------------
    def lnargs(self, s):
        """the two constants read by to_digits_exp on its huge-exponent path (for the value after sign removal)"""
        sign, man, exp, bc = s
        if man and abs(exp + bc) > 3500:
            expprec = self.L.bitcount(abs(exp)) + 5
            return " %s %s" % (enc_mpf(self.LE.mpf_ln2(expprec)), enc_mpf(self.LE.mpf_ln10(expprec)))
        return ""

    def dps(self, g):
        r = g.r
        k = r.random()
        if k < 0.05:
            d = 0
        elif k < 0.45:
            d = r.choice([1, 2, 3, 5, 6, 14, 15, 16, 17, 18, 20])
        elif k < 0.85:
            d = r.randint(1, 70)
        elif k < 0.97:
            d = r.randint(70, 600)
        else:
            d = r.randint(600, 2500)
        g.note("dps", "0" if d == 0 else "<=20" if d <= 20 else "<=70" if d <= 70 else "<=600" if d <= 600 else ">600")
        return d

    def print_value(self, g, dps):
        """a raw mpf to print: generic, decimal-boundary neighbours, all-nines, exact decimals, exponent-path boundaries"""
        L = self.L
        r = g.r
        k = r.random()
        if k < 0.06:
            g.note("pv", "special")
            return g.special()
        if k < 0.30:
            g.note("pv", "generic")
            return g.finite(r.choice([None, 53, 100]), big_exp=True)
        if k < 0.55:
            # neighbours of a decimal rounding boundary  (d + 1/2) * 10**k  at n = dps digits, with Lb bits
            g.note("pv", "dec-boundary")
            n = max(dps, 1)
            d = r.choice([10 ** (n - 1), 10 ** n - 1, r.randint(10 ** (n - 1), 10 ** n - 1)])
            kk = r.choice([-n, -n - 1, -n + 1, 0, -n - 8, 3, r.randint(-40, 40), r.randint(-400, 400)])
            b = Fraction(2 * d + r.choice([1, 1, 1, 0, 2]), 2) * Fraction(10) ** kk
            Lb = r.choice([10, 24, 53, 54, 100, 200, 1000, int(dps * 3.33) + r.choice([5, 9, 10, 11, 12, 13, 14, 20])])
            # Lb-bit floor of b, then step
            e = (b.numerator.bit_length() - b.denominator.bit_length()) - Lb - 1
            m = (b.numerator << -e) // b.denominator if e < 0 else b.numerator // (b.denominator << e)
            while m.bit_length() > Lb:
                m >>= 1
                e += 1
            m += r.choice([0, 0, 1, 1, -1, 2])
            if m <= 0:
                m = 1
            return L.from_man_exp(m if r.random() < 0.7 else -m, e)
        if k < 0.70:
            g.note("pv", "exact-decimal")
            d = r.choice([1, 5, 25, 125, 999, 15, 95, 995, 10 ** r.randint(0, 30) - 1, r.randint(1, 10 ** 6)])
            e = r.randint(-40, 60)
            return L.from_man_exp(d * 5 ** max(e, 0) if e >= 0 else d, e if e >= 0 else e)
        if k < 0.85:
            # magnitude exp+bc around the +-3500 switch, and huge
            g.note("pv", "exp-boundary")
            nb = g.nbits(53)
            m = g.man(nb, 53)
            tgt = r.choice([3499, 3500, 3501, 3502, -3499, -3500, -3501, -3502, 5000, -5000, 10 ** 5, -10 ** 5,
                            10 ** 9, -10 ** 9, 10 ** 18, -10 ** 18])
            return L.from_man_exp(m if r.random() < 0.7 else -m, tgt - nb)
        g.note("pv", "int-like")
        return L.from_int(r.choice([1, -1, 10, 100, 99, 999999, 10 ** 15, 10 ** 15 - 1, 10 ** 16, 123456789, 2 ** 70,
                                    10 ** r.randint(0, 40), 10 ** r.randint(0, 40) - 1, 10 ** r.randint(0, 40) + 1]))

    def gen_to_digits_exp(self, g):
        dps = max(self.dps(g), 1) if g.r.random() < 0.95 else 0
        s = self.print_value(g, dps)
        sn = self.L.mpf_neg(s) if s[0] else s
        return ("to_digits_exp %s %d%s" % (enc_mpf(s), dps, self.lnargs(sn)),
                (lambda: self.L.to_digits_exp(s, dps)), {"enc": enc_digits})

    def fmt_opts(self, g, s, dps):
        r = g.r
        strip = r.random() < 0.6
        showz = r.random() < 0.25
        small = s[1] and abs(s[2] + s[3]) < 3000

        def bound():
            k = r.random()
            if k < 0.5:
                return None, "-"
            if k < 0.6 and small:
                return float("-inf"), "ninf"
            if k < 0.7 and small:
                return float("inf"), "pinf"
            v = r.choice([0, -1, 1, -5, 5, dps, -dps, dps + 1, r.randint(-30, 30)])
            if small and r.random() < 0.2:
                v = r.choice([-1, 1]) * r.randint(30, 1200)
            return v, str(v)
        mn, mns = bound()
        mx, mxs = bound()
        kw = dict(strip_zeros=strip, show_zero_exponent=showz)
        if mn is not None:
            kw["min_fixed"] = mn
        if mx is not None:
            kw["max_fixed"] = mx
        g.note("fmt", "%s%s%s%s" % ("S" if strip else "s", "Z" if showz else "z",
                                      "-" if mn is None else "m", "-" if mx is None else "M"))
        return kw, "%d %s %s %d" % (int(strip), mns, mxs, int(showz))

    def gen_to_str(self, g):
        dps = self.dps(g)
        s = self.print_value(g, dps)
        kw, tail = self.fmt_opts(g, s, dps)
        sn = self.L.mpf_neg(s) if s[0] else s
        return ("to_str %s %d %s%s" % (enc_mpf(s), dps, tail, self.lnargs(sn)),
                (lambda: self.L.to_str(s, dps, **kw)), {"enc": enc_S})

    def gen_nstr(self, g):
        dps = self.dps(g)
        s = self.print_value(g, dps)
        kw, tail = self.fmt_opts(g, s, dps)
        sn = self.L.mpf_neg(s) if s[0] else s
        mp = self.mp
        return ("to_str %s %d %s%s" % (enc_mpf(s), dps, tail, self.lnargs(sn)),
                (lambda: mp.nstr(mp.make_mpf(s), dps, **kw)), {"enc": enc_S})

    def ctx_value(self, g, prec):
        """a value as the context would hold it at precision prec"""
        s = self.print_value(g, self.L.prec_to_dps(prec))
        if s[1]:
            s = self.L.mpf_pos(s, prec, "n")
        return s

    def gen_str(self, g):
        """str(x) = to_str(x, mp.dps); precision set through mp.prec or mp.dps"""
        mp = self.mp
        L = self.L
        via_dps = g.r.random() < 0.5
        if via_dps:
            d = max(1, self.dps(g))
            prec, dps = L.dps_to_prec(d), d
        else:
            prec = g.prec()
            dps = L.prec_to_dps(prec)
        s = self.ctx_value(g, prec)

        def thunk():
            old = mp.prec
            try:
                if via_dps:
                    mp.dps = d
                else:
                    mp.prec = prec
                assert mp.prec == prec
                return str(mp.make_mpf(s))
            finally:
                mp.prec = old
        return "to_str %s %d 1 - - 0%s" % (enc_mpf(s), dps, self.lnargs(s if not s[0] else L.mpf_neg(s))), thunk, {"enc": enc_S}

    def gen_repr(self, g):
        """repr(x) = "mpf('" + to_str(x, repr_dps(prec)) + "')" """
        mp = self.mp
        L = self.L
        prec = g.prec()
        s = self.ctx_value(g, prec)
        dps = L.repr_dps(prec)

        def thunk():
            old = mp.prec
            try:
                mp.prec = prec
                t = repr(mp.make_mpf(s))
                assert t.startswith("mpf('") and t.endswith("')")
                return t[5:-2]
            finally:
                mp.prec = old
        return "to_str %s %d 1 - - 0%s" % (enc_mpf(s), dps, self.lnargs(s if not s[0] else L.mpf_neg(s))), thunk, {"enc": enc_S}

    def gen_mpc_str(self, g):
        """mpc_to_str(z, dps, **kw) = to_str(re, dps) ± to_str(|im|, dps, **kw) j : checked on the two parts"""
        import mpmath.libmp.libmpc as LC
        dps = max(1, self.dps(g))
        re = self.print_value(g, dps)
        im = self.print_value(g, dps)
        kw, tail = self.fmt_opts(g, im, dps)
        L = self.L
        imn = L.mpf_neg(im) if im[0] else im
        line = ("mpc_to_str %s %d %s %s%s" % (enc_mpf(re), dps, enc_mpf(im), tail, ""))
        # the driver has no mpc op: ask two to_str lines, joined by the harness (see run_t1)
        l1 = "to_str %s %d 1 - - 0%s" % (enc_mpf(re), dps, self.lnargs(L.mpf_neg(re) if re[0] else re))
        l2 = "to_str %s %d %s%s" % (enc_mpf(imn), dps, tail, self.lnargs(imn))
        return [l1, l2, " - " if im[0] else " + "], (lambda: LC.mpc_to_str((re, im), dps, **kw)), {"enc": enc_S, "mpc": True}

    # ----- intervals from strings (libmpi.mpi_from_str, ctx_iv) ---------------------------------
    IV_MALFORMED = ["", "(1,2)", "1 +- 2%", "1 +- -1", "1 (2) (3)", "1+-2+-3", "[1,2,3]", "1[2,3", "x[1,2]", "1 (nan)",
                    "1%(2)", "1.2[3,4]E5", "[1, 2", "1, 2]", "1,2", "[,]", "[1,]", "1 ()", "1 (%)", "+-", "1 +-", "+- 1", "1 (2",
                    "1 2)", "1.2[3,4]e5]", "1.2[3,4,5]e5", "1[2]", "[[1,2]]", "1 (-5%)", "nan", "[nan, 1]", "[inf, -inf]",
                    "1 (inf)", "inf (5%)", "[2,1]", "1.2[4,3]e5", "[1, 2]e3", "1 ( 5 % )", "(1)", "1 (5%%)", "1% (5)"]

    def num_lit(self, g, nonneg=False):
        r = g.r
        while True:
            lit = self.valid_literal(g, ws=False)
            self._tie_prec = None
            if len(lit) > 500 or "/" in lit:
                continue
            if nonneg and lit.startswith("-") and r.random() < 0.9:
                lit = lit[1:]
            return lit

    def iv_string(self, g):
        """an interval string; self._iv_parts = (form, literal pieces) for the well-formed forms, else None"""
        r = g.r
        k = r.random()
        sp = lambda: r.choice(["", "", " ", "  "])
        self._iv_parts = None
        if k < 0.12:
            g.note("iv_form", "malformed")
            if r.random() < 0.6:
                return r.choice(self.IV_MALFORMED)
            s = self.iv_string(g)
            self._iv_parts = None
            i = r.randint(0, len(s))
            return s[:i] + r.choice("+-()[],%e ]1") + s[i + r.choice([0, 1]):]
        if k < 0.30:
            g.note("iv_form", "a+-b")
            a, b = self.num_lit(g), self.num_lit(g, True)
            self._iv_parts = ("pm", a, b)
            return a + sp() + "+-" + sp() + b
        if k < 0.50:
            g.note("iv_form", "a(b)")
            pc = r.choice(["", "%", "%", " %"])
            a, b = self.num_lit(g), self.num_lit(g, True)
            self._iv_parts = ("pct" if pc else "pm", a, b)
            return a + sp() + "(" + sp() + b + pc + sp() + ")"
        if k < 0.68:
            g.note("iv_form", "[a,b]")
            a, b = self.num_lit(g), self.num_lit(g)
            self._iv_parts = ("ab", a, b)
            return "[" + sp() + a + sp() + "," + sp() + b + sp() + "]"
        if k < 0.86:
            g.note("iv_form", "x[y,z]e")
            x = r.choice(["", "-", "+"]) + self.digits(g, r.randint(0, 30), "random")
            if r.random() < 0.7:
                x += "." + self.digits(g, r.randint(0, 30), "random")
            y = self.digits(g, r.randint(1, 5), "random")
            z = self.digits(g, r.randint(1, 5), "random")
            e = r.choice(["", "", "e5", "e-7", "e+400", "e-401", "E5", "e" + str(r.randint(-500, 500))])
            # with no shared digits the string starts with '[' and the code reads it as form 3: [y, z e]
            self._iv_parts = ("ab", x + y + e, x + z + e) if x else ("ab", y, z + e)
            return x + "[" + y + sp() + "," + sp() + z + "]" + e
        g.note("iv_form", "plain")
        a = self.num_lit(g)
        self._iv_parts = ("ab", a, a)
        return a

    def gen_mpi_from_str(self, g):
        import mpmath.libmp.libmpi as LI
        s = self.iv_string(g)
        prec = g.prec()
        return ("mpi_from_str %s %d" % (enc_str(s), prec), (lambda: LI.mpi_from_str(s, prec)),
                {"lit": s, "parts": self._iv_parts, "prec": prec})

    def gen_iv_mpf_str(self, g):
        """iv.mpf('...') at iv.prec"""
        iv = self.mpmath.iv
        s = self.iv_string(g)
        prec = g.prec()

        def thunk():
            old = iv.prec
            try:
                iv.prec = prec
                return iv.mpf(s)._mpi_
            finally:
                iv.prec = old
        return "mpi_from_str %s %d" % (enc_str(s), prec), thunk, {"lit": s}

    def gen_iv_mpf_pair(self, g):
        """iv.mpf(('a', 'b')): convert_mpf_ with floor / ceiling, nan handling, ordering assert"""
        iv = self.mpmath.iv
        r = g.r
        a = self.num_lit(g) if r.random() < 0.85 else r.choice(["nan", "inf", "-inf", "abc", ""])
        b = self.num_lit(g) if r.random() < 0.85 else r.choice(["nan", "inf", "-inf", "1e", " 2 "])
        if r.random() < 0.3:
            b = a
        prec = g.prec()

        def thunk():
            old = iv.prec
            try:
                iv.prec = prec
                return iv.mpf((a, b))._mpi_
            finally:
                iv.prec = old
        return "iv_convert_str_pair %s %s %d" % (enc_str(a), enc_str(b), prec), thunk, {"lit": a + "|" + b}

    def gen_repr_dps(self, g):
        n = g.r.choice([g.r.randint(1, 400), g.r.randint(1, 10 ** 6), 53, 52, 54, 49, 50, 51, 56, 57])
        return "repr_dps %d" % n, (lambda: self.L.repr_dps(n)), {}

    def gen_prec_to_dps(self, g):
        n = g.r.choice([g.r.randint(0, 400), g.r.randint(1, 10 ** 6), g.r.randint(1, 10 ** 15)])
        return "prec_to_dps %d" % n, (lambda: self.L.prec_to_dps(n)), {}

    def gen_dps_to_prec(self, g):
        n = g.r.choice([g.r.randint(0, 400), g.r.randint(1, 10 ** 6), g.r.randint(1, 10 ** 15)])
        return "dps_to_prec %d" % n, (lambda: self.L.dps_to_prec(n)), {}

    def gen_numeral(self, g):
        import mpmath.libmp.libintmath as LI
        r = g.r
        nd = r.choice([r.randint(1, 300), r.randint(240, 1200), r.randint(1000, 4000)])
        n = int(self.digits(g, nd).lstrip("0") or "0")
        if r.random() < 0.2:
            n = 10 ** nd + r.choice([0, 1, -1])
        size = r.choice([0, nd, nd, nd - 1, nd + 1, nd - 3, max(0, nd // 2 + 3), 249, 250, 251, 500, 2 * nd])
        size = max(size, 0)
        return "numeral %x %d" % (n, size), (lambda: LI.numeral_python(n, 10, size)), {"enc": enc_S}


ALL_STR_OPS = ["str_to_man_exp", "from_str", "mpf_ctor", "mpmathify", "to_digits_exp", "to_str", "nstr", "str", "repr",
               "mpc_str", "repr_dps", "prec_to_dps", "dps_to_prec", "numeral", "mpi_from_str", "iv_mpf_str", "iv_mpf_pair"]


def exact_dec(lit):
    """exact value of a decimal literal (float() grammar incl. separators), independent of mpmath"""
    from decimal import Decimal
    t = lit.strip().lower().rstrip("l")
    sg, dg, ex = Decimal(t).as_tuple()
    if not isinstance(ex, int):
        raise ValueError("special")
    n = int("".join(map(str, dg))) if dg else 0
    v = Fraction(n * 10 ** ex) if ex >= 0 else Fraction(n, 10 ** (-ex))
    return -v if sg else v


def denoted_range(parts):
    """the number range denoted by a well-formed interval string (iv_string parts); None if it has none
    (negative half-width, special values, inverted endpoints are still reported as given)"""
    form, a, b = parts
    va, vb = exact_dec(a), exact_dec(b)
    if form == "ab":
        return va, vb
    if vb < 0:
        return None
    w = vb if form == "pm" else abs(va) * vb / 100
    return va - w, va + w


def run_t1(ops, ncases, seed, so=None):
    so = so or StrOps()
    g = Gen(seed)
    lines, impl_out, opnames, slots = [], [], [], []
    for i in range(ncases):
        op = ops[i % len(ops)]
        line, thunk, meta = getattr(so, "gen_" + op)(g)
        res = call(thunk, meta.get("enc", enc_result))
        if meta.get("mpc"):
            slots.append((len(lines), len(lines) + 1, line[2]))
            lines.extend(line[:2])
            line = " | ".join(line[:2])
        else:
            slots.append((len(lines),))
            lines.append(line)
        impl_out.append(res); opnames.append(op)
    raw = Driver().ask(lines)
    model_out = []
    for sl in slots:
        if len(sl) == 1:
            model_out.append(raw[sl[0]])
        else:
            a, b = raw[sl[0]], raw[sl[1]]
            if a.startswith("S:") and b.startswith("S:"):
                model_out.append("S:" + a[2:] + sl[2] + b[2:] + "j")
            else:
                model_out.append(a if not a.startswith("S:") else b)
    dis = []
    per_op = {}
    for i, (a, b) in enumerate(zip(impl_out, model_out)):
        d = per_op.setdefault(opnames[i], [0, 0])
        d[0] += 1
        if a != b:
            d[1] += 1
            dis.append({"index": i, "op": opnames[i], "line": lines[slots[i][0]][:300], "impl": a[:200], "model": b[:200]})
    return {"per_op": per_op}, dis, g


# ------------------------------------------------------------------------------------------------
# exhaustive validation of the binary64-modelled integer maps against CPython
# ------------------------------------------------------------------------------------------------

def validate_floats(max_dps=20003, max_prec=10 ** 6, max_fix=120000):
    L = _lib()
    LOG = math.log(10, 2)
    assert LOG.hex() == "0x1.a934f0979a372p+1" and LOG == 3.3219280948873626
    lines, want = [], []
    for d in range(0, max_dps + 1):
        lines.append("bitprec %d" % d); want.append("I:%d" % (int(d * LOG) + 10))
    for f in range(0, max_fix + 1):
        lines.append("fixdps %d" % f); want.append("I:%d" % int(f / LOG + 0.5))
    for n in range(0, max_prec + 1):
        lines.append("prec_to_dps %d" % n); want.append("I:%d" % L.prec_to_dps(n))
        lines.append("repr_dps %d" % n); want.append("I:%d" % L.repr_dps(n))
    for n in range(0, max_prec // 3 + 1):
        lines.append("dps_to_prec %d" % n); want.append("I:%d" % L.dps_to_prec(n))
    got = Driver().ask(lines)
    bad = [(l, w, m) for l, w, m in zip(lines, want, got) if w != m]
    return len(lines), bad


# ------------------------------------------------------------------------------------------------
# API-level laws (spec side, no model): eval(repr(x)) == x ; float()/Decimal() parse the printed string
# ------------------------------------------------------------------------------------------------

def load_repr_corpus():
    """corpus/C08/*.txt: one case per line `<prec> <sign:hexman:exp:bc>` ('#' starts a comment)"""
    import glob
    cases = [(54, (1, 11537171455164529, 249, 54))]     # built in: the witness of the prec-54 repr defect (c03e100)
    for fn in sorted(glob.glob(os.path.join(CORPUS_DIR, "C08", "*.txt"))):
        for line in open(fn):
            line = line.split("#")[0].strip()
            if not line:
                continue
            t = line.split()
            if len(t) == 2:
                cases.append((int(t[0]), dec_mpf(t[1])))
    return cases


def run_laws(ncases, seed):
    from decimal import Decimal
    so = StrOps()
    mp, L, mpmath = so.mp, so.L, so.mpmath
    g = Gen(seed)
    mpf, mpc = mpmath.mpf, mpmath.mpc  # noqa (names used by eval)
    bad = []
    counts = {"repr_roundtrip": 0, "repr_roundtrip_mpc": 0, "parse_float_decimal": 0, "nearest": 0, "nearest_fail": 0}
    old = mp.prec
    counts["corpus"] = 0
    try:
        for prec, s in load_repr_corpus():
            mp.prec = prec
            s = L.normalize(s[0], L.MPZ(s[1]), s[2], L.bitcount(s[1]), prec, "n") if s[1] else s
            x = mp.make_mpf(s)
            counts["corpus"] += 1
            if eval(repr(x), {"mpf": mpmath.mpf})._mpf_ != s:
                bad.append(("repr_roundtrip", prec, s, repr(x)))
        for i in range(ncases):
            prec = g.prec()
            if g.r.random() < 0.08:
                prec = g.r.choice([49, 50, 52, 53, 54, 55, 56, 59, 60])   # around the repr_dps special case (dps == 15 -> 17)
            mp.prec = prec
            s = so.ctx_value(g, prec)
            x = mp.make_mpf(s)
            if s[1] or s == L.fzero:
                y = eval(repr(x), {"mpf": mpmath.mpf})
                counts["repr_roundtrip"] += 1
                if y._mpf_ != s:
                    bad.append(("repr_roundtrip", prec, s, repr(x)))
                if i % 5 == 0:
                    s2 = so.ctx_value(g, prec)
                    if s2[1] or s2 == L.fzero:
                        z = mp.make_mpc((s, s2))
                        w = eval(repr(z), {"mpc": mpmath.mpc})
                        counts["repr_roundtrip_mpc"] += 1
                        if w._mpc_ != (s, s2):
                            bad.append(("repr_roundtrip_mpc", prec, (s, s2), repr(z)))
            # printed strings parse with float() and Decimal(), and denote a nearest n-digit decimal
            n = max(1, so.dps(g))
            v = so.print_value(g, n)
            if not v[1] and v != L.fzero:
                t = mp.nstr(mp.make_mpf(v), n)
                if t not in ("+inf", "-inf", "nan"):
                    bad.append(("special", v, t))
                continue
            if v[1] and abs(v[2] + v[3]) > 10 ** 7:
                continue
            kw, _ = so.fmt_opts(g, v, n)
            t = mp.nstr(mp.make_mpf(v), n, **kw)
            counts["parse_float_decimal"] += 1
            try:
                float(t)
                dv = Decimal(t)
            except Exception as e:  # noqa
                bad.append(("parse", v, n, t, repr(e)))
                continue
            # nearest n-significant-digit decimal (checked exactly, small exponents only)
            if v[1] and abs(v[2] + v[3]) < 4000:
                sg, dg, ex = dv.as_tuple()
                pv = Fraction(int("".join(map(str, dg)))) * Fraction(10) ** ex * (-1 if sg else 1)
                xv = Fraction(v[1]) * Fraction(2) ** v[2] * (-1 if v[0] else 1)
                # exponent of the leading digit of |x|
                a = abs(xv)
                k = len(str(a.numerator)) - len(str(a.denominator))
                while Fraction(10) ** k > a:
                    k -= 1
                while Fraction(10) ** (k + 1) <= a:
                    k += 1
                ulp = Fraction(10) ** (k - n + 1)
                counts["nearest"] += 1
                if abs(pv - xv) > ulp / 2:
                    counts["nearest_fail"] += 1
                    if len(bad) < 50:
                        bad.append(("nearest", v, n, t))
    finally:
        mp.prec = old
    return counts, bad, g


# ------------------------------------------------------------------------------------------------
# replay of the known falsities on the real code
# ------------------------------------------------------------------------------------------------

def replay_findings():
    L = _lib()
    import mpmath
    mp = mpmath.mp
    out = []
    # D4: ceiling conversion below the literal (approximate branch, > 400 fractional digits)
    m, e = 6004799503160661, -473       # 53-bit value about 2^-420
    d, dexp = exact_decimal(m, e)
    lit = dec_literal(d + 1, dexp, "fixed", None)
    r = L.from_str(lit, 53, "c")
    below = Fraction(r[1]) * Fraction(2) ** r[2] < Fraction(d + 1) * Fraction(10) ** dexp
    out.append(("D4 from_str(<value just above m*2^e, %d fractional digits>, 53, 'c') below literal" % (-dexp), below, r))
    # D4, the witnesses of the Lean counterexamples (Props/C07.lean)
    lit2 = "0.5" + "0" * 399 + "1"
    r2 = L.from_str(lit2, 53, "c")
    out.append(("D4 from_str('0.5'+'0'*399+'1', 53, 'c') == fhalf (below the literal)", r2 == L.fhalf, r2))
    lit3 = "1.00000000000000011102230246251565404236316680908203125" + "0" * 350 + "1"
    r3 = L.from_str(lit3, 53, "n")
    out.append(("D4 from_str(<1 + 2^-53 + 10^-404>, 53, 'n') == fone (nearest is 1 + 2^-52)", r3 == L.fone, r3))
    # D5: 1000-bit number just above 0.15 prints as 0.1
    b = Fraction(15, 100)
    mm = 15 * 2 ** 1002 // 100 + 1
    x = L.from_man_exp(mm, -1002)
    t = L.to_str(x, 1)
    out.append(("D5 to_str(<1000-bit number just above 0.15>, 1) == '0.1'", t == "0.1", (t, x[3])))
    # literal-grammar findings, REPAIRED in /repo (ad5f351, 59f8b17): now checked positively
    for lit, want in [("1.0_1", Fraction(101, 100)), ("1_0.0_1", Fraction(1001, 100)), ("1.5_0", Fraction(3, 2)),
                      (".0", Fraction(0)), ("-.0", Fraction(0)), (".00e3", Fraction(0))]:
        try:
            man, ex = L.str_to_man_exp(lit)
            ok = Fraction(int(man)) * Fraction(10) ** ex == want and float(want) == float(lit)
        except Exception:  # noqa
            ok = False
        out.append(("repaired: str_to_man_exp(%r) has the float() value" % lit, ok, None))
    try:
        L.from_str("1" * 4301, 53, "n"); ok = False
    except ValueError:
        ok = True
    out.append(("float() accepts, from_str raises ValueError (CPython int(str) digit limit): '1'*4301", ok, None))
    # repr at prec 54 used 17 digits, too few to separate 54-bit numbers; REPAIRED in c03e100 (Props/C08.lean reprDpsOK)
    old = mp.prec
    try:
        mp.prec = 54
        x = mp.make_mpf((1, 11537171455164529, 249, 54))
        y = eval(repr(x), {"mpf": mpmath.mpf})
        out.append(("repaired: repr round trip at prec 54 (repr_dps(54) == 18)", y == x and L.repr_dps(54) == 18, (repr(x), y._mpf_)))
        out.append(("repaired: 10**(repr_dps(p)-1) > 2**p for every 1 <= p <= 20000",
                    all(10 ** (L.repr_dps(p) - 1) > 2 ** p for p in range(1, 20001)), None))
    finally:
        mp.prec = old
    # to_str(0, 0) prints '.0' (parsed back since 59f8b17)
    out.append(("to_str(fzero, 0) == '.0'", L.to_str(L.fzero, 0) == ".0", None))
    # mpc_to_str forwards the formatting options to the imaginary part only
    s = mp.nstr(mpmath.mpc(1, 1), 5, strip_zeros=False)
    out.append(("nstr(mpc(1,1), 5, strip_zeros=False) == '(1.0 + 1.0000j)'", s == "(1.0 + 1.0000j)", s))
    return out


if __name__ == "__main__":
    import sys as _s
    _verbose = "-v" in _s.argv
    _s.argv = [a for a in _s.argv if a != "-v"]
    if len(_s.argv) > 1 and _s.argv[1] == "floats":
        t = time.time()
        n, bad = validate_floats()
        print("float-model lines", n, "disagreements", len(bad), "time %.1f" % (time.time() - t))
        for b in bad[:20]:
            print(b)
    elif len(_s.argv) > 1 and _s.argv[1] == "laws":
        n = int(_s.argv[2]) if len(_s.argv) > 2 else 3000
        seed = int(_s.argv[3]) if len(_s.argv) > 3 else 0
        t = time.time()
        counts, bad, g = run_laws(n, seed)
        print("laws", counts, "violations", len(bad), "time %.1f" % (time.time() - t))
        kinds = {}
        for b in bad:
            kinds[b[0]] = kinds.get(b[0], 0) + 1
        print(kinds)
        for b in bad[:8]:
            print(str(b)[:300])
    elif len(_s.argv) > 1 and _s.argv[1] == "findings":
        for name, ok, extra in replay_findings():
            print("REPLAYED" if ok else "NOT-REPRODUCED", name, "" if extra is None else str(extra)[:120])
    else:
        n = int(_s.argv[1]) if len(_s.argv) > 1 else 6000
        seed = int(_s.argv[2]) if len(_s.argv) > 2 else 0
        ops = _s.argv[3].split(",") if len(_s.argv) > 3 else ALL_STR_OPS
        t = time.time()
        st, dis, g = run_t1(ops, n, seed)
        print("cases", n, "seed", seed, "disagreements", len(dis), "time %.1f" % (time.time() - t))
        for k, v in sorted(st["per_op"].items()):
            print("  %-16s cases %6d  disagreements %d" % (k, v[0], v[1]))
        if _verbose:
            for k, v in sorted(g.hist.items()):
                print("  hist", k, dict(sorted(v.items(), key=lambda kv: str(kv[0]))))
        for d in dis[:15]:
            print(d)
