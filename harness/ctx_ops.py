"""C38 — context isolation: tie between MpModel/World.lean and the running context objects.

Three parts
 1. `structure()`   reads the aliasing structure off LIVE objects in a fresh process (mp, two clones, a
                    clone of a clone, iv, fp, a second iv and fp): identity of the precision cells, of the
                    per-context number classes and their `_ctxdata`, every `__dict__` value shared by
                    identity, class-level mutable attributes, and every function of the package that has
                    a mutable default argument (a cache shared by ALL contexts).
 2. `gen_program()` random interleavings of statements (tokens of the driver op `world`):
                        sp:i:n  sd:i:n  sr:i:r  st:i:b  sy:i:b  df:i  cl:i  ev:i:<fun>
 3. a program is executed (a) on the real contexts in a fresh process, recording after EVERY statement
    the settings of EVERY context, (b) by the Lean model (`world …` through mpdrv), and (c) every value of
    (a) is recomputed in a fresh SINGLE-context process at the settings PREDICTED BY THE MODEL for the
    evaluating context (same order, so the module-level cache history is the same).

Worker mode:  python ctx_ops.py --worker   (one JSON request on stdin, one JSON answer on stdout)
"""
import os, sys, json, subprocess, random, signal, time
from concurrent.futures import ThreadPoolExecutor

HERE = os.path.dirname(os.path.abspath(__file__))
sys.path.insert(0, HERE)
from common import REPO, Driver, InfraError  # noqa

PY = sys.executable
EVAL_TIMEOUT = 10          # seconds per single evaluation inside a worker
REQ_TIMEOUT = 120          # seconds per request (one program) inside a worker
PROC_TIMEOUT = 60          # slack per worker process

RNDS = ["n", "f", "c", "u", "d"]

# ------------------------------------------------------------------------------------------------
# function table: name -> (class, site, {kind: callable(ctx)})
#   class "elem": any precision; "med": precision >= 10 only; "risk": functions with state outside libmp;
#   "slow": like "risk" but seconds per call above ~100 bits — only in the systematic programs (precision <= 64 there)
# ------------------------------------------------------------------------------------------------

def _hilbert_det(c):
    return c.det(c.hilbert(4))


def _inv00(c):
    return (c.hilbert(3) ** -1)[0, 0]


def _lusolve(c):
    A = c.matrix([[2, 1, 1], [1, 3, 2], [1, 0, 0]])
    b = c.matrix([4, 5, 6])
    return c.lu_solve(A, b)


FUNS = {
    # --- elementary functions / constants / conversions
    "sqrt2":   ("elem", "ctx.sqrt", {"mp": lambda c: c.sqrt(c.mpf(2)), "iv": lambda c: c.sqrt(c.mpf([2, 3])), "fp": lambda c: c.sqrt(2.0)}),
    "exp03":   ("elem", "ctx.exp", {"mp": lambda c: c.exp(c.mpf("0.3")), "iv": lambda c: c.exp(c.mpf("0.3")), "fp": lambda c: c.exp(0.3)}),
    "ln3":     ("elem", "ctx.ln", {"mp": lambda c: c.ln(c.mpf(3)), "iv": lambda c: c.ln(c.mpf(3)), "fp": lambda c: c.ln(3.0)}),
    "sin1":    ("elem", "ctx.sin", {"mp": lambda c: c.sin(c.mpf(1)), "iv": lambda c: c.sin(c.mpf(1)), "fp": lambda c: c.sin(1.0)}),
    "cos1":    ("elem", "ctx.cos", {"mp": lambda c: c.cos(c.mpf(1)), "iv": lambda c: c.cos(c.mpf(1)), "fp": lambda c: c.cos(1.0)}),
    "atan2":   ("elem", "ctx.atan", {"mp": lambda c: c.atan(c.mpf(2)), "fp": lambda c: c.atan(2.0)}),
    "cosh2":   ("elem", "ctx.cosh", {"mp": lambda c: c.cosh(c.mpf(2)), "fp": lambda c: c.cosh(2.0)}),
    "pi":      ("elem", "ctx.pi", {"mp": lambda c: +c.pi, "iv": lambda c: +c.pi, "fp": lambda c: c.pi}),
    "e":       ("elem", "ctx.e", {"mp": lambda c: +c.e, "iv": lambda c: +c.e, "fp": lambda c: c.e}),
    "ln2":     ("elem", "ctx.ln2", {"mp": lambda c: +c.ln2, "iv": lambda c: +c.ln2}),
    "euler":   ("elem", "ctx.euler", {"mp": lambda c: +c.euler, "iv": lambda c: +c.euler}),
    "catalan": ("elem", "ctx.catalan", {"mp": lambda c: +c.catalan}),
    "div13":   ("elem", "mpf.__div__", {"mp": lambda c: c.mpf(1) / 3, "iv": lambda c: c.mpf(1) / 3, "fp": lambda c: c.mpf(1) / 3}),
    "str01":   ("elem", "ctx.convert", {"mp": lambda c: c.mpf("0.1"), "iv": lambda c: c.mpf("0.1")}),
    "pow":     ("elem", "mpf.__pow__", {"mp": lambda c: c.mpf(2) ** c.mpf("0.3"), "fp": lambda c: c.mpf(2) ** 0.3}),
    "repr13":  ("elem", "mpf.__repr__", {"mp": lambda c: repr(c.mpf(1) / 3), "iv": lambda c: repr(c.mpf(1) / 3), "fp": lambda c: repr(c.mpf(1) / 3)}),
    "str13":   ("elem", "mpf.__str__", {"mp": lambda c: str(c.mpf(1) / 3), "iv": lambda c: str(c.mpf(1) / 3)}),
    "sqrtm2":  ("elem", "ctx.sqrt(trap_complex)", {"mp": lambda c: c.sqrt(c.mpf(-2))}),
    "eps":     ("elem", "ctx.eps", {"mp": lambda c: +c.eps, "iv": lambda c: +c.eps}),
    # --- functions with working precision management
    "gamma":   ("med", "ctx.gamma", {"mp": lambda c: c.gamma(c.mpf("1.3")), "iv": lambda c: c.gamma(c.mpf("1.3")), "fp": lambda c: c.gamma(1.3)}),
    "erf":     ("med", "ctx.erf", {"mp": lambda c: c.erf(c.mpf("0.7")), "fp": lambda c: c.erf(0.7)}),
    "zeta3":   ("med", "ctx.zeta", {"mp": lambda c: c.zeta(3), "fp": lambda c: c.zeta(3)}),
    "besselj": ("med", "ctx.besselj", {"mp": lambda c: c.besselj(0, c.mpf("2.5")), "fp": lambda c: c.besselj(0, 2.5)}),
    "hyp1f1":  ("med", "ctx.hyp1f1", {"mp": lambda c: c.hyp1f1(c.mpf("0.5"), c.mpf("1.25"), c.mpf("0.75")), "fp": lambda c: c.hyp1f1(0.5, 1.25, 0.75)}),
    "bern10":  ("med", "ctx.bernoulli", {"mp": lambda c: c.bernoulli(10), "fp": lambda c: c.bernoulli(10)}),
    "det":     ("med", "ctx.det", {"mp": _hilbert_det, "fp": _hilbert_det}),
    "inv":     ("med", "matrix.__pow__", {"mp": _inv00, "fp": _inv00}),
    "lusolve": ("med", "ctx.lu_solve", {"mp": _lusolve, "fp": _lusolve}),
    "quad":    ("med", "ctx.quad", {"mp": lambda c: c.quad(lambda t: c.exp(-t * t), [0, 1]), "fp": lambda c: c.quad(lambda t: c.exp(-t * t), [0, 1])}),
    # (fp.quadgl does not terminate on the unchanged tree — a C24 matter — so there is no fp variant)
    "quadgl":  ("med", "ctx.quadgl", {"mp": lambda c: c.quadgl(lambda t: c.cos(t), [0, 1])}),
    "nsum":    ("med", "ctx.nsum", {"mp": lambda c: c.nsum(lambda k: 1 / k ** 2, [1, c.inf])}),
    "diff":    ("med", "ctx.diff", {"mp": lambda c: c.diff(c.sin, c.mpf(1)), "fp": lambda c: c.diff(c.sin, 1.0)}),
    "findroot": ("med", "ctx.findroot", {"mp": lambda c: c.findroot(lambda t: c.cos(t) - t, c.mpf("0.7"))}),
    "stieltjes": ("med", "functions.zeta.stieltjes", {"mp": lambda c: c.stieltjes(1)}),
    "mertens": ("med", "ctx.mertens", {"mp": lambda c: +c.mertens}),
    # --- functions whose implementation keeps state outside libmp or reaches for another context
    "coulombc": ("risk", "functions.bessel.coulombc", {"mp": lambda c: c.coulombc(1, 2), "fp": lambda c: c.coulombc(1, 2)}),
    "coulombg": ("risk", "functions.bessel.coulombg", {"mp": lambda c: c.coulombg(1, 2, c.mpf("1.5"))}),
    "besseljzero": ("risk", "functions.bessel.besseljzero", {"mp": lambda c: c.besseljzero(0, 3), "fp": lambda c: c.besseljzero(0, 3)}),
    "zetazero": ("risk", "functions.zetazeros.zetazero", {"mp": lambda c: c.zetazero(1)}),
    "nzeros":  ("risk", "functions.zetazeros.nzeros", {"mp": lambda c: c.nzeros(50)}),
    "primepi2": ("risk", "functions.zeta.primepi2", {"mp": lambda c: c.primepi2(3000)}),
    "siegelz": ("risk", "functions.zeta.siegelz", {"mp": lambda c: c.siegelz(c.mpf(1000)), "fp": lambda c: c.siegelz(1000.0)}),
    "zetahigh": ("risk", "functions.rszeta", {"mp": lambda c: c.zeta(c.mpc(0.5, 5000)), "fp": lambda c: c.zeta(0.5 + 5000j)}),
    # --- every function of the package that dereferences a cross-link ctx._mp / ctx._fp / ctx._iv (enumerated from the
    #     source by link_sites(); that these arguments REACH the link lines from a context of another kind is measured on
    #     every run by the probe, see cross_link_coverage).  The Riemann-Siegel code is entered for |t| > 500*prec only
    #     (26500 for fp), which "siegelz" / "zetahigh" above never reach from fp.
    "siegelzRS": ("risk", "functions.rszeta.coef", {"mp": lambda c: c.siegelz(c.mpf(10) ** 6), "fp": lambda c: c.siegelz(1.0e6)}),
    "zetaRS":  ("risk", "functions.rszeta.coef", {"mp": lambda c: c.zeta(c.mpc(0.5, 10 ** 6)), "fp": lambda c: c.zeta(0.5 + 1.0e6j)}),
    "zetaRSd": ("risk", "functions.rszeta.coef", {"mp": lambda c: c.zeta(c.mpc(0.5, 3 * 10 ** 6), derivative=1), "fp": lambda c: c.zeta(0.5 + 3.0e6j, derivative=1)}),
    "nzerosRS": ("risk", "functions.zetazeros.nzeros", {"mp": lambda c: c.nzeros(10 ** 6), "fp": lambda c: c.nzeros(10 ** 6)}),
    "zetazeroRS": ("slow", "functions.zetazeros.zetazero", {"mp": lambda c: c.zetazero(10 ** 6), "fp": lambda c: c.zetazero(10 ** 6)}),
    "zetazeroRosser": ("slow", "functions.zetazeros.zetazero", {"mp": lambda c: c.zetazero(13999527)}),
    "zetazeroTuring": ("slow", "functions.zetazeros.zetazero", {"mp": lambda c: c.zetazero(400000001)}),
    "primepi2s": ("risk", "functions.zeta.primepi2", {"mp": lambda c: c.primepi2(1), "fp": lambda c: c.primepi2(1)}),
    "primepi2m": ("risk", "functions.zeta.primepi2", {"mp": lambda c: c.primepi2(100), "fp": lambda c: c.primepi2(100)}),
    # --- functions that fill PER-CONTEXT caches (ctx._misc_const_cache through c_memo, ctx.zetazero_memoized,
    #     ctx._rs_cache, ...): which table entries write which per-context state is measured by the probe
    "airyai":  ("med", "functions.bessel.airyai", {"mp": lambda c: c.airyai(1), "fp": lambda c: c.airyai(1.0)}),
    "airybi":  ("med", "functions.bessel.airybi", {"mp": lambda c: c.airybi(1), "fp": lambda c: c.airybi(1.0)}),
    "airyaiint": ("med", "functions.bessel.airyai", {"mp": lambda c: c.airyai(c.mpf("0.5"), derivative=-1)}),
    "airybiint": ("med", "functions.bessel.airybi", {"mp": lambda c: c.airybi(c.mpf("0.5"), derivative=-1)}),
    "airyaid": ("med", "functions.bessel.airyai", {"mp": lambda c: c.airyai(c.mpf("0.25"), derivative=1)}),
    "secondzeta": ("slow", "functions.zeta.secondzeta", {"mp": lambda c: c.secondzeta(2)}),
}

KIND_ID = {"mp": 0, "iv": 1, "fp": 2}


# ------------------------------------------------------------------------------------------------
# worker side (runs inside a fresh process)
# ------------------------------------------------------------------------------------------------

class _Timeout(Exception):
    pass


def _alarm(signum, frame):
    raise _Timeout()


def _kind_of(ctx):
    n = type(ctx).__name__
    return {"MPContext": "mp", "MPIntervalContext": "iv", "FPContext": "fp"}.get(n, n)


def _owner(ctxs, v, self_id):
    """which context's number class is type(v): 'self', an absolute id, or None for plain Python values"""
    t = type(v)
    for k, c in enumerate(ctxs):
        cls = [getattr(c, "mpf", None), getattr(c, "mpc", None), getattr(c, "constant", None), getattr(c, "_constant", None),
               getattr(c, "matrix", None)]
        if any(t is x for x in cls if x is not None):
            if k == self_id:
                return "self"
            return k if k < 3 else "clone%d" % k
    return None


def _enc_value(ctxs, v, self_id):
    if isinstance(v, str):
        return ["str", v]
    if isinstance(v, (bool, int)):
        return ["int", str(int(v))]
    if isinstance(v, float):
        return ["float", v.hex()]
    if isinstance(v, complex):
        return ["complex", v.real.hex(), v.imag.hex()]
    if hasattr(v, "_mpf_"):
        return ["mpf", _owner(ctxs, v, self_id), [str(x) for x in v._mpf_]]
    if hasattr(v, "_mpc_"):
        return ["mpc", _owner(ctxs, v, self_id), [[str(x) for x in p] for p in v._mpc_]]
    if hasattr(v, "_mpi_"):
        return ["mpi", _owner(ctxs, v, self_id), [[str(x) for x in p] for p in v._mpi_]]
    if hasattr(v, "_mpci_"):
        return ["mpci", _owner(ctxs, v, self_id), repr(v._mpci_)]
    if hasattr(v, "tolist"):   # matrix
        return ["matrix", _owner(ctxs, v, self_id), [[_enc_value(ctxs, e, self_id) for e in row] for row in v.tolist()]]
    if isinstance(v, (list, tuple)):
        return ["seq", [_enc_value(ctxs, e, self_id) for e in v]]
    return ["other", type(v).__name__, repr(v)]


def _state(ctx):
    k = _kind_of(ctx)
    consistent = True
    if k == "mp":
        cell = ctx._prec_rounding
        consistent = (ctx._prec == cell[0] and ctx.mpf._ctxdata[2] is cell and ctx.mpc._ctxdata[2] is cell
                      and ctx.constant._ctxdata[2] is cell and ctx.mpf.context is ctx and ctx.mpc.context is ctx)
        rnd = cell[1]
    elif k == "iv":
        cell = ctx._prec
        consistent = (ctx.mpf._ctxdata[2] is cell and ctx.mpc._ctxdata[2] is cell and ctx.mpf.ctx is ctx)
        rnd = "n"
    else:
        rnd = "n"
    return [k, int(ctx.prec), int(ctx.dps), rnd, 1 if getattr(ctx, "trap_complex", False) else 0,
            1 if getattr(ctx, "pretty", False) else 0, 1 if consistent else 0]


def _eval(ctxs, i, fname):
    c = ctxs[i]
    f = FUNS[fname][2].get(_kind_of(c))
    if f is None:
        return ["nofun"]
    signal.signal(signal.SIGALRM, _alarm)
    signal.alarm(EVAL_TIMEOUT)
    try:
        try:
            v = f(c)
            return ["v", _enc_value(ctxs, v, i)]
        except _Timeout:
            return ["timeout"]
        except Exception as e:  # noqa
            return ["exc", type(e).__name__, str(e)[:120]]
    finally:
        signal.alarm(0)


def worker_multi(stmts):
    """execute an interleaved program on the real contexts; observe everything after each statement"""
    import mpmath
    ctxs = [mpmath.mp, mpmath.iv, mpmath.fp]
    rec = []
    for s in stmts:
        t = s.split(":")
        op, i = t[0], int(t[1])
        out = "done"
        try:
            c = ctxs[i]
            if op == "sp":
                c.prec = int(t[2])
            elif op == "sd":
                c.dps = int(t[2])
            elif op == "sr":
                c._prec_rounding[1] = t[2]
            elif op == "st":
                c.trap_complex = bool(int(t[2]))
            elif op == "sy":
                c.pretty = bool(int(t[2]))
            elif op == "df":
                c.default()
            elif op == "cl":
                a = c.clone()
                ctxs.append(a)
                out = "new=%d" % (len(ctxs) - 1)
            elif op == "ev":
                out = _eval(ctxs, i, t[2])
            else:
                out = "bad"
        except AttributeError as e:
            out = "AttributeError"
        except IndexError:
            out = "noctx"
        rec.append({"out": out, "state": [_state(c) for c in ctxs]})
    return rec


def worker_single(evals):
    """reference: ONE context per kind (the module-level mp / iv / fp of a fresh process), settings written
    before every evaluation.  evals: list of [kind, prec, dps, rnd, trap, pretty, fname]"""
    import mpmath
    ctxs = [mpmath.mp, mpmath.iv, mpmath.fp]
    out = []
    mp_, iv_ = ctxs[0], ctxs[1]
    for kind, prec, dps, rnd, trap, pretty, fname in evals:
        i = KIND_ID[kind]
        c = ctxs[i]
        # the contexts of the OTHER kinds are at their import-time settings for every reference evaluation (the one
        # global mp stands for all mp-kind contexts of the program; it must not lend their settings to an fp or iv evaluation)
        if kind != "mp":
            mp_._prec = mp_._prec_rounding[0] = 53
            mp_._dps = 15
            mp_._prec_rounding[1] = "n"
            mp_.trap_complex = False
            mp_.pretty = False
        if kind != "iv":
            iv_._prec[0] = 53
            iv_._dps = 15
            iv_.pretty = False
        if kind == "mp":
            c._prec = c._prec_rounding[0] = int(prec)
            c._dps = int(dps)
            c._prec_rounding[1] = rnd
            c.trap_complex = bool(trap)
        elif kind == "iv":
            c._prec[0] = int(prec)
            c._dps = int(dps)
        c.pretty = bool(pretty)
        out.append(_eval(ctxs, i, fname))
    return out


def _ident(o):
    return id(o)


def _private_state(c):
    """fingerprints of the mutable state owned by ONE context object: containers in its __dict__, containers of its
    helper objects (quadrature rules) one level down, containers captured by function-valued attributes (memoize);
    the cross-links are not followed"""
    import types, hashlib

    def fpr(v):
        try:
            r = repr(v)
        except Exception:  # noqa
            r = "len=%d" % len(v)
        return hashlib.md5(r.encode()).hexdigest()
    out = {}
    for k, v in list(c.__dict__.items()):
        if k in ("_mp", "_fp", "_iv"):
            continue
        if isinstance(v, (dict, list, set)):
            out[k] = fpr(v)
        elif isinstance(v, types.FunctionType):
            for n, cell in enumerate(v.__closure__ or ()):
                try:
                    cv = cell.cell_contents
                except ValueError:
                    continue
                if isinstance(cv, (dict, list, set)):
                    out["%s.<closure %d>" % (k, n)] = fpr(cv)
        elif hasattr(v, "__dict__") and not isinstance(v, (type, types.ModuleType, types.MethodType, types.BuiltinFunctionType)):
            for a, b in list(vars(v).items()):
                if isinstance(b, (dict, list, set)):
                    out["%s.%s" % (k, a)] = fpr(b)
    return out


def worker_probe(fname, kind, prec, sites):
    """ONE evaluation in a pristine process: which cross-link lines (sites: [relfile, function, line, link]) it
    executes, and which state private to the evaluating context it writes"""
    import mpmath
    ctxs = [mpmath.mp, mpmath.iv, mpmath.fp]
    i = KIND_ID[kind]
    c = ctxs[i]
    if kind != "fp":
        c.prec = prec
    root = os.path.realpath(os.path.join(os.path.dirname(mpmath.__file__)))
    want = {}
    for rel, fn, line, link in sites:
        want.setdefault((os.path.join(root, rel), fn), set()).add(line)
    hit = set()
    unresolved = []
    before = _private_state(c)
    mon = getattr(sys, "monitoring", None)
    if mon is not None:
        # line events on the code objects of the site functions only (no cost anywhere else)
        # (found through the module namespaces: walking gc.get_objects() in a forked child copies the whole heap)
        import types, importlib
        codes = {}

        def add(co, fnm):
            if (fnm, co.co_name) in want:
                codes[co] = (fnm, co.co_name)
            for k in co.co_consts:
                if isinstance(k, types.CodeType):
                    add(k, fnm)
        for fnm in sorted({f for f, _ in want}):
            rel = os.path.relpath(fnm, root)
            mod = importlib.import_module("mpmath." + rel[:-3].replace(os.sep, "."))
            for o in list(vars(mod).values()):
                fs = [o] if isinstance(o, types.FunctionType) else \
                     [m for m in vars(o).values() if isinstance(m, types.FunctionType)] if isinstance(o, type) else []
                for fo in fs:
                    if os.path.realpath(fo.__code__.co_filename) == fnm:
                        add(fo.__code__, fnm)
        unresolved = sorted("%s:%s" % (os.path.relpath(f, root), n) for f, n in want if (f, n) not in codes.values())
        tool = 3
        mon.use_tool_id(tool, "c38probe")

        def on_line(code, line):
            key = codes.get(code)
            if key is not None and line in want[key]:
                hit.add((os.path.relpath(key[0], root), line))
            return mon.DISABLE
        mon.register_callback(tool, mon.events.LINE, on_line)
        for co in codes:
            mon.set_local_events(tool, co, mon.events.LINE)
        t0 = time.time()
        try:
            out = _eval(ctxs, i, fname)
        finally:
            for co in codes:
                mon.set_local_events(tool, co, 0)
            mon.free_tool_id(tool)
    else:
        rp = {}

        def tr(frame, ev, arg):
            if ev != "call":
                return None
            co = frame.f_code
            fnm = rp.get(co.co_filename)
            if fnm is None:
                fnm = rp[co.co_filename] = os.path.realpath(co.co_filename)
            lines = want.get((fnm, co.co_name))
            if lines is None:
                return None

            def loc(frame, ev, arg):
                if ev == "line" and frame.f_lineno in lines:
                    hit.add((os.path.relpath(fnm, root), frame.f_lineno))
                return loc
            return loc
        t0 = time.time()
        sys.settrace(tr)
        try:
            out = _eval(ctxs, i, fname)
        finally:
            sys.settrace(None)
    secs = time.time() - t0
    after = _private_state(c)
    touched = sorted(k for k in after if before.get(k) != after[k])
    return {"out": out[0], "lines": sorted([a, b] for a, b in hit), "touched": touched, "secs": round(secs, 3),
            "unresolved": unresolved}


def worker_structure():
    """aliasing structure of live objects"""
    import types, inspect, pkgutil, importlib
    import mpmath
    from mpmath.ctx_iv import MPIntervalContext
    from mpmath.ctx_fp import FPContext
    mp, iv, fp = mpmath.mp, mpmath.iv, mpmath.fp
    c1 = mp.clone(); c2 = mp.clone(); c3 = c1.clone()
    iv2 = MPIntervalContext(); fp2 = FPContext()
    ctxs = {"mp": mp, "c1": c1, "c2": c2, "c3": c3, "iv": iv, "fp": fp, "iv2": iv2, "fp2": fp2}
    res = {"contexts": list(ctxs), "cells": {}, "classes": {}, "ctxdata": {}, "wiring": {}, "shared_attrs": [],
           "class_level_mutables": [], "mutable_defaults": []}
    for n, c in ctxs.items():
        k = _kind_of(c)
        if k == "mp":
            cell = c._prec_rounding
            cls = {"mpf": c.mpf, "mpc": c.mpc, "constant": c.constant}
            back = all(x.context is c for x in cls.values())
        elif k == "iv":
            cell = c._prec
            cls = {"mpf": c.mpf, "mpc": c.mpc, "constant": c._constant}
            back = all(x.ctx is c for x in cls.values())
        else:
            cell = None
            cls = {}
            back = True
        res["cells"][n] = id(cell) if cell is not None else None
        res["classes"][n] = {a: id(b) for a, b in cls.items()}
        res["ctxdata"][n] = {a: id(b._ctxdata) for a, b in cls.items()}
        res["wiring"][n] = {
            "ctxdata_cell_is_ctx_cell": all(b._ctxdata[2] is cell for b in cls.values()),
            "ctxdata_class_is_ctx_mpf": all(b._ctxdata[0] is cls["mpf"] for a, b in cls.items() if a != "mpc") and
                                        (not cls or cls["mpc"]._ctxdata[0] is (cls["mpc"] if k == "mp" else cls["mpf"])),
            "backref_is_ctx": back,
        }
    imm = (int, float, str, bool, type(None), complex, tuple, frozenset, types.FunctionType, types.BuiltinFunctionType,
           types.ModuleType, types.MethodType)
    names = list(ctxs)
    for a in range(len(names)):
        for b in range(a + 1, len(names)):
            A, B = ctxs[names[a]].__dict__, ctxs[names[b]].__dict__
            for k in A:
                if k in B and A[k] is B[k] and not isinstance(A[k], imm):
                    res["shared_attrs"].append([names[a], names[b], k, type(A[k]).__name__])
    seen = set()
    for c in (mp, iv, fp):
        for cls in type(c).__mro__:
            for k, v in vars(cls).items():
                if isinstance(v, (dict, list, set)) and (cls.__name__, k) not in seen:
                    seen.add((cls.__name__, k))
                    res["class_level_mutables"].append([cls.__name__, k, type(v).__name__])
    # functions with mutable default arguments anywhere in the package (excluding tests)
    found = set()
    for m in pkgutil.walk_packages(mpmath.__path__, "mpmath."):
        if ".tests" in m.name:
            continue
        try:
            mod = importlib.import_module(m.name)
        except Exception:
            continue
        for nm, f in vars(mod).items():
            if isinstance(f, types.FunctionType) and f.__module__ == mod.__name__:
                sig_defaults = list(f.__defaults__ or ()) + list((f.__kwdefaults__ or {}).values())
                if any(isinstance(d, (dict, list, set)) for d in sig_defaults):
                    try:
                        ps = [p.name for p in inspect.signature(f).parameters.values() if isinstance(p.default, (dict, list, set))]
                    except Exception:
                        ps = ["?"]
                    for p in ps:
                        found.add("%s.%s:%s" % (mod.__name__[len("mpmath."):], nm, p))
    res["mutable_defaults"] = sorted(found)
    # the replay of clone_same_value_rounding_counterexample (Props/C38.lean)
    mp._prec_rounding[1] = "f"
    c4 = mp.clone()
    res["clone_rounding_witness"] = {"parent": list(mp._prec_rounding), "clone": list(c4._prec_rounding),
                                     "parent_sqrt2": str(mp.sqrt(2)._mpf_[1]), "clone_sqrt2": str(c4.sqrt(2)._mpf_[1])}
    mp._prec_rounding[1] = "n"
    return res


def worker_clone_private(fnames, prec):
    """T1 tie for MpModel/WorldPC.lean (`clone` constructs a context with EMPTY private caches): the parent evaluates
    the given entries (those measured to write private state), is cloned; the clone's private state is compared with
    that of a newly constructed context, and a clone of that clone likewise"""
    import mpmath
    mp = mpmath.mp
    mp.prec = prec
    ctxs = [mp, mpmath.iv, mpmath.fp]
    outs = [_eval(ctxs, 0, f)[0] for f in fnames]
    before = _private_state(mp)
    c = mp.clone()
    c2 = c.clone()
    new = type(mp)()
    new.prec = prec
    sn, sc, sc2, after = _private_state(new), _private_state(c), _private_state(c2), _private_state(mp)
    return {"outs": outs,
            "clone_differs": sorted(k for k in set(sn) | set(sc) if sn.get(k) != sc.get(k)),
            "clone_of_clone_differs": sorted(k for k in set(sn) | set(sc2) if sn.get(k) != sc2.get(k)),
            "parent_written_by_clone": sorted(k for k in set(before) | set(after) if before.get(k) != after.get(k)),
            "parent_nonempty": sorted(k for k in before if before[k] != sn.get(k))}


def _answer(req):
    if req["mode"] == "multi":
        return worker_multi(req["stmts"])
    if req["mode"] == "single":
        return worker_single(req["evals"])
    if req["mode"] == "structure":
        return worker_structure()
    if req["mode"] == "clone_private":
        return worker_clone_private(req["fnames"], req["prec"])
    if req["mode"] == "probe":     # the kinds own disjoint private state, so one pristine process serves all kinds of an entry
        return {k: worker_probe(req["fname"], k, req["prec"], req["sites"]) for k in req["kinds"]}
    return None


def worker_main():
    """reads a JSON list of requests; every request is answered by a FORKED child of this process, i.e. in a
    pristine copy of the state right after `import mpmath` (what a fresh process would have), for ~1 ms"""
    import select
    import mpmath  # noqa  (imported before forking; the parent never calls into it)
    if os.environ.get("VERIF_CTX_MUTANT"):       # mutation testing of the harness only (ctx_mutations.py)
        import ctx_mutations
        ctx_mutations.apply(os.environ["VERIF_CTX_MUTANT"])
    reqs = json.loads(sys.stdin.read())
    answers = []
    for req in reqs:
        rfd, wfd = os.pipe()
        pid = os.fork()
        if pid == 0:
            os.close(rfd)
            try:
                data = json.dumps(_answer(req))
            except BaseException as e:  # noqa
                data = json.dumps({"worker_error": "%s: %s" % (type(e).__name__, e)})
            with os.fdopen(wfd, "w") as f:
                f.write(data)
            os._exit(0)
        os.close(wfd)
        chunks = []
        deadline = time.time() + REQ_TIMEOUT
        ok = True
        while True:
            left = deadline - time.time()
            if left <= 0:
                ok = False
                break
            r, _, _ = select.select([rfd], [], [], left)
            if not r:
                ok = False
                break
            b = os.read(rfd, 1 << 16)
            if not b:
                break
            chunks.append(b)
        os.close(rfd)
        if not ok:
            try:
                os.kill(pid, signal.SIGKILL)
            except OSError:
                pass
        os.waitpid(pid, 0)
        answers.append(json.loads(b"".join(chunks).decode()) if ok and chunks else None)
    sys.stdout.write(json.dumps(answers))


# ------------------------------------------------------------------------------------------------
# harness side
# ------------------------------------------------------------------------------------------------

def call_workers(reqs, par=4):
    """answers for a list of requests; each request runs in its own forked pristine process image.
    A request that times out is answered None."""
    if not reqs:
        return []
    env = dict(os.environ)
    env["MPMATH_NOGMPY"] = "1"
    env["PYTHONPATH"] = REPO + os.pathsep + env.get("PYTHONPATH", "")
    par = max(1, min(par, len(reqs)))
    parts = [list(range(k, len(reqs), par)) for k in range(par)]

    def one(idx):
        try:
            p = subprocess.run([PY, os.path.abspath(__file__), "--worker"], input=json.dumps([reqs[i] for i in idx]),
                               stdout=subprocess.PIPE, stderr=subprocess.PIPE, text=True,
                               timeout=PROC_TIMEOUT + REQ_TIMEOUT * len(idx), env=env)
        except subprocess.TimeoutExpired:
            return [None] * len(idx)
        if p.returncode != 0:
            raise InfraError("ctx worker failed: " + p.stderr[-800:])
        return json.loads(p.stdout)

    out = [None] * len(reqs)
    with ThreadPoolExecutor(par) as ex:
        for idx, ans in zip(parts, ex.map(one, parts)):
            for i, a in zip(idx, ans):
                if isinstance(a, dict) and "worker_error" in a:
                    raise InfraError("ctx worker: " + a["worker_error"])
                out[i] = a
    return out


def call_worker(req):
    return call_workers([req], 1)[0]


LINK_ATTRS = ("_mp", "_fp", "_iv")
PROBE_PREC = 60          # precision of the probing evaluations (mp and iv); not the default on purpose


def link_sites(repo=None):
    """STATIC: every place of the package (tests excluded) where a function loads an attribute named _mp / _fp / _iv,
    i.e. reaches from one context object for another one: [relative file, innermost function, line, link]"""
    import ast
    root = os.path.join(repo or REPO, "mpmath")
    sites = []
    for dp, dn, fns in sorted(os.walk(root)):
        if os.sep + "tests" in dp:
            continue
        for f in sorted(fns):
            if not f.endswith(".py"):
                continue
            path = os.path.join(dp, f)
            try:
                tree = ast.parse(open(path, encoding="utf-8").read())
            except SyntaxError:
                continue
            funcs = [n for n in ast.walk(tree) if isinstance(n, (ast.FunctionDef, ast.AsyncFunctionDef))]
            for n in ast.walk(tree):
                if isinstance(n, ast.Attribute) and n.attr in LINK_ATTRS and isinstance(n.ctx, ast.Load):
                    inside = [fn for fn in funcs if fn.lineno <= n.lineno <= fn.end_lineno]
                    if not inside:
                        continue          # module level: the wiring in mpmath/__init__.py
                    fn = max(inside, key=lambda x: x.lineno)
                    sites.append([os.path.relpath(path, root), fn.name, n.lineno, n.attr])
    out = []
    for x in sorted(sites):
        if x not in out:
            out.append(x)
    return out


def probe(par=8):
    """MEASURED, per table entry and context kind, in pristine processes: the cross-link lines executed, the private
    state of the evaluating context written, the wall time.  -> (sites, {fname: {kind: answer-or-None}})"""
    sites = link_sites()
    keys = sorted(FUNS, key=lambda f: (FUNS[f][0] != "slow", f))       # the slow ones first (better packing)
    ans = call_workers([{"mode": "probe", "fname": f, "kinds": sorted(FUNS[f][2]), "prec": PROBE_PREC, "sites": sites}
                        for f in keys], par)
    table = {}
    for f, a in zip(keys, ans):
        table[f] = a if a is not None else {k: None for k in FUNS[f][2]}
    return sites, table


def cross_link_coverage(sites, table):
    """for every static link site: the table entries that execute that line FROM A CONTEXT OF ANOTHER KIND than the
    link's target (ctx._mp reached from fp or iv, ctx._fp from mp or iv, ctx._iv from mp or fp)"""
    cov = {}
    for rel, fn, line, link in sites:
        key = "%s:%s:%d:%s" % (rel, fn, line, link)
        by = []
        for f in sorted(table):
            for k, a in sorted(table[f].items()):
                if a and k != link[1:] and [rel, line] in a["lines"]:
                    by.append("%s.%s" % (k, f))
        cov[key] = by
    return cov


def model_tokens(stmts):
    return ["ev:" + s.split(":")[1] if s.startswith("ev:") else s for s in stmts]


def parse_model(ans):
    recs = []
    for r in ans.split(" / "):
        out, cells = r.split("|")
        cs = []
        for c in cells.split(";"):
            k, p, d, rn, t, y = c.split(",")
            cs.append([k, int(p), int(d), rn, int(t), int(y)])
        recs.append((out, cs))
    return recs


def ask_model(programs):
    lines = ["world " + " ".join(model_tokens(p)) for p in programs]
    return [parse_model(a) for a in Driver().ask(lines)]


class ProgGen:
    """random interleavings; a tiny shadow (number and kind of contexts only) keeps statements well-formed"""

    def __init__(self, seed):
        self.r = random.Random(seed)
        self.hist = {}

    def note(self, k, v):
        d = self.hist.setdefault(k, {})
        d[v] = d.get(v, 0) + 1

    def prec(self, tiny):
        r = self.r
        k = r.random()
        if tiny and k < 0.5:
            p = r.randint(-2, 9)
        elif k < 0.6:
            p = r.choice([10, 15, 24, 53, 64, 100, 113, 200, 333])
        else:
            p = r.randint(10, 400)
        self.note("prec", "tiny" if p < 10 else ("<=64" if p <= 64 else "<=400"))
        return p

    def dps(self, tiny):
        r = self.r
        d = r.randint(-1, 3) if (tiny and r.random() < 0.5) else r.choice([5, 15, 16, 30, 50, 77, 100]) if r.random() < 0.5 else r.randint(4, 120)
        return d

    def program(self, length, risk_p=0.35):
        r = self.r
        tiny = r.random() < 0.12
        self.note("program_class", "tiny-precisions" if tiny else "normal")
        names = [n for n, (cl, _, _) in FUNS.items() if cl == "elem"] if tiny else \
                [n for n, (cl, _, _) in FUNS.items() if cl in ("elem", "med")]
        fs = r.sample(names, 3)
        if not tiny and r.random() < risk_p:
            fs.append(r.choice([n for n, (cl, _, _) in FUNS.items() if cl == "risk"]))
            self.note("program_class", "with-risk-function")
        kinds = ["mp", "iv", "fp"]
        stmts = []
        # start with one or two clones most of the time
        for _ in range(r.choice([0, 1, 2, 2])):
            stmts.append("cl:0")
            kinds.append("mp")
        while len(stmts) < length:
            i = r.randrange(len(kinds))
            if r.random() < 0.6:      # prefer mp-kind contexts
                i = r.choice([k for k, kd in enumerate(kinds) if kd == "mp"])
            kd = kinds[i]
            k = r.random()
            if k < 0.22:
                s = "sp:%d:%d" % (i, self.prec(tiny))
            elif k < 0.34:
                s = "sd:%d:%d" % (i, self.dps(tiny))
            elif k < 0.40 and kd == "mp":
                s = "sr:%d:%s" % (i, r.choice(RNDS))
            elif k < 0.44:
                s = "st:%d:%d" % (i, r.randint(0, 1))
            elif k < 0.50:
                s = "sy:%d:%d" % (i, r.randint(0, 1))
            elif k < 0.53:
                s = "df:%d" % i
            elif k < 0.60 and len(kinds) < 7:
                s = "cl:%d" % i
                if kd == "mp":
                    kinds.append("mp")
            else:
                cand = [f for f in fs if kd in FUNS[f][2]]
                if not cand:
                    cand = [f for f in ("sqrt2", "pi", "div13")]
                f = r.choice(cand)
                s = "ev:%d:%s" % (i, f)
                self.note("eval_fun", f)
                self.note("eval_kind", kd)
            self.note("stmt", s.split(":")[0])
            stmts.append(s)
        return stmts


class SysGen(ProgGen):
    """SYSTEMATIC programs, one family per measured interaction class (parameters from the seeded PRNG):

    link     for every table entry that executes a cross-link line, and every kind of context that can evaluate it
             (fp, iv, mp itself, a clone): ALL other contexts are first given distinct non-default settings, then the
             entry is evaluated, then every context computes 1/3, then the entry is evaluated from another kind and
             (or the first again: cache hit).  The settings of every context are compared after every statement.
    history  for every table entry that writes state private to the evaluating context: the PARENT evaluates it at
             precision P1, is cloned, drops to P2 < P1; the clone (still at P1) evaluates, the parent evaluates, the clone
             goes to P3 <= P1 and evaluates again.  Second shape: the same with a clone as parent (clone of a clone)."""

    EVAL_ID = {"mp": 0, "iv": 1, "fp": 2, "clone": 3}

    def _precs(self, n, lo, hi):
        pool = [p for p in range(lo, hi + 1) if p != 53]
        return self.r.sample(pool, n)

    def link_program(self, f, e, others, slow):
        r = self.r
        hi = 64 if slow else 160
        pa, pb, pc = self._precs(3, 20, hi)
        sets = []
        for i, p in ((0, pa), (1, pb), (3, pc)):
            if r.random() < 0.25:
                sets.append("sd:%d:%d" % (i, max(6, int(p * 0.30103) - 1 + r.randint(0, 1))))
            else:
                sets.append("sp:%d:%d" % (i, p))
        r.shuffle(sets)
        stmts = ["cl:0"] + sets
        if not slow and r.random() < 0.25:
            stmts.append("sr:%d:%s" % (r.choice([0, 3]), r.choice(RNDS[1:])))
        if r.random() < 0.3:
            stmts.append("sy:%d:1" % r.choice([0, 1, 2, 3]))
        if r.random() < 0.2:
            stmts.append("st:%d:1" % r.choice([0, 3]))
        ie = self.EVAL_ID[e]
        stmts.append("ev:%d:%s" % (ie, f))
        stmts += ["ev:0:div13", "ev:3:div13", "ev:1:div13", "ev:2:div13"]
        if not slow:            # the same entry from another kind (its own private caches are still empty), or again (cache hit)
            stmts.append("ev:%d:%s" % (self.EVAL_ID[r.choice(others)] if others and r.random() < 0.7 else ie, f))
        self.note("program_class", "link")
        self.note("link_eval", "%s.%s" % (e, f))
        return stmts

    def link_programs(self, table, sites):
        """one program per (entry that executes a cross-link line, kind of evaluating context).  The global mp itself is
        an evaluator only if the entry reaches a link to ANOTHER kind from it (ctx._fp, ctx._iv; mp reaching itself through
        ctx._mp is the C11 matter) and the entry is not slow (seconds per call: evaluated once per program); a clone runs
        the same code and has the global mp, fp and iv as different contexts, so it always is one"""
        link_of = {(rel, line): link for rel, fn, line, link in sites}
        progs = []
        for f in sorted(table):
            slow = FUNS[f][0] == "slow"
            who = []
            for k in ("fp", "iv", "mp"):
                a = table[f].get(k)
                if a and a["lines"]:
                    foreign = any(link_of.get((rel, line), "_?")[1:] != k for rel, line in a["lines"])
                    who += [k] if k != "mp" else (["clone"] if (slow or not foreign) else ["clone", "mp"])
            for e in who:
                progs.append(self.link_program(f, e, [x for x in who if x != e], slow))
        return progs

    def history_program(self, f, shape, slow):
        r = self.r
        hi = 64 if slow else 220
        p1 = r.randint(max(30, hi // 3), hi)
        p2 = r.choice([p for p in (15, 24, 53) if p < p1] + [r.randint(10, p1 - 1), r.randint(10, p1 - 1), max(10, p1 - r.randint(1, 8))])
        p3 = r.randint(10, p1)
        if shape == 0:
            stmts = ["sp:0:%d" % p1, "ev:0:" + f, "cl:0", "sp:0:%d" % p2, "ev:3:" + f, "ev:0:" + f, "sp:3:%d" % p3, "ev:3:" + f]
        else:
            stmts = ["cl:0", "sp:3:%d" % p1, "ev:3:" + f, "cl:3", "sp:3:%d" % p2, "ev:4:" + f, "ev:3:" + f, "sp:4:%d" % p3,
                     "ev:4:" + f, "ev:0:" + f]
        self.note("program_class", "history")
        self.note("history_eval", f)
        return stmts

    def history_programs(self, table):
        """first shape for every entry that writes private state of an mp context (second shape for a seeded third of them,
        all of them in the thorough tier's repetitions); a slow entry only if it writes a state
        item that no other entry writes (every written item is exercised, every cheap writer is)"""
        writers = {f: set(a["touched"]) for f in sorted(table) for a in [table[f].get("mp")] if a and a["touched"]}
        cheap = {f for f in writers if FUNS[f][0] != "slow"}
        covered = set().union(*[writers[f] for f in cheap]) if cheap else set()
        chosen = sorted(cheap)
        for f in sorted(writers):
            if f not in cheap and writers[f] - covered:
                chosen.append(f)
                covered |= writers[f]
        progs = []
        for f in chosen:
            for shape in (0, 1):
                if shape == 0 or self.r.random() < 0.34:
                    progs.append(self.history_program(f, shape, FUNS[f][0] == "slow"))
        return progs


def reference_evals(stmts, model_rec):
    """the single-context reference program: one entry per `ev` statement, at the MODEL's settings"""
    evals, index = [], []
    for k, s in enumerate(stmts):
        if s.startswith("ev:"):
            _, i, f = s.split(":")
            out, cells = model_rec[k]
            if not out.startswith("at="):
                continue
            c = cells[int(i)]
            evals.append([c[0], c[1], c[2], c[3], c[4], c[5], f])
            index.append(k)
    return evals, index


def check_program(stmts, model_rec, multi, single, index):
    """compare one program's three executions.  Returns a dict:
      settings_leaks   [(k, j, observed, predicted)]  cell j != target changed by statement k      (property failure)
      model_mismatch   [(k, j, observed, predicted)]  the TARGET's cell / the outcome differs for a settings statement
      own_side_effect  [(k, observed, predicted)]     an evaluation changed its OWN context's settings (C11 matter);
                                                      comparison of this program stops there
      value_mismatch   [(k, observed, reference)]
      compared, undecided, checked_statements, nontrivial (set of hashes of (statement, settings) with >= 2 distinct cells)"""
    res = {"settings_leaks": [], "model_mismatch": [], "own_side_effect": [], "value_mismatch": [], "compared": 0,
           "undecided": 0, "checked_statements": 0, "nontrivial": set()}
    stop = len(stmts)
    for k, s in enumerate(stmts):
        out_m, cells_m = model_rec[k]
        obs = multi[k]
        tgt = int(s.split(":")[1])
        is_ev = s.startswith("ev:")
        bad_target = False
        if len(obs["state"]) != len(cells_m):
            res["model_mismatch"].append((k, -1, len(obs["state"]), len(cells_m)))
            stop = k
            break
        for j, (o, m) in enumerate(zip(obs["state"], cells_m)):
            if o[:6] != m or o[6] != 1:
                if j != tgt:
                    res["settings_leaks"].append((k, j, o, m))
                elif is_ev:
                    res["own_side_effect"].append((k, o, m))
                    bad_target = True
                else:
                    res["model_mismatch"].append((k, j, o, m))
                    bad_target = True
        oo = obs["out"]
        oc = oo if isinstance(oo, str) else "at"
        mc = "at" if out_m.startswith("at=") else out_m
        if oc != mc:
            res["model_mismatch"].append((k, tgt, "outcome:" + str(oc), "outcome:" + mc))
        res["checked_statements"] += 1
        if len({tuple(c[1:]) for c in cells_m}) >= 2:
            res["nontrivial"].add(hash((s, tuple(tuple(c) for c in cells_m))))
        if bad_target or res["settings_leaks"]:
            stop = k + 1
            break
    for n, k in enumerate(index):
        if k >= stop:
            break
        a = multi[k]["out"]
        b = single[n]
        if a[0] in ("timeout", "nofun") or b[0] in ("timeout", "nofun"):
            res["undecided"] += 1
            continue
        res["compared"] += 1
        if a != b:
            res["value_mismatch"].append((k, a, b))
    return res


def projection_reference(stmts, model_rec, k):
    """secondary reference for the evaluation at statement k: a fresh single-context process that performs only
    the evaluations of the SAME context, in order (per-context caches as in the interleaved run)"""
    i = stmts[k].split(":")[1]
    sub = [(n, s) for n, s in enumerate(stmts[:k + 1]) if s.startswith("ev:") and s.split(":")[1] == i]
    evals = []
    for n, s in sub:
        out, cells = model_rec[n]
        c = cells[int(i)]
        evals.append([c[0], c[1], c[2], c[3], c[4], c[5], s.split(":")[2]])
    ans = call_worker({"mode": "single", "evals": evals})
    return None if ans is None else ans[-1]


def run_programs(programs, par=4):
    """execute programs: model, real multi-context, single-context reference"""
    model = ask_model(programs)
    multis = call_workers([{"mode": "multi", "stmts": p} for p in programs], par)
    refs_in = [reference_evals(p, m) for p, m in zip(programs, model)]
    singles = call_workers([{"mode": "single", "evals": e[0]} for e in refs_in], par)
    return model, multis, refs_in, singles


def run_many(progs, par=4):
    """check results (or None) for a list of programs, each in pristine processes"""
    if not progs:
        return []
    model, multis, refs_in, singles = run_programs(progs, par=par)
    out = []
    for p, m, mu, ri, si in zip(progs, model, multis, refs_in, singles):
        out.append(None if (mu is None or si is None) else check_program(p, m, mu, si, ri[1]))
    return out


def run_one(stmts):
    return run_many([stmts], par=1)[0]


def minimize(stmts, pred, rounds=4):
    """statement removal keeping `pred(stmts, check_result)` true.  Each round tries ALL single removals as one
    batch of pristine processes, then the joint removal of every statement that could be removed alone (falling
    back to the first single removal).  Removing a `cl` would renumber later clone ids, so `cl` statements are
    kept, except trailing unused clones."""
    cur = list(stmts)
    # first the cheapest big step: every evaluation but the last one removed (settings-only prefixes explain most leaks;
    # a failure that needs the cache history of earlier evaluations keeps them and goes through the rounds below)
    cand = [s for s in cur[:-1] if not s.startswith("ev:")] + cur[-1:]
    if len(cand) < len(cur):
        r = run_one(cand)
        if r is not None and pred(cand, r):
            cur = cand
    for _ in range(rounds):
        ks = [k for k, s in enumerate(cur) if not s.startswith("cl:")]
        cands = [cur[:k] + cur[k + 1:] for k in ks]
        cands = [c for c in cands if c]
        if not cands:
            break
        rs = run_many(cands)
        ok = [n for n, r in enumerate(rs) if r is not None and pred(cands[n], r)]
        if not ok:
            break
        drop = {ks[n] for n in ok}
        joint = [s for k, s in enumerate(cur) if k not in drop]
        r = run_one(joint) if joint else None
        if r is not None and pred(joint, r):
            cur = joint
        else:
            cur = cands[ok[0]]
    while True:
        ncl = sum(1 for s in cur if s.startswith("cl:"))
        last = 2 + ncl
        if ncl and not any(int(s.split(":")[1]) == last for s in cur):
            idx = max(n for n, s in enumerate(cur) if s.startswith("cl:"))
            cand = cur[:idx] + cur[idx + 1:]
            r = run_one(cand) if cand else None
            if r is not None and pred(cand, r):
                cur = cand
                continue
        break
    return cur


if __name__ == "__main__":
    if len(sys.argv) > 1 and sys.argv[1] == "--worker":
        worker_main()
    else:
        seed = int(sys.argv[1]) if len(sys.argv) > 1 else 0
        n = int(sys.argv[2]) if len(sys.argv) > 2 else 30
        g = ProgGen(seed)
        progs = [g.program(24) for _ in range(n)]
        t0 = time.time()
        model, multis, refs_in, singles = run_programs(progs)
        ns = nv = nc = nu = 0
        for p, m, mu, ri, si in zip(progs, model, multis, refs_in, singles):
            if mu is None or si is None:
                nu += 1
                continue
            r = check_program(p, m, mu, si, ri[1])
            nc += r["compared"]; nu += r["undecided"]
            sm = r["settings_leaks"] + r["model_mismatch"] + r["own_side_effect"]
            vm = r["value_mismatch"]
            if sm:
                ns += 1
                print("STATE", sm[:2], " ".join(p))
            if vm:
                nv += 1
                print("VALUE", [(k, p[k], a[:2], b[:2]) for k, a, b in vm[:2]], " ".join(p))
        print("programs=%d state-mismatch-programs=%d value-mismatch-programs=%d values-compared=%d undecided=%d wall=%.1fs"
              % (n, ns, nv, nc, nu, time.time() - t0))
        print(json.dumps(g.hist)[:1500])
