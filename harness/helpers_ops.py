"""T1 operation table for the small helpers (C39 magnitude / nearest integer / classification, C40 pickling and
copying, C09 machine floats).  Model: lean/MpModel/Helpers.lean through the ops of lean/MpModel/DrvHelpers.lean.

Every gen_<op>(g) returns (request line for mpdrv, thunk calling the real code and returning the ENCODED answer, meta).
The real code is reached through the public `mp` API wherever there is one (mp.mag, mp.nint_distance, mp.isint,
mp.isnpint, mp.isnormal, mp.isinf, mp.isnan, mp.isfinite, mp.ldexp, mp.frexp, mp.mpf(float), float(mpf), complex(mpc),
pickle.dumps/loads, copy.copy/deepcopy, matrix.copy), and directly for to_pickable/from_pickable/from_float/to_float.
"""
from common import *  # noqa
import struct, math, pickle, copy


def _mods():
    import_repo()
    import mpmath
    import mpmath.libmp.libmpf as L
    import mpmath.libmp.libmpc as LC
    from mpmath.rational import mpq
    return mpmath, L, LC, mpq


def f2bits(f):
    return struct.unpack(">Q", struct.pack(">d", f))[0]


def bits2f(b):
    return struct.unpack(">d", struct.pack(">Q", b))[0]


def enc_dbl(f):
    if f != f:
        return "D:nan"
    return "D:%016x" % f2bits(f)


def enc_any(e):
    return enc_exc(e)


class HelperOps:
    def __init__(self):
        self.mpmath, self.L, self.LC, self.mpq = _mods()
        self.mp = self.mpmath.mp
        self.mp.prec = 53
        self.mp.pretty = False

    # ------------------------------------------------------------------ encoders
    def enc_mag(self, v):
        mp = self.mp
        if isinstance(v, int):
            return "I:%d" % v
        if hasattr(v, "_mpf_"):
            t = v._mpf_
            L = self.L
            if t == L.fninf: return "X:-inf"
            if t == L.finf: return "X:+inf"
            if t == L.fnan: return "X:nan"
        return "?:" + repr(v)

    def enc_nd(self, v):
        n, d = v
        if not isinstance(n, int) or isinstance(n, bool):
            return "?:n=" + repr(n)
        return "P:I:%d,%s" % (n, self.enc_mag(d))

    def safe(self, thunk):
        def run():
            try:
                return thunk()
            except RecursionError:
                raise
            except Exception as e:  # noqa
                return enc_exc(e)
        return run

    # ------------------------------------------------------------------ operand generators
    def bits(self, g):
        """a structured binary64 bit pattern"""
        r = g.r
        k = r.random()
        sign = r.getrandbits(1)
        if k < 0.10:
            ex = r.choice([0, 0, 1, 2, 2046, 2047, 1023, 1022, 1024, 1075, 1074, 52, 53])
        elif k < 0.55:
            ex = r.randrange(2048)
        elif k < 0.70:
            ex = 0
        elif k < 0.75:
            ex = 2047
        else:
            ex = r.randint(1023 - 60, 1023 + 60)
        j = r.random()
        if j < 0.15:
            fr, shape = 0, "zero"
        elif j < 0.25:
            fr, shape = 1, "one"
        elif j < 0.35:
            fr, shape = (1 << 52) - 1, "allones"
        elif j < 0.45:
            fr, shape = 1 << 51, "top"
        elif j < 0.55:
            fr, shape = r.getrandbits(r.randint(1, 12)), "low"
        elif j < 0.65:
            fr, shape = r.getrandbits(r.randint(1, 12)) << r.randint(0, 40), "mid"
        elif j < 0.72:
            fr, shape = ((1 << 52) - 1) ^ r.getrandbits(3), "allones-"
        else:
            fr, shape = r.getrandbits(52), "random"
        fr &= (1 << 52) - 1
        cls = "nan" if (ex == 2047 and fr) else "inf" if ex == 2047 else "zero" if (ex == 0 and fr == 0) else \
            "subnormal" if ex == 0 else "normal"
        g.note("dbl_class", cls)
        g.note("dbl_frac", shape)
        return (sign << 63) | (ex << 52) | fr

    def real_shapes(self, g):
        """an mpf tuple with shapes interesting for nint_distance / isint / mag"""
        L = self.L
        r = g.r
        k = r.random()
        sg = r.choice([1, -1])
        if k < 0.05:
            g.note("real_shape", "special"); return g.special()
        if k < 0.17:
            g.note("real_shape", "int")
            n = r.choice([0, 1, 2, 3, 7, 8, 255, 256, r.getrandbits(r.randint(1, 200))])
            return L.from_int(sg * n)
        if k < 0.30:
            g.note("real_shape", "half-int")
            n = r.choice([0, 1, 2, 3, 7, 8, 255, 256, r.getrandbits(r.randint(1, 120))])
            return L.from_man_exp(sg * (2 * n + 1), -1)
        if k < 0.50:
            g.note("real_shape", "near-int")
            n = r.choice([0, 1, 2, 5, 1000, r.getrandbits(r.randint(1, 100))])
            j = r.randint(1, 300)
            m = (n << j) + r.choice([1, -1, 3, -3, (1 << (j - 1)) - 1, (1 << (j - 1)) + 1, -(1 << (j - 1)) + 1])
            return L.from_man_exp(sg * m, -j)
        if k < 0.62:
            g.note("real_shape", "near-half")
            n = r.getrandbits(r.randint(1, 60))
            j = r.randint(2, 200)
            m = ((2 * n + 1) << (j - 1)) + r.choice([1, -1, 5, -5])
            return L.from_man_exp(sg * m, -j)
        if k < 0.74:
            g.note("real_shape", "small")
            nb = r.randint(1, 80)
            m = g.man(nb)
            return L.from_man_exp(sg * m, -nb - r.choice([0, 1, 2, 3, 50, 2000, -1]))
        g.note("real_shape", "generic")
        return g.finite(None)

    def operand(self, g, kinds="fcidqs", complex_ok=True):
        """returns (kind, python object to hand to the API, list of tokens for the model)"""
        mp, L, mpq = self.mp, self.L, self.mpq
        r = g.r
        kind = r.choice(kinds)
        g.note("operand_kind", kind)
        if kind == "f":
            t = self.real_shapes(g)
            return "f", mp.make_mpf(t), [enc_mpf(t)]
        if kind == "c":
            a = self.real_shapes(g)
            b = self.real_shapes(g) if r.random() < 0.7 else L.fzero
            if r.random() < 0.1:
                a = L.fzero
            if r.random() < 0.15:
                # one part just below a power of two (all-ones mantissa, usually longer than the working precision), the other a
                # given number of binary orders below it: |z| crosses 2^m exactly when the small part exceeds about sqrt(2 * big),
                # i.e. for gaps up to half the mantissa length -- where "the small part is negligible" shortcuts go wrong
                k = r.choice([8, 30, 53, 54, 64, 100, 200, r.randint(2, 400)])
                e = r.randint(-300, 300)
                big = L.from_man_exp(((1 << k) - r.choice([1, 1, 1, 2, 3])) * r.choice([1, -1]), e)
                gap = r.choice([1, 2, k // 2 - 1, k // 2, k // 2 + 1, k // 2 + 2, k - 1, k, k + 3, r.randint(1, k + 8)])
                sm = L.from_man_exp(r.choice([1, 1, 3, 5, r.getrandbits(20) | 1]) * r.choice([1, -1]), e + k - gap - 1)
                a, b = (big, sm) if r.random() < 0.5 else (sm, big)
            return "c", mp.make_mpc((a, b)), [enc_mpf(a), enc_mpf(b)]
        if kind == "i":
            n = r.choice([0, 1, -1, 2, -2, 3, 255, -256, 2 ** 64, -(2 ** 64) + 1,
                          r.getrandbits(r.randint(1, 300)) * r.choice([1, -1])])
            return "i", n, [str(n)]
        if kind == "d":
            b = self.bits(g)
            if r.random() < 0.5:
                # floats that are integers / half-integers / near-integers
                v = r.choice([0.0, -0.0, 0.5, -0.5, 1.5, -2.5, 3.0, -3.0, 1e16, 2.0 ** 60 + 2 ** 8, 0.49999999999999994,
                              4.000000000000001, -7.999999999999999, 1e-300, 5e-324])
                b = f2bits(v)
            return "d", bits2f(b), ["D%016x" % b]
        if kind == "q":
            p = r.choice([0, 1, -1, 5, -5, 7, -7, 3, r.getrandbits(r.randint(1, 200)) * r.choice([1, -1])])
            q = r.choice([1, 2, 2, 3, 4, 7, 8, 2 ** 40, r.getrandbits(r.randint(1, 200)) + 1])
            if r.random() < 0.03 and p != 0:
                q = 0   # malformed: ZeroDivisionError in isint / nint_distance (mpq(0, 0) itself cannot be built)
            v = mpq(p, q)
            pp, qq = v._mpq_
            return "q", v, [str(pp), str(qq)]
        if kind == "s":
            s = r.choice(["0", "1", "-1", "2.5", "-2.5", "0.5", "-0.5", "3.25", "1e10", "1e-10", "0.1", "-0.1",
                          "123456789.5", "7", "-7.0", "inf", "-inf", "nan", "1e400", "0.49999", "2.0000001",
                          "%d" % r.getrandbits(70), "%d.5" % r.getrandbits(40), "-%d.25" % r.getrandbits(30)])
            v = mp.convert(s)
            return "s", s, [enc_mpf(v._mpf_)]
        raise AssertionError(kind)

    def fc(self, kind):
        """model op suffix of an operand kind: float and str operands are converted to an mpf first"""
        return {"f": "f", "d": "f", "s": "f", "c": "c", "i": "i", "q": "q"}[kind]

    # ------------------------------------------------------------------ C39
    def gen_mag(self, g):
        kind, x, toks = self.operand(g)
        return "mag_%s %s" % (self.fc(kind), " ".join(toks)), self.safe(lambda: self.enc_mag(self.mp.mag(x))), {"raw": True}

    def gen_nint_distance(self, g):
        kind, x, toks = self.operand(g)
        # `man << exp` with an astronomically large exp is a MemoryError in Python and a panic in Lean: the
        # exact-integer branch is exercised with exponents up to a few thousand only
        while any(t.count(":") == 3 and int(t.split(":")[2]) > 100000 and t.split(":")[1] != "0" for t in toks):
            kind, x, toks = self.operand(g)
        return "nint_%s %s" % (self.fc(kind), " ".join(toks)), \
            self.safe(lambda: self.enc_nd(self.mp.nint_distance(x))), {"raw": True}

    def gen_isint(self, g):
        kind, x, toks = self.operand(g)
        ga = g.r.random() < 0.4
        sfx = self.fc(kind)
        line = "isint_%s %s" % (sfx, " ".join(toks)) + ((" 1" if ga else " 0") if sfx == "c" else "")
        return line, self.safe(lambda: enc_result(bool(self.mp.isint(x, gaussian=ga)))), {"raw": True}

    def gen_isnpint(self, g):
        kind, x, toks = self.operand(g)
        return "isnpint_%s %s" % (self.fc(kind), " ".join(toks)), \
            self.safe(lambda: enc_result(bool(self.mp.isnpint(x)))), {"raw": True}

    def _classify(self, g, name):
        kind, x, toks = self.operand(g)
        sfx = self.fc(kind)
        f = getattr(self.mp, name)
        if sfx in "iq" and name != "isnormal":
            # ints and rationals: constant answers of the code (False / False / True)
            const = {"isinf": "B:0", "isnan": "B:0", "isfinite": "B:1"}[name]
            # ask the model something trivial with the same answer to keep the stream aligned
            line = "isint_i 0" if const == "B:1" else "isnormal_i 0"
            return line, self.safe(lambda: enc_result(bool(f(x)))), {"raw": True}
        return "%s_%s %s" % (name, sfx, " ".join(toks)), self.safe(lambda: enc_result(bool(f(x)))), {"raw": True}

    def gen_isnormal(self, g): return self._classify(g, "isnormal")
    def gen_isinf(self, g): return self._classify(g, "isinf")
    def gen_isnan(self, g): return self._classify(g, "isnan")
    def gen_isfinite(self, g): return self._classify(g, "isfinite")

    def gen_ldexp(self, g):
        kind, x, toks = self.operand(g, kinds="ffdis")
        r = g.r
        n = r.choice([0, 1, -1, 10, -3, 1074, -1074, r.randint(-5000, 5000), r.choice([1, -1]) * 10 ** r.randint(6, 30)])
        tok = toks[0] if kind != "i" else enc_mpf(self.L.from_int(x))
        return "ldexp %s %d" % (tok, n), self.safe(lambda: enc_mpf(self.mp.ldexp(x, n)._mpf_)), {"raw": True}

    def gen_frexp(self, g):
        kind, x, toks = self.operand(g, kinds="ffdis")
        tok = toks[0] if kind != "i" else enc_mpf(self.L.from_int(x))

        def th():
            y, n = self.mp.frexp(x)
            return "P:%s,I:%d" % (enc_mpf(y._mpf_), n)
        return "hfrexp %s" % tok, self.safe(th), {"raw": True}

    # ------------------------------------------------------------------ C40
    def any_tuple(self, g):
        """canonical values of any mantissa length, specials, and a few non-canonical tuples"""
        L = self.L
        r = g.r
        k = r.random()
        if k < 0.12:
            g.note("tuple", "special"); return g.special()
        if k < 0.30:
            nb = r.choice([1, 2, 3, 4, 5, 8, 15, 16, 17, 31, 32, 33, 63, 64, 65, 4095, 4096, 4097, 20000, r.randint(1, 20000)])
            g.note("tuple", "long" if nb > 1000 else "short")
            m = g.man(nb)
            return L.from_man_exp(m * r.choice([1, -1]), g.exp())
        if k < 0.38:
            g.note("tuple", "noncanonical")
            m = r.getrandbits(r.randint(1, 70)) << r.randint(0, 9)
            return (r.choice([0, 1]), m, g.exp(), r.randint(-3, 80))
        g.note("tuple", "finite")
        return g.finite(None)

    def enc_pickled(self, p):
        s, m, e, b = p
        if not isinstance(m, str):
            return "?:man=" + repr(m)
        return "K:%d,%s,%d,%d" % (s, m, e, b)

    def gen_to_pickable(self, g):
        t = self.any_tuple(g)
        return "to_pickable " + enc_mpf(t), self.safe(lambda: self.enc_pickled(self.L.to_pickable(t))), {"raw": True}

    def gen_from_pickable(self, g):
        L = self.L
        r = g.r
        t = self.any_tuple(g)
        s, m, e, b = L.to_pickable(t)
        k = r.random()
        if k < 0.10:
            m = r.choice(["", "g", "xyz", "12g", "-", "0x", " ", "é"]); g.note("hex", "malformed")
        elif k < 0.18:
            m = m.upper(); g.note("hex", "upper")
        elif k < 0.24:
            m = "000" + m; g.note("hex", "leading-zeros")
        else:
            g.note("hex", "wellformed")
        if " " in m:
            m = "z"      # the line protocol is space separated: keep malformed strings blank-free
        return "from_pickable %d s%s %d %d" % (s, m, e, b), \
            self.safe(lambda: enc_mpf(L.from_pickable((s, m, e, b)))), {"raw": True}

    def _roundtrip(self, g, v, field):
        """pickle over a random protocol / copy.copy / copy.deepcopy; type identity, ==, repr checked here,
        the state tuple is compared with the model by the caller"""
        r = g.r
        how = r.choice(["pickle%d" % p for p in range(pickle.HIGHEST_PROTOCOL + 1)] + ["copy", "deepcopy", "getstate"])
        g.note("roundtrip", how)
        if how.startswith("pickle"):
            w = pickle.loads(pickle.dumps(v, int(how[6:])))
        elif how == "copy":
            w = copy.copy(v)
        elif how == "deepcopy":
            w = copy.deepcopy(v)
        else:
            w = type(v).__new__(type(v)); w.__setstate__(v.__getstate__())
        if type(w) is not type(v):
            return None, "?:type %r" % type(w)
        a, b = getattr(v, field), getattr(w, field)
        isnan = self.mp.isnan(v)
        if not isnan and not (w == v):
            return None, "?:not-equal"
        if a != b:
            return w, None      # the caller's comparison with the model reports it (repr of a wrong tuple may not terminate)
        parts = [a] if field == "_mpf_" else list(a)
        if any(abs(t[2]) > 5000 or t[1].bit_length() > 5000 or (t[1] == 0 and t not in
               (self.L.fzero, self.L.finf, self.L.fninf, self.L.fnan)) for t in parts):
            # repr() goes through to_str: astronomically large exponents take minutes there, > ~14000-bit mantissas
            # hit CPython's 4300-digit int->str limit, non-canonical zero-mantissa tuples have no repr at all.
            # None of this is a pickling matter: the repr comparison is made for ordinary sizes only.
            g.note("roundtrip_repr", "skipped")
            return w, None
        rv = repr(v)
        if repr(w) != rv:
            return None, "?:repr"
        g.note("roundtrip_repr", "compared")
        return w, None

    def gen_pickle_mpf(self, g):
        t = self.any_tuple(g)
        v = self.mp.make_mpf(t)

        def th():
            w, err = self._roundtrip(g, v, "_mpf_")
            return err or enc_mpf(w._mpf_)
        return "pickle_rt " + enc_mpf(t), self.safe(th), {"raw": True}

    def gen_pickle_mpc(self, g):
        a, b = self.any_tuple(g), self.any_tuple(g)
        v = self.mp.make_mpc((a, b))

        def th():
            w, err = self._roundtrip(g, v, "_mpc_")
            return err or "P:%s,%s" % (enc_mpf(w._mpc_[0]), enc_mpf(w._mpc_[1]))
        return "mpc_pickle_rt %s %s" % (enc_mpf(a), enc_mpf(b)), self.safe(th), {"raw": True}

    def gen_getstate_mpc(self, g):
        a, b = self.any_tuple(g), self.any_tuple(g)
        v = self.mp.make_mpc((a, b))

        def th():
            p, q = v.__getstate__()
            return self.enc_pickled(p) + ";" + self.enc_pickled(q)
        return "mpc_getstate %s %s" % (enc_mpf(a), enc_mpf(b)), self.safe(th), {"raw": True}

    def entry(self, g):
        """(python value to assign, model token)"""
        L, mp = self.L, self.mp
        r = g.r
        k = r.random()
        if k < 0.15:
            g.note("entry", "zero"); return mp.make_mpf(L.fzero), "F" + enc_mpf(L.fzero)
        if k < 0.25:
            n = r.randint(-9, 9); g.note("entry", "int"); return n, "F" + enc_mpf(L.from_int(n))
        if k < 0.32:
            g.note("entry", "mpc-zero"); return mp.make_mpc((L.fzero, L.fzero)), "C%s/%s" % (enc_mpf(L.fzero), enc_mpf(L.fzero))
        if k < 0.60:
            a, b = g.mpf(None, big_exp=False), g.mpf(None, big_exp=False)
            g.note("entry", "mpc"); return mp.make_mpc((a, b)), "C%s/%s" % (enc_mpf(a), enc_mpf(b))
        a = g.mpf(None, big_exp=False)
        g.note("entry", "mpf"); return mp.make_mpf(a), "F" + enc_mpf(a)

    def gen_matrix_copy(self, g):
        mp = self.mp
        r = g.r
        rows, cols = r.randint(1, 4), r.randint(1, 4)
        init, sets = [], []
        for _ in range(r.randint(0, rows * cols + 2)):
            v, tok = self.entry(g)
            init.append((0, r.randrange(rows), r.randrange(cols), v, tok))
        for _ in range(r.randint(0, 6)):
            v, tok = self.entry(g)
            i, j = r.randrange(rows), r.randrange(cols)
            if r.random() < 0.04:
                i = rows + r.randint(0, 2)       # malformed: IndexError
            sets.append((r.getrandbits(1), i, j, v, tok))
        how = r.choice(["copy", "copy.copy", "deepcopy"])
        g.note("matrix_copy", how)
        line = "mat %d %d " % (rows, cols) + " ".join("%d %d %d %s" % (w, i, j, t) for (w, i, j, v, t) in init) + \
            " | " + " ".join("%d %d %d %s" % (w, i, j, t) for (w, i, j, v, t) in sets)

        def dump(M):
            out = []
            for i in range(M.rows):
                for j in range(M.cols):
                    e = M[i, j]
                    if hasattr(e, "_mpf_"):
                        out.append("F" + enc_mpf(e._mpf_))
                    elif hasattr(e, "_mpc_"):
                        out.append("C%s/%s" % (enc_mpf(e._mpc_[0]), enc_mpf(e._mpc_[1])))
                    else:
                        out.append("?:" + repr(e))
            return "%dx%d[%s]" % (M.rows, M.cols, ";".join(out))

        def th():
            A = mp.matrix(rows, cols)
            try:
                for (w, i, j, v, t) in init:
                    A[i, j] = v
                B = A.copy() if how == "copy" else copy.copy(A) if how == "copy.copy" else copy.deepcopy(A)
                if type(B) is not type(A):
                    return "?:type"
                for (w, i, j, v, t) in sets:
                    (A if w == 0 else B)[i, j] = v
            except IndexError:
                return "E:IndexError"
            return "M:" + dump(A) + "|" + dump(B)
        return line, self.safe(th), {"raw": True}

    # ------------------------------------------------------------------ C09
    def gen_from_float(self, g):
        b = self.bits(g)
        r = g.r
        prec = r.choice([53, 53, 53, 60, 100, 52, 24, 10, 2, 1, r.randint(1, 70)])
        rnd = g.rnd()
        f = bits2f(b)
        return "from_float %016x %d %s" % (b, prec, rnd), \
            self.safe(lambda: enc_mpf(self.L.from_float(f, prec, rnd))), {"raw": True}

    def gen_mpf_of_float(self, g):
        """mp.mpf(f), mp.mpc(complex): exact at the default precision"""
        b1, b2 = self.bits(g), self.bits(g)
        f1, f2 = bits2f(b1), bits2f(b2)
        if g.r.random() < 0.5:
            return "from_float %016x 53 n" % b1, self.safe(lambda: enc_mpf(self.mp.mpf(f1)._mpf_)), {"raw": True}

        def th():
            z = self.mp.mpc(complex(f1, f2))
            return enc_mpf(z._mpc_[0]) + "|" + enc_mpf(z._mpc_[1])
        # two requests in one line are not possible: compare the parts separately through the real part only
        return "from_float %016x 53 n" % b1, self.safe(lambda: enc_mpf(self.mp.mpc(complex(f1, f2))._mpc_[0])), {"raw": True}

    def float_operand(self, g):
        """mpf tuples stressing to_float: ties at 54 bits, overflow and underflow thresholds, subnormals"""
        L = self.L
        r = g.r
        sg = r.choice([1, -1])
        k = r.random()
        if k < 0.05:
            g.note("tofloat_shape", "special"); return g.special()
        if k < 0.20:
            g.note("tofloat_shape", "exact-double")
            return L.from_float(bits2f(self.bits(g) & ~(0x7ff << 52) | (r.randrange(2047) << 52)))
        if k < 0.40:
            g.note("tofloat_shape", "tie54+")
            hi = (1 << 52) | r.getrandbits(52)
            if r.random() < 0.25: hi = (1 << 53) - 1
            n = r.choice([1, 1, 2, 3, 10, 60, 500])
            half = 1 << (n - 1)
            lo = r.choice([half, half, half - 1 if n > 1 else half, half + 1 if n > 1 else half, 0, 1, (1 << n) - 1])
            e = r.choice([r.randint(-1074 - n, 971 - n + 1), r.randint(-60, 60) - n, 971 - n, 970 - n, -1074 - n, -1075 - n])
            return L.from_man_exp(sg * ((hi << n) | lo), e)
        if k < 0.55:
            g.note("tofloat_shape", "near-2^1024")
            t = r.choice([0, 1, 2, 5, 60])
            j = r.choice([0, 1, 2, 3, 4])
            m = (1 << (53 + t + 1)) + r.choice([-1, 1]) * j * (1 << r.choice([0, t, t + 1] if t else [0, 1])) - r.choice([0, 0, 1])
            if m <= 0: m = 1
            return L.from_man_exp(sg * m, 1024 - (53 + t + 1))
        if k < 0.70:
            g.note("tofloat_shape", "near-2^-1022")
            t = r.choice([0, 1, 2, 5, 60])
            j = r.choice([0, 1, 2, 3, 4])
            m = (1 << (52 + t + 2)) + r.choice([-1, 1]) * j * (1 << r.choice([0, 1, t + 1, t + 2])) + r.choice([0, 0, 1, -1])
            if m <= 0: m = 1
            return L.from_man_exp(sg * m, -1022 - (52 + t + 2))
        if k < 0.85:
            g.note("tofloat_shape", "subnormal-range")
            nb = r.choice([1, 2, 3, 10, 52, 53, 54, 60, 120])
            m = g.man(nb, None)
            top = r.randint(-1082, -1018)
            return L.from_man_exp(sg * m, top - nb)
        if k < 0.90:
            g.note("tofloat_shape", "unnormalized")
            m = r.getrandbits(r.randint(1, 60)) | 1
            sh = r.randint(1, 8)
            mm = m << sh
            return (0 if sg > 0 else 1, mm, r.randint(-1100, 1000), mm.bit_length())
        g.note("tofloat_shape", "generic")
        return g.finite(53)

    def gen_to_float(self, g):
        x = self.float_operand(g)
        strict = g.r.random() < 0.3
        rnd = g.rnd() if g.r.random() < 0.5 else "n"
        return "to_float %s %d %s" % (enc_mpf(x), 1 if strict else 0, rnd), \
            self.safe(lambda: enc_dbl(self.L.to_float(x, strict, rnd))), {"raw": True}

    def gen_float_api(self, g):
        """float(mpf) and complex(mpc) under the context rounding mode (default 'n')"""
        x, y = self.float_operand(g), self.float_operand(g)
        if g.r.random() < 0.6:
            return "to_float %s 0 n" % enc_mpf(x), self.safe(lambda: enc_dbl(float(self.mp.make_mpf(x)))), {"raw": True}

        def th():
            z = complex(self.mp.make_mpc((x, y)))
            return "P:%s,%s" % (enc_dbl(z.real), enc_dbl(z.imag))
        return "to_complex %s %s 0 n" % (enc_mpf(x), enc_mpf(y)), self.safe(th), {"raw": True}

    def gen_to_complex(self, g):
        x, y = self.float_operand(g), self.float_operand(g)
        strict = g.r.random() < 0.3
        rnd = g.rnd()

        def th():
            z = self.LC.mpc_to_complex((x, y), strict, rnd)
            return "P:%s,%s" % (enc_dbl(z.real), enc_dbl(z.imag))
        return "to_complex %s %s %d %s" % (enc_mpf(x), enc_mpf(y), 1 if strict else 0, rnd), self.safe(th), {"raw": True}

    def gen_ldexpd(self, g):
        """validates the model of C ldexp (roundToDouble) directly against CPython's math.ldexp"""
        b = self.bits(g)
        r = g.r
        f = bits2f(b)
        ex = (b >> 52) & 0x7ff
        # aim results at the subnormal range, the overflow threshold, and anywhere
        k = r.random()
        if k < 0.45:
            i = -(ex - 1023) - r.randint(1015, 1085)
        elif k < 0.7:
            i = 1023 - (ex - 1023) + r.randint(-3, 3)
        elif k < 0.95:
            i = r.randint(-2200, 2200)
        else:
            i = r.choice([1, -1]) * 10 ** r.randint(4, 25)
        g.note("ldexpd", "sub" if k < 0.45 else "ovf" if k < 0.7 else "any" if k < 0.95 else "huge")

        def th():
            try:
                return enc_dbl(math.ldexp(f, i))
            except OverflowError:
                return "E:OverflowError"
        return "ldexpd %016x %d" % (b, i), th, {"raw": True}

    def gen_int2d(self, g):
        """float(int) of CPython against the model's intToDouble"""
        r = g.r
        nb = r.choice([1, 2, 52, 53, 54, 55, 64, 100, 1023, 1024, 1025, r.randint(1, 1100)])
        m = g.man(nb, 53)
        sg = r.getrandbits(1)

        def th():
            try:
                return enc_dbl(float(-m if sg else m))
            except OverflowError:
                return "E:OverflowError"
        return "int2d %d %x" % (sg, m), th, {"raw": True}


C39_OPS = ["mag", "nint_distance", "isint", "isnpint", "isnormal", "isinf", "isnan", "isfinite", "ldexp", "frexp"]
C40_OPS = ["to_pickable", "from_pickable", "pickle_mpf", "pickle_mpc", "getstate_mpc", "matrix_copy"]
C09_OPS = ["from_float", "mpf_of_float", "to_float", "float_api", "to_complex", "ldexpd", "int2d"]
ALL_HELPER_OPS = C39_OPS + C40_OPS + C09_OPS


def run_t1(ops, ncases, seed, ho=None):
    """Generate ncases over `ops`, run the real code and the model, return (stats, disagreements, gen)."""
    ho = ho or HelperOps()
    g = Gen(seed)
    lines, impl_out, opnames = [], [], []
    for i in range(ncases):
        op = ops[i % len(ops)]
        line, thunk, meta = getattr(ho, "gen_" + op)(g)
        ho.mp.prec = 53
        res = thunk()
        lines.append(line); impl_out.append(res); opnames.append(op)
    model_out = Driver().ask(lines)
    dis, per_op = [], {}
    for i, (a, b) in enumerate(zip(impl_out, model_out)):
        d = per_op.setdefault(opnames[i], [0, 0])
        d[0] += 1
        if a != b:
            d[1] += 1
            dis.append({"index": i, "op": opnames[i], "line": lines[i][:300], "impl": a[:200], "model": b[:200]})
    return {"per_op": per_op, "lines": lines, "impl": impl_out}, dis, g


def known_findings_probe():
    """things the property texts promise and the code does not do (reported, not counted as disagreements)"""
    mpmath, L, LC, mpq = _mods()
    mp = mpmath.mp
    out = []
    A = mp.matrix([[1, 2], [3, 4]])
    for p in range(pickle.HIGHEST_PROTOCOL + 1):
        try:
            B = pickle.loads(pickle.dumps(A, p))
            ok = type(B) is type(A) and B == A
            out.append(("C40 matrix pickle protocol %d" % p, "ok" if ok else "WRONG"))
        except Exception as e:  # noqa
            out.append(("C40 matrix pickle protocol %d" % p, "FINDING %s" % type(e).__name__))
    mp2 = mp.clone()
    for v in (mp2.mpf(3), mp2.mpc(1, 2)):
        try:
            w = pickle.loads(pickle.dumps(v))
            out.append(("C40 pickle of %s from a cloned context" % type(v).__name__,
                        "ok" if type(w) is type(v) else "FINDING type changes to the global context's class"))
        except Exception as e:  # noqa
            out.append(("C40 pickle of %s from a cloned context" % type(v).__name__, "FINDING %s" % type(e).__name__))
    for name, v in (("inf", mp.inf), ("-inf", -mp.inf), ("nan", mp.nan)):
        try:
            out.append(("C39 nint_distance(%s)" % name, "FINDING returns %r instead of raising" % (mp.nint_distance(v),)))
        except ValueError:
            out.append(("C39 nint_distance(%s)" % name, "ok raises ValueError"))
    a = mp.nint_distance(mp.mpf(-2.5)); b = mp.nint_distance(mpq(-5, 2))
    out.append(("C39 nint_distance tie -5/2 mpf vs mpq", "FINDING %r vs %r" % (a, b) if a != b else "ok"))
    out.append(("C09 float(mpf(-0.0)) sign", "note: %r (mpf has no signed zero)" % float(mp.mpf(-0.0))))
    return out


if __name__ == "__main__":
    import sys as _s
    n = int(_s.argv[1]) if len(_s.argv) > 1 else 20000
    seed = int(_s.argv[2]) if len(_s.argv) > 2 else 0
    ops = _s.argv[3].split(",") if len(_s.argv) > 3 else ALL_HELPER_OPS
    ops = sum([{"C39": C39_OPS, "C40": C40_OPS, "C09": C09_OPS}.get(o, [o]) for o in ops], [])
    t = time.time()
    st, dis, g = run_t1(ops, n, seed)
    print("cases", n, "seed", seed, "disagreements", len(dis), "time %.1f" % (time.time() - t))
    for k, v in sorted(st["per_op"].items()):
        print("  %-16s cases %6d  disagreements %d" % (k, v[0], v[1]))
    for d in dis[:15]:
        print(d)
    if "-v" in _s.argv:
        for k, v in sorted(g.hist.items()):
            print("hist", k, dict(sorted(v.items(), key=lambda kv: str(kv[0]))))
        for k, v in known_findings_probe():
            print("probe", k, "->", v)
