"""Decide the *property* (not the model) on an implementation output of a raw-core request line.

decide(line, out) -> (status, what)    status in {"ok", "violates", "nospec"}
All arithmetic is exact (Python ints / Fractions). Only finite, canonical-input cases get a spec;
special-value behaviour is compared against the proved model tables by T1 itself.
"""
from fractions import Fraction
from spec import *  # noqa
from common import dec_mpf
import math


def _isqrt(n):
    return math.isqrt(n)


def _parse(tok):
    return dec_mpf(tok)


def sqrt_ok(prec, rnd, x, r):
    """RoundOK for the square root of the positive rational x = a/b (dyadic here)"""
    r = tuple(r)
    if is_special(r) or not is_canonical(r) or r[3] > prec or r[0]:
        return False
    v = val(r)
    if v * v == x:
        return True
    # neighbours of v at precision prec
    m, e = r[1], r[2]
    sh = prec - r[3]
    M, E = m << sh, e - sh          # M has exactly prec bits
    up = Fraction(M + 1) * _p2(E)
    if M == 1 << (prec - 1):
        dn = Fraction(2 * M - 1) * _p2(E - 1)
    else:
        dn = Fraction(M - 1) * _p2(E)
    if rnd in ('f', 'd'):
        return v * v <= x < up * up
    if rnd in ('c', 'u'):
        return dn * dn < x <= v * v
    # nearest: x between the squared midpoints; on an exact tie the result must be the "evener" of the two
    # neighbours (larger 2-adic valuation), which is the rule that also works at precision 1
    mu = (v + up) / 2
    md = (v + dn) / 2
    lo_ok = md * md < x or (md * md == x and _v2(v) > _v2(dn))
    hi_ok = x < mu * mu or (x == mu * mu and _v2(v) > _v2(up))
    return lo_ok and hi_ok


def _v2(q):
    """2-adic valuation of a nonzero rational"""
    n, d = q.numerator, q.denominator
    return ((n & -n).bit_length() - 1) - ((d & -d).bit_length() - 1)


def _p2(e):
    return Fraction(1 << e) if e >= 0 else Fraction(1, 1 << (-e))


def decide(line, out):
    t = line.split()
    op = t[0]
    if out == "T:skipped":
        return "nospec", None
    if out.startswith("T:"):
        return "violates", "%s: the call did not return within the time limit (no result at all)" % op
    if out.startswith("E:") or out.startswith("?"):
        return "nospec", None
    try:
        return _decide(op, t, out)
    except (OverflowError, MemoryError):
        return "nospec", None


def _fin(*xs):
    return all(not is_special(x) for x in xs)


def _rok(prec, rnd, x, r, what):
    if round_ok(prec, rnd, x, r):
        return "ok", None
    return "violates", "%s: result %r is not the correctly rounded value (prec=%d rnd=%s)" % (what, tuple(r), prec, rnd)


def _decide(op, t, out):
    if op in ("add", "sub", "mul", "gmul", "div", "mod"):
        x, y, prec, rnd = _parse(t[1]), _parse(t[2]), int(t[3]), t[4]
        if not _fin(x, y) or not (is_canonical(x) and is_canonical(y)):
            return "nospec", None
        if max(abs(x[2]), abs(y[2])) > 10 ** 6:
            return _decide_bigexp(op, x, y, prec, rnd, out)
        r = dec_mpf(out)
        if is_special(r):
            return "violates", "%s of finite operands returned a special value" % op
        a, b = val(x), val(y)
        if op == "add": e = a + b
        elif op == "sub": e = a - b
        elif op in ("mul", "gmul"): e = a * b
        elif op == "div":
            if b == 0: return "violates", "division by zero did not raise"
            e = a / b
        else:
            if b == 0: return "nospec", None
            e = a - b * math.floor(a / b)
            # sign of divisor, magnitude below |b|
        return _rok(prec, rnd, e, r, op)
    if op in ("pos", "neg", "abs"):
        x, prec, rnd = _parse(t[1]), int(t[2]), t[3]
        if not _fin(x) or not is_canonical(x): return "nospec", None
        if abs(x[2]) > 10 ** 6: return "nospec", None
        a = val(x)
        e = a if op == "pos" else (-a if op == "neg" else abs(a))
        return _rok(prec, rnd, e, dec_mpf(out), op)
    if op in ("normalize", "normalize1"):
        sg, m, ex, bc, prec, rnd = int(t[1]), int(t[2], 16), int(t[3]), int(t[4]), int(t[5]), t[6]
        if abs(ex) > 10 ** 6: return "nospec", None
        e = Fraction(m) * _p2(ex)
        return _rok(prec, rnd, -e if sg else e, dec_mpf(out), op)
    if op == "from_man_exp":
        sg, m, ex, prec, rnd = int(t[1]), int(t[2], 16), int(t[3]), int(t[4]), t[5]
        if abs(ex) > 10 ** 6: return "nospec", None
        e = Fraction(m) * _p2(ex)
        return _rok(prec, rnd, -e if sg else e, dec_mpf(out), op)
    if op == "from_int":
        n, prec, rnd = int(t[1]), int(t[2]), t[3]
        return _rok(prec, rnd, Fraction(n), dec_mpf(out), op)
    if op in ("mul_int", "gmul_int"):
        x, n, prec, rnd = _parse(t[1]), int(t[2]), int(t[3]), t[4]
        if not _fin(x) or not is_canonical(x) or abs(x[2]) > 10 ** 6: return "nospec", None
        return _rok(prec, rnd, val(x) * n, dec_mpf(out), op)
    if op == "rdiv_int":
        n, x, prec, rnd = int(t[1]), _parse(t[2]), int(t[3]), t[4]
        if not _fin(x) or not is_canonical(x) or abs(x[2]) > 10 ** 6 or not x[1]: return "nospec", None
        return _rok(prec, rnd, Fraction(n) / val(x), dec_mpf(out), op)
    if op == "from_rational":
        p, q, prec, rnd = int(t[1]), int(t[2]), int(t[3]), t[4]
        if q == 0: return "nospec", None
        return _rok(prec, rnd, Fraction(p, q), dec_mpf(out), op)
    if op == "sqrt":
        x, prec, rnd = _parse(t[1]), int(t[2]), t[3]
        if not _fin(x) or not is_canonical(x) or abs(x[2]) > 10 ** 6 or x[0]: return "nospec", None
        r = dec_mpf(out)
        if not x[1]:
            return ("ok", None) if tuple(r) == FZERO else ("violates", "sqrt(0) != 0")
        if sqrt_ok(prec, rnd, val(x), r):
            return "ok", None
        return "violates", "sqrt: result %r is not the correctly rounded root (prec=%d rnd=%s)" % (tuple(r), prec, rnd)
    if op in ("floor", "ceil", "nint", "frac"):
        x, prec, rnd = _parse(t[1]), int(t[2]), t[3]
        if not _fin(x) or not is_canonical(x) or abs(x[2]) > 10 ** 6: return "nospec", None
        a = val(x)
        fl = math.floor(a)
        if op == "floor": e = Fraction(fl)
        elif op == "ceil": e = Fraction(math.ceil(a))
        elif op == "frac": e = a - fl
        else:
            d = a - fl
            if d < Fraction(1, 2): e = Fraction(fl)
            elif d > Fraction(1, 2): e = Fraction(fl + 1)
            else: e = Fraction(fl if fl % 2 == 0 else fl + 1)
        return _rok(prec, rnd, e, dec_mpf(out), op)
    if op == "to_int":
        x, rnd = _parse(t[1]), t[2]
        if not _fin(x) or not is_canonical(x): return "nospec", None
        a = val(x)
        if rnd in ("-", "d"): e = math.trunc(a)
        elif rnd == "f": e = math.floor(a)
        elif rnd == "c": e = math.ceil(a)
        elif rnd == "u": e = math.ceil(a) if a > 0 else math.floor(a)
        else:
            fl = math.floor(a); d = a - fl
            e = fl if d < Fraction(1, 2) else (fl + 1 if d > Fraction(1, 2) else (fl if fl % 2 == 0 else fl + 1))
        return ("ok", None) if out == "I:%d" % e else ("violates", "to_int: %s expected %d" % (out, e))
    if op in ("cmp", "lt", "le", "gt", "ge", "eq"):
        x, y = _parse(t[1]), _parse(t[2])
        if not _fin(x, y) or not (is_canonical(x) and is_canonical(y)): return "nospec", None
        lo = min(x[2], y[2])
        a = (-x[1] if x[0] else x[1]) << (x[2] - lo) if x[2] - lo < 10 ** 6 else None
        b = (-y[1] if y[0] else y[1]) << (y[2] - lo) if y[2] - lo < 10 ** 6 else None
        if a is None or b is None: return "nospec", None
        c = (a > b) - (a < b)
        exp = {"cmp": "I:%d" % c, "lt": "B:%d" % (c < 0), "le": "B:%d" % (c <= 0), "gt": "B:%d" % (c > 0),
               "ge": "B:%d" % (c >= 0), "eq": "B:%d" % (c == 0)}[op]
        return ("ok", None) if out == exp else ("violates", "%s: %s expected %s" % (op, out, exp))
    if op == "pow_int":
        x, n, prec, rnd = _parse(t[1]), int(t[2]), int(t[3]), t[4]
        if not _fin(x) or not is_canonical(x) or abs(x[2]) > 10 ** 4 or prec == 0: return "nospec", None
        if x[3] * abs(n) > 300000: return "nospec", None
        if not x[1] and n <= 0: return "nospec", None
        r = dec_mpf(out)
        if is_special(r): return "violates", "pow_int of finite operand returned a special value"
        e = val(x) ** n
        if not is_canonical(r) or r[3] > prec:
            return "violates", "pow_int: non-canonical or too long result %r" % (tuple(r),)
        if not enclosing_ok(rnd, e, r):
            return "violates", "pow_int: result %r on the wrong side of the exact power (rnd=%s)" % (tuple(r), rnd)
        # exactly representable -> exact
        ref = round_ref(prec, 'd', e)
        if Fraction(ref[0]) * _p2(ref[1]) == e and val(r) != e:
            return "violates", "pow_int: exact power is representable but result differs"
        # results whose exact value needs few bits are correctly rounded (the exact-power regime of the code)
        if n >= 0 and (n <= 2 or x[1] == 1 or x[3] * n < 1000):
            cr = round_ref(prec, rnd, e)
            if Fraction(cr[0]) * _p2(cr[1]) != val(r):
                return "violates", "pow_int: small exact power is not correctly rounded (rnd=%s)" % rnd
        # within one ulp
        u = ulp(prec, e)
        if rnd == 'n' and abs(val(r) - e) > u:
            return "violates", "pow_int: result more than one ulp from the exact power"
        return "ok", None
    if op == "hash":
        x = _parse(t[1])
        if is_special(x) or not is_canonical(x) or abs(x[2]) > 10 ** 5: return "nospec", None
        v = val(x)
        exp = hash(v)
        got = int(out[2:])
        if got == -1: got = -2
        return ("ok", None) if got == exp else ("violates", "hash: %d but hash(Fraction)=%d" % (got, exp))
    return "nospec", None


def ulp(prec, x):
    if x == 0: return Fraction(0)
    k = ilog2(abs(x))
    return _p2(k - prec + 1)


def _decide_bigexp(op, x, y, prec, rnd, out):
    """operands with astronomically large exponents: rescale both by a common power of two"""
    if op in ("add", "sub"):
        if not x[1] or not y[1]:
            return "nospec", None
        r = dec_mpf(out)
        if is_special(r): return "violates", "finite %s returned special" % op
        base = min(x[2], y[2])
        if max(x[2], y[2]) - base > 10 ** 5:
            # far apart: exact value is big + tiny; decide by sticky argument on the large operand alone
            big, small = (x, y) if x[2] + x[3] > y[2] + y[3] else (y, x)
            sb = big[0]
            ss = small[0] ^ (1 if (op == "sub" and small is y) else 0)
            if op == "sub" and big is y:
                sb ^= 1
            # value = (+-big.man * 2^K) +- eps  with K large: emulate with K = prec + big.bc + 8
            K = prec + big[3] + 8
            m = (big[1] << K) + (1 if ss == sb else -1)
            e = Fraction(-m if sb else m)
            rr = (r[0], r[1], r[2] - (big[2] - K), r[3])
            return _rok(prec, rnd, e, rr, op)
        xs = (x[0], x[1], x[2] - base, x[3]); ys = (y[0], y[1], y[2] - base, y[3])
        e = val(xs) + val(ys) if op == "add" else val(xs) - val(ys)
        rr = (r[0], r[1], r[2] - base, r[3]) if r[1] else r
        return _rok(prec, rnd, e, rr, op)
    if op in ("mul", "gmul", "div"):
        r = dec_mpf(out)
        if not x[1] or not y[1]: return "nospec", None
        if is_special(r): return "violates", "finite %s returned special" % op
        xs = (x[0], x[1], 0, x[3]); ys = (y[0], y[1], 0, y[3])
        if op == "div":
            e = val(xs) / val(ys); sh = x[2] - y[2]
        else:
            e = val(xs) * val(ys); sh = x[2] + y[2]
        rr = (r[0], r[1], r[2] - sh, r[3]) if r[1] else r
        return _rok(prec, rnd, e, rr, op)
    return "nospec", None
