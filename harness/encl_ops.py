"""Sanity correspondence for the verified reference evaluator (lean/MpModel/Encl.lean).

NOT part of the trusted base: the evaluator is sound by the theorems in MpProofs/EnclSound.lean.
This harness checks, on structured arguments, that
  * the high-precision mpmath value lies inside every enclosure returned by `mpdrv encl`,
  * the enclosure is tight (relative width <= 2^(8-wp) in ordinary cases),
  * `mpdrv acc` says `ok` for correctly rounded values and `violates` for values off by 2^(k+1-p),
and measures the evaluation speed.

usage: encl_ops.py [ncases] [seed] [wp]
"""
import os, sys, time
sys.path.insert(0, os.path.dirname(os.path.abspath(__file__)))
from common import Gen, Driver, import_repo

mpmath = import_repo()
from mpmath import mp, mpf
from mpmath.libmp import from_man_exp

FUNS = ["exp", "log", "sqrt", "atan", "sin", "cos", "pi", "tan", "sinh", "cosh", "tanh",
        "cot", "sec", "csc", "expm1", "log1p", "asin", "acos", "asinh", "acosh", "atanh", "sinpi", "cospi"]
EXPLIKE = ("exp", "sinh", "cosh", "tanh", "expm1")
TRIGLIKE = ("sin", "cos", "tan", "cot", "sec", "csc")
UNIT = ("asin", "acos", "atanh")


def dy_to_mpf(m, e):
    """exact mpf for m*2^e"""
    return mpf(from_man_exp(int(m), int(e)))


def mp_fun(name):
    if name == "pi":
        return lambda x: +mp.pi
    return getattr(mp, name)


def pi_multiple(g, wp):
    """a dyadic with ~nb bits very near k*pi/2"""
    r = g.r
    k = r.choice([1, 2, 3, 4, 5, 7, 100, 12345, r.getrandbits(40) + 1, r.getrandbits(200) + 1])
    nb = r.choice([24, 53, 64, wp])
    old = mp.prec
    mp.prec = nb + k.bit_length() + 300
    v = k * mp.pi / 2
    mp.prec = old
    s, man, exp, bc = v._mpf_
    sh = max(0, bc - nb)
    man >>= sh
    exp += sh
    man += r.choice([-1, 0, 0, 1])
    return man, exp


def gen_arg(g, f, wp):
    """(m, e, shape) structured argument for function f"""
    r = g.r
    c = r.random()
    nb = r.choice([1, 2, 10, 24, 53, 64, wp, wp + 7])
    m = (1 << (nb - 1)) | r.getrandbits(nb - 1) if nb > 1 else 1
    if c < 0.30:
        shape, e = "ordinary", -nb + r.randint(-6, 6)
    elif c < 0.40:
        shape, e = "tiny", -nb - r.choice([50, 200, 1000, 4000])
    elif c < 0.50:
        shape = "huge"
        if f in EXPLIKE:
            e = -nb + r.randint(6, 20)
        elif f in TRIGLIKE:
            e = -nb + r.choice([30, 64, 200, 1000, 4000])
        else:
            e = -nb + r.choice([50, 200, 1000, 4000])
    elif c < 0.60:
        shape = "near1"       # 1 +- 2^-k
        k = r.choice([1, 2, 5, 20, 52, 100, wp, 2 * wp])
        sgn = r.choice([1, -1])
        m, e = (1 << k) + sgn, -k
    elif c < 0.75 and f in TRIGLIKE:
        shape = "near_k_pi_2"
        m, e = pi_multiple(g, wp)
    elif c < 0.80:
        shape, m, e = "small_int", r.randint(0, 10), 0
    elif c < 0.85:
        shape, m, e = "exact_square", r.randint(1, 1 << 30) ** 2, 2 * r.randint(-40, 40)
    else:
        shape, e = "wide_exp", r.randint(-300, 40 if f in EXPLIKE else 300) - nb
    if f in EXPLIKE and e + m.bit_length() > 24:
        e = 24 - m.bit_length()
    if shape == "small_int" and f in ("sinpi", "cospi") and r.random() < 0.7:
        shape, m, e = "half_int", r.randint(0, 1 << r.choice([3, 20, 70])), r.choice([-1, -1, -2, 0])
    # domains
    if f in UNIT and m != 0 and e + m.bit_length() > 0:
        if shape == "near1":
            k = r.choice([1, 2, 5, 20, 52, 100, wp, 2 * wp])
            m, e = (1 << k) - 1, -k
        elif f != "atanh" and r.random() < 0.3:
            shape, m, e = "unit", 1, 0
        else:
            e = -m.bit_length() - r.randint(0, 4)
    if f == "acosh" and (m == 0 or e + m.bit_length() <= 0 or (e + m.bit_length() == 1 and shape == "near1")):
        if shape == "near1" or m == 0:
            k = r.choice([1, 2, 5, 20, 52, 100, wp, 2 * wp])
            m, e = (1 << k) + 1, -k
            if r.random() < 0.1:
                m, e = 1, 0
        else:
            e = -m.bit_length() + r.randint(1, 60)
    if r.random() < 0.4 and f not in ("log", "sqrt", "acosh"):
        m = -m
    if f == "log1p" and m < 0 and e + (-m).bit_length() > 0:
        k = r.choice([1, 2, 5, 20, 52, 100, wp])
        shape, m, e = "near-1", -((1 << k) - 1), -k
    g.note("shape", shape)
    return m, e, shape


def parse_encl(ans):
    if ans == "N:":
        return None
    assert ans.startswith("P:"), ans
    a, b, c, d = [int(t) for t in ans[2:].split(",")]
    return (a, b, c, d)


def reference(f, m, e, prec):
    old = mp.prec
    try:
        mp.prec = prec
        x = dy_to_mpf(m, e)
        return mp_fun(f)(x)
    finally:
        mp.prec = old


def run(ncases, seed, wp0=None, funs=FUNS):
    g = Gen(seed)
    lines, metas = [], []
    for i in range(ncases):
        f = funs[i % len(funs)]
        wp = wp0 if wp0 else g.r.choice([24, 53, 64, 113, 200, 200, 400])
        m, e, shape = gen_arg(g, f, wp)
        lines.append("encl %s %d %d %d" % (f, wp, m, e))
        metas.append((f, wp, m, e, shape))
    t = time.time()
    out = Driver().ask(lines)
    dt = time.time() - t
    bad, wide, none_, worst = [], [], 0, {}
    for line, ans, (f, wp, m, e, shape) in zip(lines, out, metas):
        enc = parse_encl(ans)
        if enc is None:
            none_ += 1
            dom_ok = (f in ("log",) and m <= 0) or (f == "sqrt" and m < 0) or \
                (f in ("cot", "csc") and m == 0) or (f == "atanh" and abs(m) >> max(0, -e) >= 1 and e <= 0 and abs(m) == 1 << -e)
            if not dom_ok:
                bad.append(("no-enclosure", line, ans))
            continue
        prec = 4 * wp + 64 + max(0, e + abs(m).bit_length()) + (2 * abs(e) if shape in ("near1",) else 0)
        old = mp.prec
        mp.prec = prec
        try:
            v = reference(f, m, e, prec)
            lo, hi = dy_to_mpf(enc[0], enc[1]), dy_to_mpf(enc[2], enc[3])
            if not (lo <= v <= hi):
                bad.append(("outside", line, ans, mpmath.nstr(v, 30)))
                continue
            w = hi - lo
            if v != 0:
                rel = w / abs(v)
                lg = int(mp.floor(mp.log(rel, 2))) + wp if rel > 0 else -10**9
            else:
                lg = -10**9 if w == 0 else 10**9
            key = (f, shape)
            worst[key] = max(worst.get(key, -10**9), lg)
            if lg > 8:
                wide.append((lg, line, ans))
        finally:
            mp.prec = old
    return {"n": ncases, "time": dt, "bad": bad, "wide": wide, "none": none_, "worst": worst, "hist": g.hist}


def lib_call(f, x, p):
    """the real library routine (resolved at call time, so source-level mutants are seen)"""
    le = mpmath.libmp.libelefun
    lm = mpmath.libmp.libmpf
    tab = {"exp": "mpf_exp", "log": "mpf_log", "atan": "mpf_atan", "sin": "mpf_sin", "cos": "mpf_cos",
           "tan": "mpf_tan", "sinh": "mpf_sinh", "cosh": "mpf_cosh", "tanh": "mpf_tanh", "asinh": "mpf_asinh",
           "sinpi": "mpf_sin_pi", "cospi": "mpf_cos_pi"}
    if f == "sqrt":
        return lm.mpf_sqrt(x, p, "n")
    if f in tab:
        return getattr(le, tab[f])(x, p, "n")
    old = mp.prec
    try:
        mp.prec = p
        y = getattr(mp, f)(mp.make_mpf(x))      # exact argument; context-level functions (cot, sec, csc, expm1, log1p, asin, ...)
        if isinstance(y, mpmath.mpc):
            raise ValueError("complex")
        return y._mpf_
    finally:
        mp.prec = old


def run_acc(ncases, seed, funs=None, with_perturbed=True):
    """T2-style: values returned by the library must be `ok` (k=4 and k=1); perturbed ones `violates`."""
    g = Gen(seed + 1000003)
    r = g.r
    lines, expect = [], []
    funs = funs or [f for f in FUNS if f != "pi"]
    for i in range(ncases):
        f = funs[i % len(funs)]
        p = r.choice([24, 53, 64, 113, 200])
        m, e, shape = gen_arg(g, f, p)
        x = from_man_exp(m, e)          # exact
        try:
            y = lib_call(f, x, p)
        except Exception:
            continue
        s, man, ex, bc = y
        if not man and ex:
            continue                    # inf / nan
        ym = -man if s else man
        k = r.choice([1, 4])
        lines.append("acc %s %d %d %d %d %d %d" % (f, m, e, ym, ex, p, k)); expect.append(("ok", shape))
        if man and with_perturbed:
            man2 = man * ((1 << p) + (1 << (k + 2)))      # y * (1 + 2^(k+2-p)) exactly: must violate
            ym2 = -man2 if s else man2
            lines.append("acc %s %d %d %d %d %d %d" % (f, m, e, ym2, ex - p, p, k)); expect.append(("violates", shape))
    t = time.time()
    out = Driver().ask(lines)
    dt = time.time() - t
    bad = [(l, a, ex) for l, a, ex in zip(lines, out, expect) if a != ex[0]]
    und = [b for b in bad if b[1] == "undecided"]
    known = [b for b in bad if b[1] != "undecided" and known_finding(b[0])]
    wrong = [b for b in bad if b[1] != "undecided" and not known_finding(b[0])]
    return {"n": len(lines), "time": dt, "undecided": und, "wrong": wrong, "known": known}


def known_finding(line):
    """FINDING (genuine C12 defect of /repo, rigorous `violates`): mpf_acosh computes log(x + sqrt(x^2-1)) with
    x + q rounded to prec+15 bits, so acosh(1+eps) loses about log2(1/sqrt(2 eps)) - 15 bits
    (mp.acosh(1+2^-52) at 53 bits: relative error 2^-42.6)."""
    t = line.split()
    if t[1] != "acosh":
        return False
    m, e = int(t[2]), int(t[3])
    return e < -20 and (m >> (-e)) == 1 and ((m - (1 << -e)) << 20) < (1 << -e)     # 1 < x < 1 + 2^-20


# ---- source-level mutants of mpmath/libmp/libelefun.py (never written to /repo: exec'd into the live module) ----
MUTANTS = [
    ("log: no extra precision for cancellation near 1", "log", "            wp += cancellation\n", "            wp += 0\n"),
    ("mod_pi2: accept the first reduction (no cancellation loop)", "sin,cos,tan",
     "            if small >> (wp+mag-10):\n", "            if 1:\n"),
    ("exp: 4 guard bits too few", "exp", "        wp = prec + 14\n        if sign:\n            man = -man\n",
     "        wp = prec - 4\n        if sign:\n            man = -man\n"),
    ("atan: no guard bits", "atan", "    wp = prec + 30 + abs(mag)\n", "    wp = prec + abs(mag) - 3\n"),
]


def _exec_elefun(src):
    mod = mpmath.libmp.libelefun
    exec(compile(src, mod.__file__, "exec"), mod.__dict__)


def run_mutations(ncases, seed):
    mod = mpmath.libmp.libelefun
    orig = open(mod.__file__).read()
    res = []
    try:
        for name, funs, old, new in MUTANTS:
            assert orig.count(old) == 1, (name, orig.count(old))
            _exec_elefun(orig.replace(old, new))
            ra = run_acc(ncases, seed, funs=funs.split(","), with_perturbed=False)
            res.append((name, ra["n"], len(ra["wrong"]), len(ra["undecided"])))
    finally:
        _exec_elefun(orig)
    return res


if __name__ == "__main__":
    n = int(sys.argv[1]) if len(sys.argv) > 1 else 2000
    seed = int(sys.argv[2]) if len(sys.argv) > 2 else 0
    wp0 = int(sys.argv[3]) if len(sys.argv) > 3 else None
    res = run(n, seed, wp0)
    print("encl cases", res["n"], "driver time %.2fs (%.0f evals/s)" % (res["time"], res["n"] / max(res["time"], 1e-9)))
    print("not-contained / missing:", len(res["bad"]), " wide(>2^(8-wp) rel):", len(res["wide"]), " none:", res["none"])
    for b in res["bad"][:10]:
        print("  BAD", b)
    for w in sorted(res["wide"], reverse=True)[:10]:
        print("  WIDE", w[0], w[1])
    print("worst log2(relwidth)+wp per (fun,shape):")
    for k, v in sorted(res["worst"].items()):
        if v > 4:
            print("   ", k, v)
    print("shape histogram:", res["hist"].get("shape"))
    ra = run_acc(max(200, n // 4), seed)
    print("acc cases", ra["n"], "time %.2fs" % ra["time"], "wrong:", len(ra["wrong"]), "undecided:", len(ra["undecided"]),
          "known finding (acosh near 1):", len(ra["known"]))
    for b in ra["wrong"][:10]:
        print("  WRONG", b)
    for b in ra["undecided"][:10]:
        print("  UNDECIDED", b)
    if os.environ.get("ENCL_MUTANTS"):
        for name, ncase, caught, und in run_mutations(600, seed):
            print("mutant %-62s cases %4d  flagged(violates) %4d  undecided %d" % (name, ncase, caught, und))
        ra = run_acc(300, seed + 7)
        print("after restoring the original source: wrong", len(ra["wrong"]), "undecided", len(ra["undecided"]))


# ======================================================================================================
# rigorous decisions for the property checks (C12 / C13 / C17 / C43)
# ======================================================================================================
from fractions import Fraction


def ask(lines, par=None):
    """many lines through the driver; large batches are dealt round-robin to several driver processes (the verified evaluator
    is single-threaded and a 4000-bit enclosure costs milliseconds), answers returned in request order"""
    if not lines:
        return []
    n = par or (1 if len(lines) < 4000 else min(12, os.cpu_count() or 4))
    if n == 1:
        return Driver().ask(lines)
    from concurrent.futures import ThreadPoolExecutor
    parts = [lines[i::n] for i in range(n)]
    with ThreadPoolExecutor(n) as ex:
        res = list(ex.map(lambda part: Driver().ask(part), parts))
    out = [None] * len(lines)
    for i, r in enumerate(res):
        out[i::n] = r
    return out


def acc_decide(reqs, klo=3, khi=4):
    """reqs: list of driver request PREFIXES without the trailing `<p> <k>` pair, each with its p:  (prefix, p).
    Strict reading of "relative error below 2^(khi-p)":
       acc(k=klo) = ok                     -> 'ok'        (error <= 2^(klo-p)|f| < 2^(khi-p)|f|, or f = 0 = y)
       else acc(k=khi) = violates          -> 'violates'  (error > 2^(khi-p)|f|: the property fails)
       else acc(k=khi) = ok                -> 'boundary'  (2^(klo-p) < rel.err <= 2^(khi-p): strictness not decided)
       else                                -> 'undecided'
    Two batched passes through the driver."""
    first = ask(["%s %d %d" % (pre, p, klo) for pre, p in reqs])
    res = list(first)
    idx = [i for i, a in enumerate(first) if a != "ok"]
    second = ask(["%s %d %d" % (reqs[i][0], reqs[i][1], khi) for i in idx])
    for i, a in zip(idx, second):
        res[i] = "violates" if a == "violates" else ("boundary" if a == "ok" else "undecided")
    return res


def encl_frac(ans):
    """(lo, hi) as Fractions from a `P:` answer, None for `N:`"""
    e = parse_encl(ans)
    if e is None:
        return None
    return (Fraction(e[0]) * Fraction(2) ** e[1], Fraction(e[2]) * Fraction(2) ** e[3])


def round_frac(q, prec, rnd):
    """correct rounding of the rational q to prec bits: (man, exp) with man odd or 0 (exact integer arithmetic)"""
    if q == 0:
        return (0, 0)
    sign = q < 0
    a = -q if sign else q
    n, d = a.numerator, a.denominator
    e = n.bit_length() - d.bit_length() - prec          # a*2^-e has about prec bits
    while True:
        num, den = (n, d << e) if e >= 0 else (n << -e, d)
        m, r = divmod(num, den)
        if m.bit_length() > prec:
            e += 1
            continue
        if m.bit_length() < prec:
            e -= 1
            continue
        break
    if r:
        mode = rnd
        if mode == "f":
            mode = "u" if sign else "d"
        elif mode == "c":
            mode = "d" if sign else "u"
        if mode == "u":
            m += 1
        elif mode == "n":
            if 2 * r > den or (2 * r == den and m & 1):
                m += 1
    if m:
        while not m & 1:
            m >>= 1
            e += 1
    return (-m if sign else m, e)


_CONST = {
    # name -> (driver lines at working precision wp, exact rational combination of the enclosures)
    "pi": (lambda wp: ["encl pi %d 0 0" % wp], lambda E: E[0]),
    "e": (lambda wp: ["encl exp %d 1 0" % wp], lambda E: E[0]),
    "ln2": (lambda wp: ["encl log %d 2 0" % wp], lambda E: E[0]),
    "ln10": (lambda wp: ["encl log %d 10 0" % wp], lambda E: E[0]),
    "degree": (lambda wp: ["encl pi %d 0 0" % wp], lambda E: (E[0][0] / 180, E[0][1] / 180)),
    "phi": (lambda wp: ["encl sqrt %d 5 0" % wp], lambda E: ((E[0][0] + 1) / 2, (E[0][1] + 1) / 2)),
}


def decide_constants(items):
    """items: list of (name, prec, rnd, mpf_tuple).  Returns a list of (verdict, detail) with verdict in
    ok / violates / undecided:
      * ok: the tuple is THE correctly rounded prec-bit value of the constant in mode rnd (for f/c/d/u this includes
        being on the correct side); decided when both ends of a rigorous enclosure round to the same value;
      * violates: both ends round to the same value and the tuple differs from it (detail says whether a directed
        result is on the wrong side or only not the nearest);
      * undecided: the enclosures (up to 8*prec+1024 bits) straddle a rounding boundary, or the name is unknown.
    The enclosures come from the verified evaluator (`encl` op: piI, expI 1, logI 2, logI 10, sqrtI 5); the rational
    post-processing (÷180, (1+√5)/2, rounding) is exact integer arithmetic in Python."""
    out = [None] * len(items)
    todo = list(range(len(items)))
    for mult, add in ((1, 40), (2, 128), (8, 1024)):
        if not todo:
            break
        lines, owner = [], []
        for i in todo:
            name, prec, rnd, t = items[i]
            if name not in _CONST:
                out[i] = ("undecided", "no verified reference for %s" % name)
                continue
            for l in _CONST[name][0](mult * prec + add):
                lines.append(l); owner.append(i)
        answers = ask(lines)
        per = {}
        for i, a in zip(owner, answers):
            per.setdefault(i, []).append(encl_frac(a))
        nxt = []
        for i in todo:
            if out[i] is not None and i not in per:
                continue
            name, prec, rnd, t = items[i]
            E = per.get(i)
            if not E or any(e is None for e in E):
                out[i] = ("undecided", "no enclosure"); continue
            lo, hi = _CONST[name][1](E)
            rl, rh = round_frac(lo, prec, rnd), round_frac(hi, prec, rnd)
            if rl != rh:
                out[i] = None
                nxt.append(i); continue
            s, man, ex, bc = t
            got = (-int(man) if s else int(man), int(ex))
            if got == rl and (man == 0 or bc == int(man).bit_length()):
                out[i] = ("ok", "")
            else:
                g = Fraction(got[0]) * Fraction(2) ** got[1]
                side = ""
                if rnd in ("f", "d") and g > hi:
                    side = "above the constant in a round-down mode; "
                if rnd in ("c", "u") and g < lo:
                    side = "below the constant in a round-up mode; "
                out[i] = ("violates", "%sreturned %d*2^%d, correctly rounded value is %d*2^%d" % (side, got[0], got[1], rl[0], rl[1]))
        todo = nxt
    for i in todo:
        out[i] = ("undecided", "enclosure straddles a rounding boundary up to 8*prec+1024 bits")
    return out


def decide_constant(name, prec, rnd, mpf_tuple):
    """single-item form of decide_constants: 'ok' | 'violates' | 'undecided'"""
    return decide_constants([(name, prec, rnd, mpf_tuple)])[0][0]
