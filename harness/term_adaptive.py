"""term_adaptive.py — adaptive part of the dynamic confirmation for property C24 ("function evaluations terminate").

The grids of term_dynamic.py are hand-placed.  This module derives its inputs from the code:

 1. SITES      every loop of an OPEN class (tol / unknown) of lean/Gen/loop_skel.json (the translator's output for the
               working tree) is a site  "<module>.<function>[loop@line]".
 2. GUARDS     for every site: the function that contains the loop and the functions that call it (name based call graph
               over mpmath/, two levels up) — the code that decides whether, and with which working precision, the loop runs.
 3. THRESHOLDS the switch-over points of those functions, read with `ast`: every comparison (and min/max) one side of
               which is a numeric function t(P) of the precision P alone (names prec / wp / ctx.prec, followed through the
               first assignments of the function and the module's numeric constants; + - * / // >> << ** int() log() sqrt():
               `n_for_stirling = int(GAMMA_STIRLING_BETA*wp)` -> t(P) = int(0.2*(P+20)), `math.log(wp, 2)` -> log2(P+20)) or a
               numeric literal, the other side a computed quantity.
 4. PLACEMENT  for every public entry point that reaches the site (translator's entry_points, nearest first) and has a
               signature in ENTRY: arguments on both sides of every threshold t = t(P), in both readings of the threshold
                 value scale      x, Re z, Im z, n  ~  +-floor(t), +-(floor(t)+1), +-0.9 t, t, floor(t)+2, 1.1 t, ...
                 magnitude scale  |x|, |Im z|, |Re z|, 1 - x, 1 - |q|  ~  2^-t, 2^-(0.9 t), 2^-(1.1 t), 2^-(0.8 t), 2^-(t+-2);
                                  2^(t+k) for small t (|arguments| <= 1e6, property text)
               for several precisions P; the other arguments take generic values (the same inside one neighbourhood);
               functions of two driven arguments also get the cross product of the threshold values of the function that
               contains the loop (n ~ t1(P) together with x ~ t2(P)).  Placements at the thresholds themselves (rank 0) are
               always run; the per-function cap of the quick tier only removes whole neighbourhoods of further placements.
 5. COVERAGE   every call runs in a worker that counts the iterations of every open loop (sys.monitoring LINE events on
               the first body line of each loop; sys.settrace on older Pythons); sites no call reaches are listed by name.
               REACH holds fixed driving calls for the sites no threshold-driven entry point reaches.
 6. VERDICT    budgets are CPU seconds of the worker process (ITIMER_PROF), so machine load does not matter.
               phase 1: every call under the budget T1 (a call that exceeds it is unwound, the worker goes on).
               phase 2: a call that did not return is re-run in a fresh process with the budget max(TMIN, 50 x median cost of
               its neighbours); neighbours = the other placements around the same threshold (same entry point, precision,
               threshold, reading, argument slot and shape: sign, axis, integer / non-integer) that returned.
               phase 3: up to two witnesses per loop are run once more with ESCALATE x that budget.  Still no result, at
               least MINNB neighbours returned, and a loop of an open class is on the call stack at the cut-off  ->  failing input
                   {"site": "<module>.<function>[loop@line]", "what": "no result within T s ...", "input": {...}}.
               A call whose neighbours are slow too (slow region), or that has no open loop on its stack, is `undecided`
               (listed, neither pass nor fail).

A case is replayable:  python term_adaptive.py --replay '<case json>' [--budget seconds]
                       python term_adaptive.py --tier quick|thorough [--seed N] [--only fn,fn]   (whole stage)
                       python term_adaptive.py --thresholds mpf_ei mpc_gamma                  (what the ast reader sees)
"""
import sys, os, json, time, ast, re, random, signal, subprocess, statistics, threading, math
from concurrent.futures import ThreadPoolExecutor

HERE = os.path.dirname(os.path.abspath(__file__))
VERIF = os.path.dirname(HERE)
REPO = os.environ.get("MPMATH_REPO", "/repo")
PY = sys.executable
MAXPREC = 4000
MAXARG = 10 ** 6

TIERS = {
    # budgets are CPU seconds of the worker.  MINNB: neighbours that must have returned; TSHORT: budget of the remaining members
    # of a neighbourhood in which two calls have already exceeded T1 (they only serve as "returns quickly" neighbours); T1: phase-1 wall budget per call (s); TMIN/TMAX: bounds of the phase-2 budget; FACTOR x median of the neighbours
    "quick": dict(T1=1.0, TSHORT=0.25, TMIN=5.0, TMAX=20.0, ESCALATE=4, FACTOR=50, MINNB=2, workers=8, precs=(53, 150, 500), percap=220,
                  cap2=14),
    "thorough": dict(T1=10.0, TSHORT=2.0, TMIN=10.0, TMAX=300.0, ESCALATE=6, FACTOR=50, MINNB=2, workers=10,
                     precs=(20, 53, 113, 150, 400, 1000, 3000), percap=4000, cap2=200),
}


# ======================================================================================================
# 1-3.  sites, guards, thresholds
# ======================================================================================================

def load_sites():
    p = os.path.join(VERIF, "lean", "Gen", "loop_skel.json")
    d = json.load(open(p))
    return [s for s in d["sites"] if s["cls"] in ("tol", "unknown") and s.get("line")]


def site_name(s):
    mod = s["file"].replace(".py", "").replace("/", ".")
    return "%s.%s[loop@%d]" % (mod, s["func"], s["line"])


def module_files(repo):
    base = os.path.join(repo, "mpmath")
    out = []
    for root, dirs, files in os.walk(base):
        dirs[:] = sorted(d for d in dirs if d not in ("tests", "__pycache__"))
        for f in sorted(files):
            if f.endswith(".py"):
                out.append(os.path.join(root, f))
    return out


PREC_NAMES = ("prec", "wp", "precision", "workprec")


class Index:
    """functions of mpmath/ by simple name, with the numeric constants of their module and a name based call graph"""

    def __init__(self, repo=REPO):
        self.funcs = {}
        self.calls = {}
        for path in module_files(repo):
            rel = os.path.relpath(path, os.path.join(repo, "mpmath"))
            try:
                tree = ast.parse(open(path).read())
            except SyntaxError:
                continue
            consts = {}
            for n in tree.body:
                if isinstance(n, ast.Assign) and len(n.targets) == 1 and isinstance(n.targets[0], ast.Name):
                    v = n.value
                    if isinstance(v, ast.Constant) and isinstance(v.value, (int, float)) and not isinstance(v.value, bool):
                        consts[n.targets[0].id] = v.value
            for n in ast.walk(tree):
                if isinstance(n, (ast.FunctionDef, ast.AsyncFunctionDef)):
                    self.funcs.setdefault(n.name, []).append((rel, n, consts))
                    s = self.calls.setdefault(n.name, set())
                    for x in ast.walk(n):
                        if isinstance(x, ast.Call):
                            if isinstance(x.func, ast.Name):
                                s.add(x.func.id)
                            elif isinstance(x.func, ast.Attribute):
                                s.add(x.func.attr)
        self.rev = {}
        for f, cs in self.calls.items():
            for c in cs:
                self.rev.setdefault(c, set()).add(f)

    def guards(self, site, depth=2, cap=8):
        """(rel, FunctionDef, consts, depth) of the host function(s) of the loop (depth 0) and of their callers"""
        out, seen = [], set()
        frontier = [h for h in site["hosts"] if h in self.funcs]
        d = 0
        while frontier and d <= depth and len(out) < cap:
            nxt = []
            for f in frontier:
                if f in seen:
                    continue
                seen.add(f)
                for rel, node, consts in self.funcs.get(f, []):
                    # the host itself: same file; callers: any file
                    if d == 0 and rel != site["file"]:
                        continue
                    out.append((rel, node, consts, d))
                nxt += sorted(self.rev.get(f, ()))
            frontier = nxt
            d += 1
        return out[:cap]


class Forms:
    """values of precision-dependent expressions inside one function: ev(node, P) -> (value, depends_on_P) | None.
    Names are followed through the FIRST assignment of the function (later `wp += small` bumps stay inside the offsets
    used by the placement) and the numeric constants of the module."""

    def __init__(self, fn, consts):
        self.fn, self.consts = fn, consts
        self.params = {a.arg for a in fn.args.args + fn.args.kwonlyargs}
        self.assign = {}
        for n in ast.walk(fn):
            if isinstance(n, ast.Assign) and len(n.targets) == 1 and isinstance(n.targets[0], ast.Name):
                self.assign.setdefault(n.targets[0].id, []).append(n)
        for v in self.assign.values():
            v.sort(key=lambda n: n.lineno)
        self.busy = set()

    def name(self, nm, P, depth):
        if nm in self.busy:
            return None
        if nm in self.params and (nm in PREC_NAMES or nm.endswith("prec")):
            return (float(P), True)
        asg = self.assign.get(nm)
        if asg:
            self.busy.add(nm)
            try:
                return self.ev(asg[0].value, P, depth + 1)
            finally:
                self.busy.discard(nm)
        if nm in self.consts:
            return (float(self.consts[nm]), False)
        return None

    def ev(self, n, P, depth=0):
        if depth > 10:
            return None
        if isinstance(n, ast.Constant) and isinstance(n.value, (int, float)) and not isinstance(n.value, bool):
            return (float(n.value), False)
        if isinstance(n, ast.Name):
            return self.name(n.id, P, depth)
        if isinstance(n, ast.Attribute):
            return (float(P), True) if n.attr in ("prec", "_prec") else None
        if isinstance(n, ast.UnaryOp) and isinstance(n.op, (ast.USub, ast.UAdd)):
            v = self.ev(n.operand, P, depth + 1)
            if v is None:
                return None
            return (-v[0], v[1]) if isinstance(n.op, ast.USub) else v
        try:
            if isinstance(n, ast.BinOp):
                l, r = self.ev(n.left, P, depth + 1), self.ev(n.right, P, depth + 1)
                if l is None or r is None:
                    return None
                d = l[1] or r[1]
                op = n.op
                if isinstance(op, ast.Add):
                    return (l[0] + r[0], d)
                if isinstance(op, ast.Sub):
                    return (l[0] - r[0], d)
                if isinstance(op, ast.Mult):
                    return (l[0] * r[0], d)
                if isinstance(op, ast.Div):
                    return (l[0] / r[0], d)
                if isinstance(op, ast.FloorDiv):
                    return (float(math.floor(l[0] / r[0])), d)
                if isinstance(op, ast.RShift) and 0 <= r[0] < 64:
                    return (l[0] / 2 ** r[0], d)
                if isinstance(op, ast.LShift) and 0 <= r[0] < 64:
                    return (l[0] * 2 ** r[0], d)
                if isinstance(op, ast.Pow):
                    v = float(l[0]) ** float(r[0])
                    return (v, d) if isinstance(v, float) and abs(v) < 1e12 else None
                return None
            if isinstance(n, ast.Call):
                f = n.func
                nm = f.id if isinstance(f, ast.Name) else f.attr if isinstance(f, ast.Attribute) else None
                a = [self.ev(x, P, depth + 1) for x in n.args]
                if not a or any(x is None for x in a):
                    return None
                d = any(x[1] for x in a)
                if nm in ("int", "float", "abs", "ceil", "floor", "round", "MPZ", "long") and len(a) == 1:
                    v = a[0][0]
                    return ({"int": float(int(v)), "abs": abs(v), "ceil": float(math.ceil(v)), "floor": float(math.floor(v)),
                             "round": float(round(v))}.get(nm, v), d)
                if nm in ("log", "ln") and len(a) == 1 and a[0][0] > 0:
                    return (math.log(a[0][0]), d)
                if nm == "log" and len(a) == 2 and a[0][0] > 0 and a[1][0] > 1:
                    return (math.log(a[0][0], a[1][0]), d)
                if nm == "sqrt" and a[0][0] >= 0:
                    return (math.sqrt(a[0][0]), d)
                if nm == "bitcount" and a[0][0] >= 1:
                    return (float(int(a[0][0]).bit_length()), d)
        except (ZeroDivisionError, OverflowError, ValueError):
            return None
        return None


def _names_of(n):
    out = set()
    for x in ast.walk(n):
        if isinstance(x, ast.Name):
            out.add(x.id)
        elif isinstance(x, ast.Attribute):
            out.add(x.attr)
    return out


MAGLIKE = re.compile(r"mag|exp$|^bc$|bits|^siz", re.I)
_PROBE = (53, 1000)
_THR_CACHE = {}


def thresholds(fn, consts, rel=""):
    """[{at: P -> t(P), dep, hint, text, func}]: the switch-over points of one function — every comparison (and min/max)
    one side of which is a numeric function t(P) of the precision alone (or a literal), the other side a computed quantity"""
    ck = (rel, fn.name, fn.lineno)
    if ck in _THR_CACHE:
        return _THR_CACHE[ck]
    F = Forms(fn, consts)
    out, seen = [], set()
    for n in ast.walk(fn):
        sides = None
        if isinstance(n, ast.Compare):
            sides = [n.left] + list(n.comparators)
        elif isinstance(n, ast.Call):
            f = n.func
            nm = f.id if isinstance(f, ast.Name) else f.attr if isinstance(f, ast.Attribute) else None
            if nm in ("min", "max") and len(n.args) >= 2:
                sides = list(n.args)
        if not sides:
            continue
        probe = [[F.ev(s_, P) for P in _PROBE] for s_ in sides]
        for i, pr in enumerate(probe):
            if any(v is None for v in pr):
                continue
            others = [s_ for j, s_ in enumerate(sides) if j != i and any(v is None for v in probe[j])]
            if not others:
                continue
            dep = any(v[1] for v in pr) and pr[0][0] != pr[1][0]
            vals = tuple(round(abs(v[0]), 4) for v in pr)
            if max(vals) < 3 or max(vals) > 64 * MAXPREC:
                continue
            on = set()
            for o in others:
                on |= _names_of(o)
            hint = "mag" if any(MAGLIKE.search(x) for x in on if x not in PREC_NAMES) else "val"
            if (vals, hint if not dep else "") in seen:
                continue
            seen.add((vals, hint if not dep else ""))
            node = sides[i]
            out.append({"at": (lambda P, node=node, F=F: abs((F.ev(node, P) or (0.0, False))[0])), "dep": dep, "hint": hint,
                        "text": " ".join(ast.unparse(n).split())[:90], "func": fn.name, "probe": vals})
    _THR_CACHE[ck] = out
    return out


# ======================================================================================================
# 4.  entry point signatures and placement
# ======================================================================================================
# kinds:  R real | C complex (real axis included) | N integer | U in (0,1) | Q nome |q|<1 (real and complex)
#         ("E", [literal, ...]) small enumeration (not driven by thresholds) | ("F", literal) fixed
# cost:   1 cheap libmp routine (all precisions), 2 moderate (precisions <= 400 in the quick tier), 3 expensive (53 only in quick)

def E(*xs):
    return ("E", list(xs))


ENTRY = {
    "gamma": (["C"], 1), "rgamma": (["C"], 1), "loggamma": (["C"], 1), "factorial": (["C"], 1),
    "digamma": (["C"], 1), "harmonic": (["C"], 1), "psi": ([E("1", "2", "5"), "C"], 1),
    "ei": (["C"], 1), "e1": (["C"], 1), "ci": (["C"], 1), "si": (["C"], 1), "chi": (["C"], 2), "shi": (["C"], 2),
    "li": (["R"], 2),
    "expint": (["N", "R"], 1), "gammainc": (["N", "R"], 1),
    "erf": (["C"], 1), "erfc": (["C"], 1),
    "besselj": (["N", "C"], 1), "bessely": (["N", "R"], 2),
    "agm": (["C", "C"], 1), "ellipk": (["C"], 1), "ellipe": (["C"], 2),
    "log": (["C"], 1), "cos": (["C"], 1), "acosh": (["C"], 1),
    "zeta": (["C"], 2), "altzeta": (["C"], 2), "hurwitz": (["C", E("mpf('0.3')", "mpf('2.5')", "(3,7)")], 2),
    "polylog": ([E("2", "mpf('2.5')", "-3", "mpc('0.5','3')"), "Q"], 2),
    "barnesg": (["R"], 2), "riemannr": (["R"], 2),
    "elliprf": (["R", E("1"), E("2", "mpc('0','1')")], 2), "elliprj": (["R", E("1"), E("2"), E("3", "mpf('1e-30')")], 2),
    "jtheta": ([E("1", "2", "3", "4"), "C", "Q"], 2),
    "hyp1f1": ([E("mpf('0.5')", "-30", "mpc('3','1')"), E("mpf('1.5')"), "R"], 2),
    "hyp2f1": ([E("mpf('1.5')", "-20"), E("2"), E("mpf('3.25')"), "Q"], 2),
    "hyp0f1": ([E("mpf('1.5')"), "R"], 2),
    "lambertw": (["R"], 2),
    "expm": ([("M", None)], 3), "logm": ([("M", None)], 3),
}

GEN_RE = ["mpf('1.5')", "mpf('-2.25')", "mpf('3')"]
GEN_IM = ["mpf('0.75')", "ldexp(mpf(1),-30)", "mpf('0')"]


def _num(v):
    if float(v).is_integer():
        return "mpf(%d)" % int(v)
    return "mpf('%.4f')" % v


def value_points(t, rng):
    """value-scale placements around t > 0 (both sides): (tag, value, rank); rank 0 = always run.
    Integers and non-integers are separate families (tags of non-integers end in `~`): the library special-cases integer
    arguments nearly everywhere, so an integer is no neighbour of a non-integer."""
    f = math.floor(t)

    def nonint(v):
        return v if not float(v).is_integer() else v + 0.375
    pts = [("f", f, 0), ("f+1", f + 1, 0), ("f-1", f - 1, 0), ("f+2", f + 2, 1), ("0.9f", math.floor(0.9 * t), 1), ("1.1f", math.floor(1.1 * t) + 1, 1),
           ("f+1/8~", f + 0.125, 1), ("f+9/8~", f + 1.125, 1), ("0.9t~", nonint(round(0.9 * t, 3)), 1), ("1.1t~", nonint(round(1.1 * t, 3)), 1),
           ("t~", nonint(round(t, 4)), 2), ("rnd~", nonint(round(f + rng.uniform(-2, 3), 3)), 2)]
    return [(g, v, r) for g, v, r in pts if 0 < v <= MAXARG]


def mag_points(t, P, rng):
    """magnitude-scale placements: exponents e, the argument is 2^-e"""
    pts = [("e", t, 0), ("0.9e", 0.9 * t, 0), ("1.1e", 1.1 * t, 0), ("0.8e", 0.8 * t, 0), ("e-2", t - 2, 1), ("e+2", t + 2, 2),
           ("rnd", t * rng.uniform(0.75, 1.05), 2)]
    return [(g, int(round(e)), r) for g, e, r in pts if 2 <= e <= 4 * P + 100]


def slot_values(kind, t, reading, P, rng):
    """argument expressions for one slot of kind `kind` placed around the threshold value t (> 0) in the given reading
    ('val' | 'mag'): list of (tag, expr, rank)"""
    out = []
    if reading == "val":
        for g, v, r in value_points(t, rng):
            near = g in ("f", "f+1", "f-1", "f+1/8~", "f+9/8~", "0.9t~", "0.9f")       # these also get the negative side
            if kind == "N":
                if g.endswith("~"):
                    continue
                out.append((g, "%d" % int(v), r))
                if near:
                    out.append(("-" + g, "%d" % -int(v), r))
            elif kind == "R":
                out.append((g, _num(v), r))
                if near:
                    out.append(("-" + g, _num(-v), r))
            elif kind == "C":
                i = len(out)
                out.append((g, _num(v), r))                                                       # on the real axis, as a real
                if near:
                    out.append(("-" + g, _num(-v), r))
                out.append((g + "+i*", "mpc(%s,%s)" % (_num(v), GEN_IM[i % 2]), r + 1))            # off the axis
                if g in ("f", "f+1", "f-1", "0.9t~"):
                    out.append(("-" + g + "+i*", "mpc(%s,%s)" % (_num(-v), GEN_IM[(i + 1) % 2]), r + 1))
                    out.append(("*+i" + g, "mpc(%s,%s)" % (GEN_RE[i % 2], _num(v)), r + 1))        # large imaginary part
    else:
        for g, e, r in mag_points(t, P, rng):
            tiny = "ldexp(mpf(1),%d)" % -e
            if kind == "R":
                out.append((g, tiny, r))
                out.append(("-" + g, "-" + tiny, r))
                if g in ("e", "0.9e", "e+2"):
                    out.append(("1+" + g, "mpf(1)+" + tiny, r + 1))
                    out.append(("1-" + g, "mpf(1)-" + tiny, r + 2))
                    out.append(("-3+" + g, "mpf(-3)+" + tiny, r + 2))
            elif kind == "C":
                for k, re_ in enumerate(GEN_RE[:2]):
                    out.append(("%s+i%s" % (k, g), "mpc(%s,%s)" % (re_, tiny), r + k))             # tiny imaginary part
                out.append((g + "+i*", "mpc(%s,%s)" % (tiny, GEN_IM[0]), r + 1))                    # tiny real part
                out.append((g, tiny, r + 1))
                if g in ("e", "0.9e"):
                    out.append(("-" + g, "-" + tiny, 2))
                    out.append(("1+" + g, "mpf(1)+" + tiny, 2))
                    out.append(("-3+" + g + "+i", "mpc(mpf(-3)+%s,%s)" % (tiny, tiny), 2))
            elif kind == "U":
                out.append((g, tiny, r))
                if g in ("e", "0.9e", "e-2"):
                    out.append(("1-" + g, "mpf(1)-" + tiny, r))
            elif kind == "Q":
                out.append((g, tiny, r + 1))
                if g in ("e", "0.9e", "e-2"):
                    out.append(("1-" + g, "mpf(1)-" + tiny, r))
                    out.append(("-1+" + g, "mpf(-1)+" + tiny, r + 2))
                    out.append(("cis*(1-" + g + ")", "(mpf(1)-%s)*expjpi(mpf(1)/3)" % tiny, r + 1))
        # huge magnitudes only as far as the property's domain reaches (|x| <= 1e6): thresholds like `mag > 5`, `mag-1 > log2(wp)`
        if kind in ("R", "C") and 2 <= t <= 19:
            e = int(round(t))
            for k in (-1, 0, 1, 2):
                if e + k > 19:
                    continue
                out.append(("2^%d" % (e + k), "ldexp(mpf(1),%d)" % (e + k), 0 if k in (0, 1) else 1))
                out.append(("1.5*2^%d" % (e + k), "3*ldexp(mpf(1),%d)" % (e + k - 1), 1))
                out.append(("-2^%d" % (e + k), "-ldexp(mpf(1),%d)" % (e + k), 2))
                if kind == "C":
                    out.append(("i2^%d" % (e + k), "mpc(%s,ldexp(mpf(1),%d))" % (GEN_RE[0], e + k), 1))
    return out


SHAPE = re.compile(r"0\.\d[etf]|1\.1[etf]|f\+\d/8|f[+-]\d|e[+-]\d|rnd|\d+|[fte]")


def default_values(kind, P):
    if isinstance(kind, tuple):
        if kind[0] == "E":
            return list(kind[1])
        if kind[0] == "F":
            return [kind[1]]
        if kind[0] == "M":
            return ["matrix([[1,2],[3,4]])"]
    return {"R": ["mpf('1.5')", "mpf('-2.25')"], "C": ["mpc('1.5','0.75')", "mpf('2.5')"], "N": ["2", "3"],
            "U": ["mpf('0.3')"], "Q": ["mpf('0.3')", "mpc('0.2','0.3')"]}[kind]


def entry_cases(fn, ths, precs, rng, percap, crossprecs=None):
    """cases of one entry point for the thresholds `ths` at the precisions `precs`; returns (cases, dropped_rank0)"""
    kinds, cost = ENTRY[fn]
    slots = [i for i, k in enumerate(kinds) if isinstance(k, str)]
    enums = [i for i, k in enumerate(kinds) if isinstance(k, tuple) and k[0] == "E"]
    cases = []
    seen = set()
    crossprecs = list(precs) if crossprecs is None else crossprecs

    def emit(args, P, tag, rank, thr, nbh):
        k = (tuple(args), P)
        if k in seen:
            return
        seen.add(k)
        cases.append({"fn": fn, "args": list(args), "prec": P, "argprec": min(3 * P + 200, 3 * MAXPREC), "ctx": "mp", "tag": tag,
                      "rank": rank, "thr": thr, "group": fn, "nbh": "%s@%d|%s" % (fn, P, nbh)})

    for P in precs:
        dflt = [default_values(k, P) for k in kinds]
        prim = {}                     # slot -> [(expr, thr text)] threshold values themselves (for the cross products)
        for ti, t in enumerate(ths):
            tv = abs(t["at"](P))
            if tv < 2:
                continue
            readings = ("val", "mag") if t["dep"] else (t["hint"],)
            for rd in readings:
                for si in slots:
                    vals = slot_values(kinds[si], tv, rd, P, rng)
                    shapes = []
                    for j, (g, expr, rank) in enumerate(vals):
                        # enumerated slots rotate with the threshold and the shape of the placement: every alternative meets
                        # every threshold, and all the placements of one neighbourhood share the other arguments
                        sh = SHAPE.sub("@", g)
                        if sh not in shapes:
                            shapes.append(sh)
                        args = []
                        for i, k in enumerate(kinds):
                            if i == si:
                                args.append(expr)
                            elif i in enums:
                                args.append(dflt[i][(shapes.index(sh) + ti + (P % 3)) % len(dflt[i])])
                            else:
                                args.append(dflt[i][0])
                        # neighbourhood: same threshold, reading, slot and shape (sign / axis / centre) of the placement
                        emit(args, P, "%s:%s:%s" % (t["text"], rd, g), rank + (0 if t["dep"] else 1), t["text"],
                             "%s|%s|%d|%s" % (t["text"], rd, si, SHAPE.sub("@", g)))
                    if rd == "val" and t["dep"] and tv <= MAXARG and t.get("depth", 0) <= 1:
                        f = math.floor(tv)
                        for v in (f, f + 1):
                            if kinds[si] == "N":
                                prim.setdefault(si, []).append(("%d" % v, t["text"], t.get("depth", 0)))
                            elif kinds[si] in ("R", "C"):
                                prim.setdefault(si, []).append((_num(v), t["text"], t.get("depth", 0)))
        # cross products of the threshold values of two driven slots (x ~ t1(P) together with n ~ t2(P))
        if len(slots) >= 2 and (P in crossprecs):
            s0, s1 = slots[0], slots[1]
            for e0, t0, d0 in prim.get(s0, []):
                for e1, t1, d1 in prim.get(s1, []):
                    args = [dflt[i][0] for i in range(len(kinds))]
                    args[s0], args[s1] = e0, e1
                    # thresholds of the function that contains the loop: always kept
                    emit(args, P, "cross:%s x %s" % (t0, t1), 0 if d0 + d1 == 0 else 1, t0 + " x " + t1, "cross")
        # the enumerations themselves and the defaults (reach)
        for i in enums:
            for lit in dflt[i]:
                args = [d[0] for d in dflt]
                args[i] = lit
                emit(args, P, "enum", 0, "", "misc")
        emit([d[0] for d in dflt], P, "default", 0, "", "misc")
    dropped0 = 0
    if len(cases) > percap:
        # rank 0 (at the thresholds themselves, both sides) is always kept; the room that is left goes to whole
        # neighbourhoods (all the other placements around one threshold) in seeded order, never to isolated cases
        keep = [c for c in cases if c["rank"] == 0]
        groups = {}
        for c in cases:
            if c["rank"] > 0:
                groups.setdefault(c["nbh"], []).append(c)
        keys = sorted(groups)
        rng.shuffle(keys)
        for k in keys:
            if len(keep) + len(groups[k]) > percap:
                continue
            keep += groups[k]
        cases = keep
    return cases, dropped0


# sites that no public function with threshold-driven arguments reaches: one or two fixed driving calls each
# (constants, solver classes selected by keyword, fp context, internal helpers). `fn` may be a dotted path below mpmath.
REACH = [
    ("findroot", ["sin", "(3, 4)"], {"solver": "'illinois'"}), ("findroot", ["sin", "(3, 4)"], {"solver": "'ridder'"}),
    ("findroot", ["lambda x, y: [x*x + y*y - 1, x - y]", "(1, 1)"], {}),
    ("findroot", ["sin", "(3, 4)"], {"solver": "'pegasus'"}), ("findroot", ["sin", "(3, 4)"], {"solver": "'anderson'"}),
    ("mp.catalan.__pos__", [], {}), ("mp.khinchin.__pos__", [], {}), ("mp.glaisher.__pos__", [], {}), ("mp.apery.__pos__", [], {}),
    ("mp.mertens.__pos__", [], {}), ("mp.twinprime.__pos__", [], {}), ("mp.euler.__pos__", [], {}),
    ("libmp.libintmath.sqrtrem_python", ["10**600 + 12345"], {}), ("libmp.libintmath.sqrtrem_python", ["3**5000"], {}),
    ("fp.digamma", ["-1e3 + 0.5"], {}), ("fp.digamma", ["complex(-1e3, 1e-3)"], {}), ("fp.digamma", ["0.25"], {}), ("fp.digamma", ["complex(0.25, 2.0)"], {}),
    ("fp.loggamma", ["complex(-100.5, 1.0)"], {}), ("fp.erf", ["0.5"], {}), ("fp.erf", ["complex(0.5, 0.5)"], {}), ("fp.erfc", ["2.5"], {}),
    ("fp.ei", ["-40.0"], {}), ("fp.ei", ["2.5"], {}), ("fp.ei", ["complex(40.0, 1e-3)"], {}), ("fp.e1", ["complex(2.0, 1.0)"], {}),
    ("fp.polyexp", ["2", "0.5"], {}), ("fp.bernpoly", ["10", "0.3"], {}), ("fp.fsum", ["[1e20, 1.0, -1e20]"], {}),
    ("arange", ["0", "5", "mpf('0.25')"], {}), ("arange", ["10"], {}),
    ("fsum", ["[mpf(10)**k for k in range(-40, 40)] + [-mpf(10)**39]"], {}), ("fsum", ["[mpc(1, 1e-30), mpc(-1, 1), 3]"], {}),
    ("fprod", ["[1 + mpf(2)**(-k) for k in range(1, 80)]"], {}), ("fprod", ["[mpc(1, mpf(2)**(-k)) for k in range(1, 80)]"], {}),
    ("qp", ["mpf('0.5')", "mpf('0.99')"], {}), ("qp", ["mpc('0.5','0.5')", "mpc('0.3','0.3')"], {}), ("qfac", ["mpf('0.5')", "mpf('0.5')", "inf"], {}),
    ("polyexp", ["2", "mpf('0.5')"], {}), ("bernpoly", ["30", "mpf('0.25')"], {}), ("eulerpoly", ["20", "mpf('3.5')"], {}),
    ("mangoldt", ["49"], {}), ("mangoldt", ["3**7"], {}), ("mangoldt", ["2**10 * 3"], {}), ("mangoldt", ["37**2"], {}), ("mangoldt", ["37*41"], {}),
    ("secondzeta", ["mpf('2')"], {}), ("secondzeta", ["mpf('3.5')"], {"a": "mpf('0.01')"}),
    ("besseljzero", ["0", "5"], {}), ("besseljzero", ["mpf('2.5')", "3", "1"], {}), ("besselyzero", ["1", "2"], {}), ("besseljzero", ["30", "2"], {}),
    ("besselj", ["3", "mpf('2.5')"], {}), ("besselj", ["2", "mpc('1.5','2')"], {}), ("besselj", ["0", "mpf('1e-5')"], {}),
    ("ci", ["mpc('0.5','0.5')"], {}), ("si", ["mpc('2','1')"], {}), ("ci", ["mpf('2.5')"], {}), ("si", ["mpf('100.5')"], {}),
    ("quad", ["sin", "[0, 1]"], {"method": "'gauss-legendre'"}), ("quadgl", ["exp", "[0, 1]"], {}),
    ("nsum", ["lambda k: (-1)**k/k", "[1, inf]"], {"method": "'l'"}), ("nsum", ["lambda k: 1/k**2", "[1, inf]"], {"method": "'l'", "levin_variant": "'t'"}),
    ("nsum", ["lambda k: (-1)**k/(k+1)", "[0, inf]"], {"method": "'sidi'"}), ("nsum", ["lambda k: 1/k**2", "[1, inf]"], {"method": "'l'", "levin_variant": "'v'"}),
    ("diffs_first", ["exp", "mpf(1)", "8"], {}), ("taylor", ["sin", "0", "12"], {}),
    ("odefun_at", ["lambda x, y: y", "0", "1", "3"], {}),
    ("expm", ["matrix([[1, 2], [3, 4]])"], {"method": "'pade'"}), ("expm", ["matrix([[1, 2], [3, 4]]) * 100"], {}), ("expm", ["matrix([[1, 2], [3, 4]])"], {"method": "'taylor'"}),
    ("logm", ["matrix([[1, 2], [3, 4]])"], {}), ("sqrtm", ["matrix([[1, 2], [3, 4]])"], {}),
    ("eig", ["matrix([[0, 1, 0], [0, 0, 1], [1, 0, 0]])"], {}), ("eigsy", ["matrix([[2, 1, 0], [1, 2, 1], [0, 1, 2]])"], {}),
    ("riemannr", ["mpf('1e6')"], {}), ("riemannr", ["mpf('50')"], {}), ("barnesg", ["mpf('30.5')"], {}), ("barnesg", ["mpc('3','40')"], {}),
    ("zeta", ["mpc('0.5','1e4')"], {}), ("zeta", ["mpc('0.5','3e4')"], {"derivative": "1"}), ("siegelz", ["mpf('1e4')"], {}), ("siegelz", ["mpf('5e4')"], {"derivative": "1"}),
    ("zeta", ["mpc('-5.5','20')", "(10,7)"], {}), ("zeta", ["mpf('-5.5')", "(-4,3)"], {}), ("zeta", ["mpc('0.75','3e4')"], {}), ("siegelz", ["mpc('3e4','0.25')"], {}), ("zeta", ["mpc('2','3')", "mpf('1e4')"], {}), ("hurwitz", ["mpc('0.5','40')", "mpf('0.3')"], {}),
    ("zetazero", ["20"], {}), ("zetazero", ["128"], {}), ("zetazero", ["127"], {}, 150), ("nzeros", ["mpf('282.5')"], {}),
    ("zetazero", ["400000008"], {}), ("zetazero", ["400000009"], {}),
    ("levin_update", ["[(-1)**k/mpf(k+1) for k in range(12)]", "'levin'", "'u'"], {}), ("levin_update", ["[1/mpf(k+1)**2 for k in range(12)]", "'levin'", "'t'"], {}),
    ("levin_update", ["[(-1)**k/mpf(k+1) for k in range(12)]", "'sidi'", "'v'"], {}),
    ("polylog", ["2", "mpf('0.999')"], {}), ("polylog", ["mpf('2.5')", "expjpi(mpf(1)/3)"], {}), ("polylog", ["3", "expjpi(mpf(1)/3)*mpf('1.01')"], {}),
    ("polylog", ["mpc('0.5','3')", "mpf('-0.9')"], {}), ("polylog", ["mpf('2.5')", "mpf('1.3')"], {}),
    ("elliprf", ["mpf('1e-30')", "1", "mpf('1e6')"], {}), ("elliprj", ["1", "2", "3", "mpf('1e-30')"], {}), ("ellipk", ["mpc('0.5','0.5')"], {}),
    ("agm", ["mpc('1','1')", "mpc('-1','-1')"], {}), ("agm", ["1", "mpf('1e-300')"], {}),
    ("cos", ["mpf('1e6')"], {}), ("cos", ["ldexp(mpf(1), 200)"], {}), ("exp", ["mpc(0, ldexp(mpf(1), 100))"], {}),
    ("hyp2f1", ["3", "4", "8", "mpf('1')"], {}), ("hyp2f1", ["mpf('1.5')", "2", "mpf('3.25')", "expjpi(mpf(1)/3)"], {}), ("hyper", ["[1, 1]", "[]", "mpf('-0.001')"], {}),
    ("hyp1f1", ["-1000", "mpf('0.5')", "mpf('10')"], {}),
]
# jtheta: every combination of (n, real / complex z, z = 0, large |Im z|, real / complex q, derivative 0..2)
for _n in ("1", "2", "3", "4"):
    for _z in ("mpf(0)", "mpf('0.5')", "mpc('0.5','0.25')", "mpc('0.5','6')"):
        for _q in ("mpf('0.3')", "mpc('0.2','0.3')"):
            for _d in ("0", "1", "2"):
                if _n in ("1", "4") and _d == "2" and _z == "mpf(0)":
                    continue
                REACH.append(("jtheta", [_n, _z, _q, _d], {}))


def reach_cases(precs):
    out = []
    for ent in REACH:
        fn, args, kw = ent[:3]
        for P in ([ent[3]] if len(ent) > 3 else precs[:1]):
            c = {"fn": fn, "args": list(args), "prec": P, "argprec": P, "ctx": "mp", "tag": "reach", "rank": 0, "thr": "", "group": "reach:" + fn,
                 "nbh": "%s@%d|reach" % (fn, P)}
            if kw:
                c["kwargs"] = dict(kw)
            out.append(c)
    return out


def build_cases(tier, rng, sites=None, index=None, only=None):
    T = TIERS[tier]
    sites = load_sites() if sites is None else sites
    index = index or Index(REPO)
    per_entry = {}       # fn -> {key: threshold}
    site_plan = {}
    for s in sites:
        ths = []
        g = index.guards(s)
        for rel, node, consts, depth in g:
            ths += [dict(t, depth=depth) for t in thresholds(node, consts, rel)]
        eps = [e for e in s.get("entry_points", []) if e in ENTRY][:3]
        site_plan[s["key"]] = {"site": site_name(s), "entries": eps, "guards": [n.name for _, n, _, _ in g],
                               "thresholds": ["%s: %s" % (t["func"], t["text"]) for t in ths][:24]}
        for e in eps:
            d = per_entry.setdefault(e, {})
            for t in ths:
                k = (t["probe"], "" if t["dep"] else t["hint"])
                if k not in d or d[k]["depth"] > t["depth"]:
                    d[k] = t
    cases = []
    hist = {}
    for fn in sorted(per_entry):
        if only and fn not in only:
            continue
        kinds, cost = ENTRY[fn]
        precs = list(T["precs"])
        if tier == "quick":
            precs = [p for p in precs if cost == 1 or (cost == 2 and p <= 400) or p <= 64]
        ths = sorted(per_entry[fn].values(), key=lambda t: (not t["dep"], t["depth"], t["func"], t["text"]))
        dep = [t for t in ths if t["dep"]][:14]           # precision-dependent thresholds first; literal ones capped
        lit = [t for t in ths if not t["dep"]][:10]
        nslots = sum(1 for k in kinds if isinstance(k, str))
        cap = T["percap"] if cost == 1 else max(60, T["percap"] // 3)
        cs, dropped0 = entry_cases(fn, dep + lit, precs, rng, int(cap * (1.6 if nslots >= 2 else 1)),
                                   crossprecs=precs[:2] if tier == "quick" else None)
        hist[fn] = {"cases": len(cs), "precision_dependent_thresholds": len(dep), "literal_thresholds": len(lit),
                    "rank0_dropped_by_cap": dropped0}
        cases += cs
    if not only:
        cases += reach_cases(list(T["precs"]))
    for i, c in enumerate(cases):
        c["id"] = i
    return cases, site_plan, hist


# ======================================================================================================
# 5.  worker
# ======================================================================================================

def _loops():
    p = os.path.join(VERIF, "lean", "Gen", "loop_skel.json")
    try:
        d = json.load(open(p))
    except Exception:
        return []
    out = []
    for s in d["sites"]:
        if s.get("kind", "").startswith("generated") or not s.get("line"):
            continue
        out.append((os.path.realpath(os.path.join(REPO, "mpmath", s["file"])), s["line"], s.get("end_line", s["line"]),
                    s.get("body_line", s["line"]), s["cls"], s["key"], s["file"], s["func"]))
    return out


class _Budget(Exception):
    pass


def worker_main():
    os.environ.setdefault("MPMATH_NOGMPY", "1")
    if REPO not in sys.path:
        sys.path.insert(0, REPO)
    if hasattr(sys, "set_int_max_str_digits"):
        sys.set_int_max_str_digits(0)
    import mpmath
    ns = {}
    exec("from mpmath import *", ns)
    ns["mpmath"] = mpmath
    ns["libmp"] = mpmath.libmp
    # helpers for driving calls that need a second step
    ns["diffs_first"] = lambda f, x, n: [v for _, v in zip(range(int(n)), mpmath.diffs(f, x))]
    ns["odefun_at"] = lambda F, x0, y0, x: mpmath.odefun(F, x0, y0)(x)

    def levin_update(terms, method, variant):
        L = mpmath.levin(method=method, variant=variant)
        v = None
        for k in range(2, len(terms) + 1):
            v = L.update(terms[:k])
        return v
    ns["levin_update"] = levin_update
    by_file, body = {}, {}
    for (path, l0, l1, bl, cls, key, rel, func) in _loops():
        by_file.setdefault(path, []).append((l0, l1, cls, key, rel, func))
        if cls in ("tol", "unknown"):
            body[(path, bl)] = key
    iters = {}
    real = {}

    def rp(fn):
        r = real.get(fn)
        if r is None:
            r = real[fn] = os.path.realpath(fn) if not fn.startswith("<") else fn
        return r

    mon = getattr(sys, "monitoring", None)
    if mon is not None:
        TOOL = 3
        try:
            mon.use_tool_id(TOOL, "c24")
        except Exception:
            mon = None
    if mon is not None:
        def on_line(code, line):
            k = body.get((rp(code.co_filename), line))
            if k is None:
                return mon.DISABLE
            iters[k] = iters.get(k, 0) + 1
        mon.register_callback(TOOL, mon.events.LINE, on_line)
        mon.set_events(TOOL, mon.events.LINE)
    else:
        mpdir = os.path.dirname(os.path.realpath(mpmath.__file__)) + os.sep

        def local(frame, event, arg):
            if event == "line":
                k = body.get((rp(frame.f_code.co_filename), frame.f_lineno))
                if k is not None:
                    iters[k] = iters.get(k, 0) + 1
            return local

        def glob(frame, event, arg):
            return local if rp(frame.f_code.co_filename).startswith(mpdir) else None
        sys.settrace(glob)

    def stack_of(frame):
        st = []
        f = frame
        while f is not None:
            fn = rp(f.f_code.co_filename)
            for (l0, l1, cls, key, rel, func) in by_file.get(fn, ()):
                if l0 <= f.f_lineno <= l1:
                    st.append({"key": key, "cls": cls, "at": "%s:%d" % (rel, l0), "line": l0, "file": rel, "func": func,
                               "iterations": iters.get(key)})
            f = f.f_back
        return st

    state = {}

    def on_alarm(signum, frame):
        c = state.get("case")
        if c is None:
            return
        if state.get("cut") is None:
            state["cut"] = {"id": c["id"], "status": "budget", "wall": round(time.process_time() - state["t0"], 3),
                            "loops_on_stack": stack_of(frame), "open_loop_iterations": dict(iters)}
        if c.get("unwind") and state.get("fired", 0) < 4:
            # phase 1: unwind the call with an exception and keep the worker (verdicts are only ever taken from phase 2, where every
            # call has a fresh process); the timer is re-armed in case the library swallows the exception (bare `except:`)
            state["fired"] = state.get("fired", 0) + 1
            signal.setitimer(signal.ITIMER_PROF, 0.05)
            raise _Budget()
        sys.stdout.write(json.dumps(state["cut"]) + "\n")
        sys.stdout.flush()
        os._exit(3)

    # the budget is CPU time of the worker (ITIMER_PROF): a loaded machine does not turn a fast call into a slow one;
    # the parent adds a generous wall-clock backstop (its expiry is "no result": undecided, never a failing input)
    signal.signal(signal.SIGPROF, on_alarm)

    def resolve(name, ctxname):
        if "." in name:
            obj = mpmath
            parts = name.split(".")
            if parts[0] in ns:
                obj = ns[parts[0]]
                parts = parts[1:]
            for p in parts:
                obj = getattr(obj, p)
            return obj
        ctx = getattr(mpmath, ctxname)
        if hasattr(ctx, name):
            return getattr(ctx, name)
        return eval(name, ns)

    sys.stdout.write("ready\n")
    sys.stdout.flush()
    for line in sys.stdin:
        line = line.strip()
        if not line:
            continue
        case = json.loads(line)
        iters.clear()
        out = {"id": case["id"]}
        state["cut"], state["fired"] = None, 0
        try:
            P = min(int(case.get("prec", 53)), MAXPREC)
            mpmath.mp.prec = max(P, min(int(case.get("argprec", P)), 3 * MAXPREC))
            fn = resolve(case["fn"], case.get("ctx", "mp"))
            args = [eval(a, ns) for a in case.get("args", [])]
            kwargs = {k: eval(v, ns) for k, v in case.get("kwargs", {}).items()}
            mpmath.mp.prec = P
            state["case"], state["t0"] = case, time.process_time()
            signal.setitimer(signal.ITIMER_PROF, float(case["tbudget"]))
            try:
                fn(*args, **kwargs)
            finally:
                signal.setitimer(signal.ITIMER_PROF, 0)
                state["case"] = None
            out["status"] = "ok"
        except BaseException as e:
            signal.setitimer(signal.ITIMER_PROF, 0)
            state["case"] = None
            if isinstance(e, (KeyboardInterrupt, SystemExit)):
                raise
            out["status"] = "exc"
            out["exc"] = type(e).__name__
            out["msg"] = str(e)[:160]
        finally:
            mpmath.mp.prec = 53
        if state.get("cut") is not None:
            # the budget expired (whatever the unwinding turned into): the record taken at the cut-off is the result
            out = dict(state["cut"], unwound=True)
            state["cut"] = None
            sys.stdout.write(json.dumps(out) + "\n")
            sys.stdout.flush()
            continue
        out["wall"] = round(time.process_time() - state.get("t0", time.process_time()), 4)      # CPU seconds
        out["open_loop_iterations"] = dict(iters)
        sys.stdout.write(json.dumps(out) + "\n")
        sys.stdout.flush()


# ======================================================================================================
# parent
# ======================================================================================================

def run_cases(cases, workers, batch=None, slack=4.0, tshort=None, fresh=False):
    """cases carry id and tbudget (seconds).  returns {id: result}; status ok | exc | budget | wall-timeout | crash.
    `workers` persistent worker processes pull cases from one queue.  A call that exceeds its budget reports the loops on its
    stack; with case["unwind"] the call is then unwound by an exception and the worker goes on (phase 1), otherwise the worker
    leaves and is replaced.  fresh=True: one new process per call (phase 2: verdicts never come from a reused process)."""
    import select, collections
    results = {}
    lock = threading.Lock()
    queue = collections.deque(cases)
    env = dict(os.environ, MPMATH_NOGMPY="1", MPMATH_REPO=REPO)
    over = {}        # neighbourhood -> calls that exceeded their budget so far
    CHUNK = 1 if (fresh or len(cases) <= 200) else 8

    class Lines:
        """line reader over the raw pipe (select + os.read): no line is ever hidden in a Python-level buffer"""

        def __init__(self, proc):
            self.fd, self.buf = proc.stdout.fileno(), b""

        def get(self, timeout):
            end = time.time() + timeout
            while b"\n" not in self.buf:
                left = end - time.time()
                if left <= 0:
                    return None                      # timeout
                rd, _, _ = select.select([self.fd], [], [], left)
                if not rd:
                    return None
                chunk = os.read(self.fd, 65536)
                if not chunk:
                    return ""                        # EOF: the worker has gone
                self.buf += chunk
            line, self.buf = self.buf.split(b"\n", 1)
            return line.decode("utf8", "replace")

    def start():
        # the worker answers "ready" once mpmath is imported and the loop table is loaded: start-up time (seconds on a
        # loaded machine) never counts against a call's budget
        for attempt in range(3):
            p = subprocess.Popen([PY, os.path.abspath(__file__), "--worker"], stdin=subprocess.PIPE, stdout=subprocess.PIPE,
                                 stderr=subprocess.DEVNULL, env=env)
            p.lines = Lines(p)
            if (p.lines.get(120) or "").strip() == "ready":
                return p
            stop(p)
        raise RuntimeError("worker does not start")

    def stop(p):
        try:
            p.kill()
        except Exception:
            pass
        try:
            p.wait(timeout=5)
        except Exception:
            pass

    def loop():
        p = None
        blank = {"wall": None, "loops_on_stack": [], "open_loop_iterations": {}}
        try:
            while True:
                with lock:
                    chunk = []
                    while queue and len(chunk) < CHUNK:
                        c = queue.popleft()
                        if tshort and over.get(c.get("nbh"), 0) >= 2:
                            c["tbudget"] = min(c["tbudget"], tshort)
                            c["short"] = True
                        chunk.append(c)
                if not chunk:
                    break
                if p is None or p.poll() is not None:
                    p = start()
                try:
                    p.stdin.write("".join(json.dumps({k: v for k, v in c.items() if k not in
                                                      ("tag", "rank", "thr", "group", "nbh", "short")}) + "\n" for c in chunk).encode())
                    p.stdin.flush()
                except (BrokenPipeError, OSError, ValueError):
                    pass
                for n, c in enumerate(chunk):
                    r = None
                    try:
                        ln = p.lines.get(6 * float(c["tbudget"]) + slack)
                        if ln is None:
                            r = dict(blank, id=c["id"], status="wall-timeout")
                        else:
                            r = json.loads(ln) if ln.strip().startswith("{") else dict(blank, id=c["id"], status="crash")
                    except (OSError, ValueError):
                        r = dict(blank, id=c["id"], status="crash")
                    with lock:
                        results[c["id"]] = r
                        if r["status"] not in ("ok", "exc"):
                            over[c.get("nbh")] = over.get(c.get("nbh"), 0) + 1
                            if c.get("short"):
                                r["short"] = True
                            if not r.get("unwound"):
                                # the worker has left: the rest of the chunk goes back to the queue
                                for c2 in reversed(chunk[n + 1:]):
                                    queue.appendleft(c2)
                    if (r["status"] not in ("ok", "exc") and not r.get("unwound")) or fresh:
                        stop(p)
                        p = None
                        break
        finally:
            if p is not None:
                try:
                    p.stdin.close()
                except Exception:
                    pass
                stop(p)

    ths = [threading.Thread(target=loop) for _ in range(max(1, min(workers, len(cases))))]
    for t in ths:
        t.start()
    for t in ths:
        t.join()
    return results


def strip(c):
    return {k: v for k, v in c.items() if k in ("fn", "args", "kwargs", "prec", "argprec", "ctx")}


def search(cases, tier, rng=None):
    T = TIERS[tier]
    t0 = time.time()
    order = list(cases)
    (rng or random.Random(0)).shuffle(order)          # spread the expensive functions over the batches
    for c in order:
        c["tbudget"] = T["T1"]
        c["unwind"] = True
    r1 = run_cases(order, T["workers"], tshort=T["TSHORT"])
    # neighbours: the other placements around the same threshold (same entry point, precision, threshold, reading, slot and
    # shape) that returned
    nb = {}
    for c in cases:
        r = r1.get(c["id"])
        if r and r["status"] in ("ok", "exc") and r.get("wall") is not None:
            nb.setdefault(c["nbh"], []).append(r["wall"])
    cands = []
    for c in cases:
        r = r1.get(c["id"], {"status": "missing"})
        if r["status"] in ("budget", "wall-timeout"):
            w = nb.get(c["nbh"], [])
            med = statistics.median(w) if w else None
            c2 = dict(c)
            c2.pop("unwind", None)
            c2["nb_returned"] = len(w)
            c2["nb_median"] = med
            c2["tbudget"] = min(T["TMAX"], max(T["TMIN"], T["FACTOR"] * (med or 0)))
            cands.append(c2)
    # phase 2, cheapest neighbourhoods first, at most cap2 re-runs (the others stay undecided)
    cands.sort(key=lambda c: (c["nb_median"] is None, c["nb_median"] or 0, c["id"]))
    # not more than 2 re-runs per neighbourhood and 4 per (entry point, precision): one witness per neighbourhood is enough
    per = {}
    rerun, skipped = [], []
    for c in cands:
        k = (c["fn"], c["prec"])
        if c["nb_returned"] >= T["MINNB"] and per.get(k, 0) < 4 and per.get(c["nbh"], 0) < 2 and len(rerun) < T["cap2"] \
                and T["FACTOR"] * c["nb_median"] <= T["TMAX"]:
            per[k] = per.get(k, 0) + 1
            per[c["nbh"]] = per.get(c["nbh"], 0) + 1
            rerun.append(c)
        else:
            skipped.append(c)
    r2 = run_cases(rerun, T["workers"], fresh=True) if rerun else {}      # one fresh process per call
    failing, undecided, slow = [], [], []

    def open_stack(b):
        return [e for e in b.get("loops_on_stack", []) if e["cls"] in ("tol", "unknown")]

    survivors = []
    for c in rerun:
        b = r2.get(c["id"], {"status": "missing"})
        if b["status"] in ("ok", "exc"):
            slow.append({"case": strip(c), "wall": b.get("wall"), "neighbour_median": c["nb_median"], "status": b["status"]})
        elif b["status"] != "budget":
            undecided.append({"case": strip(c), "why": b["status"]})
        elif not open_stack(b):
            undecided.append({"case": strip(c), "why": "no result within %.1f s, no open-class loop on the stack at the cut-off" % c["tbudget"],
                              "stack": [e["at"] + ":" + e["cls"] for e in b.get("loops_on_stack", [])]})
        else:
            survivors.append((c, b))
    # phase 3 (confirmation): at most two witnesses per loop, once more with ESCALATE x the budget — a call that is merely much
    # slower than its neighbours gets a second chance before it is reported
    per_site, confirm = {}, []
    for c, b in survivors:
        k = open_stack(b)[0]["key"]
        if per_site.get(k, 0) < 2:
            per_site[k] = per_site.get(k, 0) + 1
            c3 = dict(c)
            c3["tbudget2"] = c["tbudget"]
            c3["tbudget"] = T["ESCALATE"] * c["tbudget"]
            confirm.append(c3)
        else:
            undecided.append({"case": strip(c), "why": "no result within %.1f s in the loop %s; not escalated: two other witnesses of this loop are" %
                              (c["tbudget"], open_stack(b)[0]["at"])})
    r3 = run_cases(confirm, T["workers"], fresh=True) if confirm else {}
    for c in confirm:
        b = r3.get(c["id"], {"status": "missing"})
        if b["status"] in ("ok", "exc"):
            slow.append({"case": strip(c), "wall": b.get("wall"), "neighbour_median": c["nb_median"], "status": b["status"],
                         "note": "returned only under the escalated budget (did not return within %.1f s)" % c["tbudget2"]})
            continue
        st = open_stack(b) if b["status"] == "budget" else []
        if not st:
            undecided.append({"case": strip(c), "why": "escalated run: %s" % b["status"]})
            continue
        e = st[0]                   # innermost open loop on the stack: the one that is spinning
        if (e.get("iterations") or 0) < 10 * max(53, int(c.get("prec", 53))):
            # evidence rule (see term_dynamic.search): too few iterations to tell slow convergence from divergence
            undecided.append({"case": strip(c), "why": "escalated run: no result within %.1f s after only %s iterations (< 10*prec) of the "
                              "%s-class loop at %s: slow iterations, non-termination not shown" % (c["tbudget"], e.get("iterations"), e["cls"], e["at"])})
            continue
        mod = e["file"].replace(".py", "").replace("/", ".")
        site = "%s.%s[loop@%d]" % (mod, e["func"], e["line"])
        kw = c.get("kwargs")
        failing.append({
            "site": site,
            "what": "no result within %.1f s: %s(%s%s) at mp.prec=%d; %d neighbouring placements (%s) returned, median %.4f s; "
                    "the %s-class loop at %s is on the stack at the cut-off after %s iterations" %
                    (c["tbudget"], c["fn"], ", ".join(c["args"]), (", " + ", ".join("%s=%s" % kv for kv in kw.items())) if kw else "",
                     c["prec"], c["nb_returned"], c["nbh"], c["nb_median"], e["cls"], e["at"], e.get("iterations")),
            "input": dict(strip(c), adaptive=True, loop=e["at"], loop_key=e["key"], loop_class=e["cls"], loop_iterations=e.get("iterations"),
                          budget_s=c["tbudget"], first_budget_s=c["tbudget2"], neighbours_returned=c["nb_returned"],
                          neighbour_median_s=c["nb_median"], placed_at=c.get("tag"), neighbourhood=c.get("nbh")),
        })
    for c in skipped:
        undecided.append({"case": strip(c), "why": "no result within %.1f s; not re-run (%s)" % (
            T["T1"], "slow region: only %d of its neighbouring placements (%s) returned" % (c["nb_returned"], c["nbh"]) if c["nb_returned"] < T["MINNB"]
            else "neighbours are slow: median %.2f s" % c["nb_median"] if T["FACTOR"] * (c["nb_median"] or 0) > T["TMAX"]
            else "phase-2 cap: other calls of this neighbourhood are re-run")})
    for c in cases:
        r = r1.get(c["id"], {"status": "missing"})
        if r["status"] in ("crash", "missing"):
            undecided.append({"case": strip(c), "why": r["status"], "msg": r.get("msg", "")[:200]})
    executed = {}
    for r in list(r1.values()) + list(r2.values()) + list(r3.values()):
        for k, v in (r.get("open_loop_iterations") or {}).items():
            executed[k] = max(executed.get(k, 0), v)
    reached_by = {}
    for c in cases:
        r = r1.get(c["id"]) or {}
        for k, v in (r.get("open_loop_iterations") or {}).items():
            if v and k not in reached_by:
                reached_by[k] = "%s(%s)@%d" % (c["fn"], ", ".join(c["args"])[:60], c["prec"])
    return {"r1": r1, "r2": r2, "r3": r3, "confirmed": len(confirm), "failing": failing, "undecided": undecided, "slow": slow, "candidates": len(cands),
            "rerun": len(rerun), "executed_open_loops": executed, "reached_by": reached_by, "wall": time.time() - t0}


def main():
    import argparse
    ap = argparse.ArgumentParser()
    ap.add_argument("--worker", action="store_true")
    ap.add_argument("--tier", default="quick")
    ap.add_argument("--seed", type=int, default=0)
    ap.add_argument("--replay", default=None)
    ap.add_argument("--budget", type=float, default=20.0)
    ap.add_argument("--only", default=None)
    ap.add_argument("--thresholds", nargs="*", default=None)
    ap.add_argument("--count", action="store_true")
    a = ap.parse_args()
    if a.worker:
        worker_main()
        return
    if a.thresholds is not None:
        idx = Index(REPO)
        for nm in a.thresholds:
            for rel, fn, consts in idx.funcs.get(nm, []):
                print("%s:%d %s" % (rel, fn.lineno, nm))
                for t in thresholds(fn, consts):
                    print("    t(53)=%.5g t(1000)=%.5g  %s [%s]  %s" % (t["probe"][0], t["probe"][1], "P-dependent" if t["dep"] else "literal", t["hint"], t["text"]))
        return
    if a.replay:
        c = json.loads(a.replay)
        c.setdefault("id", 0)
        c["tbudget"] = a.budget
        print(json.dumps(run_cases([c], 1)[0], indent=1))
        return
    rng = random.Random(a.seed)
    cases, plan, hist = build_cases(a.tier, rng, only=a.only.split(",") if a.only else None)
    print("cases", len(cases), json.dumps(hist))
    if a.count:
        return
    res = search(cases, a.tier, rng)
    st = {}
    for r in res["r1"].values():
        st[r["status"]] = st.get(r["status"], 0) + 1
    print("phase1", st, "candidates", res["candidates"], "rerun", res["rerun"], "wall %.1fs" % res["wall"])
    print("failing", json.dumps(res["failing"], indent=1))
    print("undecided", len(res["undecided"]), json.dumps(res["undecided"][:30], indent=1)[:4000])
    print("slow", json.dumps(res["slow"])[:2000])
    sites = load_sites()
    miss = [site_name(s) for s in sites if not res["executed_open_loops"].get(s["key"])]
    print("open loops executed %d of %d; not reached:" % (len(sites) - len(miss), len(sites)))
    for m in miss:
        print("   ", m)


if __name__ == "__main__":
    main()
