"""C27, complex-valued summand classes and the direct use of the extrapolation classes (round 3).

Every public routine of mpmath/calculus/extrapolation.py is run here on summands / factors / sequences that are
COMPLEX-valued on the real axis (non-real shift, non-real ratio, non-real weight), next to the real classes of props/C27.py:

    routine            classes (all with exactly known Gaussian-rational value)
    nsum (per method)  ctele (1/((k+c)(k+c+1)[(k+c+2)]), c non-real), cgeom (w r^k), cpgeom ((w0 + w1 k) r^k), calt
                       ((-1)^k (1/(k+c) + 1/(k+c+1))); index ranges [a,inf) shifted, (-inf,b], (-inf,inf), finite, 2-D products;
                       options levin_variant u/t/v and method 'sidi' (also on the real members c, r, w real)
    sumem              tails of ctele
    sumap              ctele with start a in {.., -2, 0, 1, 5, ..}, real and non-real shift, real value carried by a complex type;
                       cgeom / cpgeom with the `integral=` argument (real positive, real negative and non-real ratio); error=True
    nprod              telescoping products with non-real shift ([a,inf), (-inf,b], finite, nsum=True)
    limit              Moebius sequences with Gaussian coefficients at infinity; difference quotients of Gaussian polynomials at a
                       complex point along a complex direction
    richardson         complex sequences: linear with real weights, so re/im parts are compared with the exact Lean model
    shanks             A + a q^k (+ b s^k): the epsilon table is exact on its ansatz (documented), complex A, a, q
    levin              levin/sidi x u/t/v through update / update_psum / step / step_psum on the series on which the transform
                       is exact (geometric: all variants from the 3rd term on; 1/((k+c)(k+c+1)): u, v)
    cohen_alt          update / update_psum on w (-q)^k: compared with the exact value of the Cohen-Villegas-Zagier
                       approximant (d_n - T_n(1-2q)) / (d_n (1+q)), and with the sum once n is large enough

Oracle: every family is written in telescoped form  term(k) = U(k) - U(k+1)  with U a Gaussian-rational function of k (times
r^k, |r| < 1) tending to 0, so  sum_{k>=a} term(k) = U(a)  and  sum_{k=a}^b = U(a) - U(b+1)  hold by inspection; the identity
term = U(k) - U(k+1) is the DEFINITION of the exact term used here, and the mpmath transcription of the summand is cross-checked
against it at 300 bits.  The verdict |y - S| <= 2^(10-p) |S| (complex modulus) is decided in exact rational arithmetic
(Python Fractions); the Lean driver is used for the richardson model only.  (lean/ cannot be extended in this round.)
"""
import json
from fractions import Fraction
import calc_ops as CO
from calc_ops import rtok, fr, kind, mk_const, enc_num, is_dy, dy_fraction

# ----------------------------------------------------------------------------------------------------------------------
# exact Gaussian rationals
# ----------------------------------------------------------------------------------------------------------------------


class GQ:
    __slots__ = ("re", "im")

    def __init__(self, re=0, im=0):
        self.re = Fraction(re)
        self.im = Fraction(im)

    @staticmethod
    def of(x):
        if isinstance(x, GQ):
            return x
        if isinstance(x, (list, tuple)):
            return GQ(Fraction(x[0]), Fraction(x[1]))
        return GQ(Fraction(x), 0)

    def __add__(self, o):
        o = GQ.of(o); return GQ(self.re + o.re, self.im + o.im)
    __radd__ = __add__

    def __neg__(self):
        return GQ(-self.re, -self.im)

    def __sub__(self, o):
        o = GQ.of(o); return GQ(self.re - o.re, self.im - o.im)

    def __rsub__(self, o):
        return GQ.of(o) - self

    def __mul__(self, o):
        o = GQ.of(o); return GQ(self.re * o.re - self.im * o.im, self.re * o.im + self.im * o.re)
    __rmul__ = __mul__

    def inv(self):
        n = self.abs2()
        return GQ(self.re / n, -self.im / n)

    def __truediv__(self, o):
        return self * GQ.of(o).inv()

    def __rtruediv__(self, o):
        return GQ.of(o) * self.inv()

    def __pow__(self, n):
        n = int(n)
        if n < 0:
            return (self ** (-n)).inv()
        r, b = GQ(1), self
        while n:
            if n & 1:
                r = r * b
            b = b * b
            n >>= 1
        return r

    def abs2(self):
        return self.re * self.re + self.im * self.im

    def __eq__(self, o):
        o = GQ.of(o); return self.re == o.re and self.im == o.im

    def __bool__(self):
        return bool(self.re) or bool(self.im)

    def __repr__(self):
        return "GQ(%s, %s)" % (self.re, self.im)

    def approx(self):
        return complex(float(self.re), float(self.im))

    def tok(self):
        return [rtok(self.re), rtok(self.im)]


def fabs(z):
    """float modulus of a GQ (generator-side conditioning decisions only, never a verdict)"""
    return abs(GQ.of(z).approx())


def isreal(z):
    return GQ.of(z).im == 0


# ----------------------------------------------------------------------------------------------------------------------
# families: exact U(k) with term(k) = U(k) - U(k+1), and the mpmath callables
# ----------------------------------------------------------------------------------------------------------------------

def U_exact(d, k):
    """exact antidifference: sum_{j>=k} term(j)"""
    t = d["cser"]
    k = int(k)
    if t == "ctele":
        c, w, m = GQ.of(d["c"]), GQ.of(d["w"]), int(d["m"])
        p = GQ(1)
        for j in range(m - 1):
            p = p * (c + k + j)
        return w / (p * (m - 1))
    if t == "cgeom":
        w, r = GQ.of(d["w"]), GQ.of(d["r"])
        return w * r ** k / (1 - r)
    if t == "cpgeom":
        w0, w1, r = GQ.of(d["w0"]), GQ.of(d["w1"]), GQ.of(d["r"])
        B = w1 / (1 - r)
        A = (w0 + B * r) / (1 - r)
        return (A + B * k) * r ** k
    if t == "calt":
        c, w = GQ.of(d["c"]), GQ.of(d["w"])
        return w * (-1) ** (k % 2) / (c + k)
    raise ValueError(t)


def term_exact(d, k):
    return U_exact(d, k) - U_exact(d, k + 1)


def sum_exact(d, a, b=None):
    return U_exact(d, a) if b is None else U_exact(d, a) - U_exact(d, b + 1)


def cser_class(d):
    t = d["cser"]
    if t == "ctele":
        return "pser"
    if t == "calt":
        return "calt"
    r = GQ.of(d["r"])
    if r.im == 0:
        return "geo+" if r.re > 0 else "geo-"
    return "geoc"


def cser_ratio(d):
    return fabs(d["r"]) if d["cser"] in ("cgeom", "cpgeom") else None


def cser_is_complex(d):
    return any(not isreal(d[x]) for x in ("c", "w", "w0", "w1", "r") if x in d) or bool(d.get("typed"))


def mk_cconst(mp, z, typed=False):
    """callable returning the Gaussian rational at the CURRENT working precision (mpf when real, unless typed)"""
    z = GQ.of(z)
    re = mk_const(mp, z.re)
    if z.im == 0 and not typed:
        return re
    im = mk_const(mp, z.im)
    return lambda: mp.mpc(re(), im())


def mk_cser(mp, d):
    t = d["cser"]
    typed = bool(d.get("typed"))
    if t == "ctele":
        c = mk_cconst(mp, d["c"], typed); w = mk_cconst(mp, d["w"]); m = int(d["m"])
        unit = GQ.of(d["w"]) == 1
        if m == 2:
            f = lambda k: 1 / ((k + c()) * (k + c() + 1))
        elif m == 3:
            f = lambda k: 1 / ((k + c()) * (k + c() + 1) * (k + c() + 2))
        else:
            raise ValueError(m)
        return f if unit else (lambda k: w() * f(k))
    if t == "cgeom":
        w = mk_cconst(mp, d["w"]); r = mk_cconst(mp, d["r"], typed)
        return lambda k: w() * r() ** k
    if t == "cpgeom":
        w0 = mk_cconst(mp, d["w0"]); w1 = mk_cconst(mp, d["w1"]); r = mk_cconst(mp, d["r"], typed)
        return lambda k: (w0() + w1() * k) * r() ** k
    if t == "calt":
        c = mk_cconst(mp, d["c"], typed); w = mk_cconst(mp, d["w"])
        return lambda k: w() * (-1) ** k * (1 / (k + c()) + 1 / (k + c() + 1))
    raise ValueError(t)


# products: factor(k) = V(k) / V(k+1), V -> 1, so prod_{k>=a} = V(a), prod_{k=a}^b = V(a) / V(b+1)

def V_exact(d, k):
    t = d["cprd"]; c = GQ.of(d["c"]); k = int(k)
    if t == "ctele1":          # 1 - 1/(k+c)^2
        return (c + k - 1) / (c + k)
    if t == "ctele2":          # 1 + 1/((k+c)(k+c+2))
        return (c + k + 1) / (c + k)
    if t == "cratio":          # (k+c)/(k+e): finite ranges only
        raise ValueError("no infinite product")
    raise ValueError(t)


def factor_exact(d, k):
    if d["cprd"] == "cratio":
        return (GQ.of(d["c"]) + k) / (GQ.of(d["e"]) + k)
    return V_exact(d, k) / V_exact(d, k + 1)


def prod_exact(d, a, b=None):
    if b is None:
        return V_exact(d, a)
    p = GQ(1)
    for k in range(a, b + 1):
        p = p * factor_exact(d, k)
    return p


def mk_cprd(mp, d):
    t = d["cprd"]; c = mk_cconst(mp, d["c"])
    if t == "ctele1":
        return lambda k: 1 - 1 / (k + c()) ** 2
    if t == "ctele2":
        return lambda k: 1 + 1 / ((k + c()) * (k + c() + 2))
    if t == "cratio":
        e = mk_cconst(mp, d["e"])
        return lambda k: (k + c()) / (k + e())
    raise ValueError(t)


# limits

def lim_exact(d):
    t = d["clim"]
    if t == "moebius":         # (A x + B)/(C x + D), x -> inf
        return GQ.of(d["A"]) / GQ.of(d["C"])
    if t in ("dquot", "dquot_dir"):           # (P(x0 + h) - P(x0))/h, h -> 0: P'(x0)
        x0 = GQ.of(d["x0"])
        s = GQ(0)
        for n, cf in enumerate(d["P"]):
            if n >= 1:
                s = s + GQ.of(cf) * n * x0 ** (n - 1)
        if t == "dquot_dir":   # times |h|/h along h = dir/n: conj(dir)/|dir|, |dir| rational (the limit depends on the direction)
            dr = GQ.of(d["dir"])
            s = s * GQ(dr.re, -dr.im) / GQ.of(d["absdir"])
        return s
    raise ValueError(t)


def mk_clim(mp, d):
    t = d["clim"]
    if t == "moebius":
        A, B, C, D = (mk_cconst(mp, d[x]) for x in "ABCD")
        return lambda x: (A() * x + B()) / (C() * x + D())
    if t in ("dquot", "dquot_dir"):
        cs = [mk_cconst(mp, cf) for cf in d["P"]]
        x0 = mk_cconst(mp, d["x0"])

        def P(x):
            s = mp.zero
            for cf in reversed(cs):
                s = s * x + cf()
            return s
        if t == "dquot_dir":
            return lambda x: (P(x) - P(x0())) / (x - x0()) * (abs(x - x0()) / (x - x0()))
        return lambda x: (P(x) - P(x0())) / (x - x0())
    raise ValueError(t)


# ----------------------------------------------------------------------------------------------------------------------
# worker side
# ----------------------------------------------------------------------------------------------------------------------

def _sample(mp, f, start, n=4):
    old = mp.prec
    mp.prec = 300
    try:
        return [enc_num(mp, +f(mp.mpf(start + i))) for i in range(n)]
    finally:
        mp.prec = old


def _nsum_kw(t):
    kw = {}
    for k in ("method", "levin_variant"):
        if t.get(k):
            kw[k] = t[k]
    return kw


@kind("cx_nsum")
def w_cx_nsum(mp, t):
    mp.prec = int(t["prec"])
    ds = t["sers"]
    fs = [mk_cser(mp, d) for d in ds]
    shape = t["shape"]
    kw = _nsum_kw(t)
    inf = mp.inf
    a = int(t.get("a", 0))
    if shape == "toinf":
        s = int(t.get("shift", 0)); f0 = fs[0]
        v = mp.nsum(lambda k: f0(k - s), [a + s, inf], **kw)
    elif shape == "fromneginf":
        b = int(t["b"]); f0 = fs[0]
        v = mp.nsum(lambda k: f0(a + b - k), [-inf, b], **kw)
    elif shape == "all":
        f0, f1 = fs; a1 = int(t["a1"])
        if t.get("desc"):       # lower half = the second summand on the indices j = a1 + k < a1 (descending)
            v = mp.nsum(lambda k: f0(a + k) if k >= 0 else f1(a1 + k), [-inf, inf], **kw)
        else:                   # lower half = the second series reflected (ascending from a1)
            v = mp.nsum(lambda k: f0(a + k) if k >= 0 else f1(a1 - k - 1), [-inf, inf], **kw)
    elif shape == "finite":
        v = mp.nsum(fs[0], [a, int(t["b"])], **kw)
    elif shape == "fin_inf":
        f0, f1 = fs; a1 = int(t["a1"])
        if t.get("swap"):
            v = mp.nsum(lambda k, j: f0(j) * f1(k), [a1, inf], [a, int(t["b"])], **kw)
        else:
            v = mp.nsum(lambda j, k: f0(j) * f1(k), [a, int(t["b"])], [a1, inf], **kw)
    elif shape == "inf_inf":
        f0, f1 = fs; a1 = int(t["a1"])
        v = mp.nsum(lambda j, k: f0(j) * f1(k), [a, inf], [a1, inf], **kw)
    elif shape == "sumem":
        v = mp.sumem(fs[0], [a, inf])
    elif shape == "sumap":
        d = ds[0]
        kw2 = {}
        if t.get("integral"):
            # closed form of int_0^inf g(x) dx, g(x) = f(x + a), supplied by the caller as the docstring recommends for
            # oscillating summands; evaluated with 30 guard bits
            old = mp.prec
            mp.prec = old + 30
            try:
                r = mk_cconst(mp, d["r"])()
                L = mp.log(r)
                if d["cser"] == "cgeom":
                    I = -mk_cconst(mp, d["w"])() * r ** a / L
                else:   # int_0^inf (w0 + w1 (x + a)) r^(x + a) dx
                    w0 = mk_cconst(mp, d["w0"])(); w1 = mk_cconst(mp, d["w1"])()
                    I = r ** a * (-(w0 + w1 * a) / L + w1 / L ** 2)
            finally:
                mp.prec = old
            if t.get("integral") == "typed" and not hasattr(I, "_mpc_"):
                I = mp.mpc(I)
            kw2["integral"] = I
        if t.get("error"):
            v, err = mp.sumap(fs[0], [a, inf], error=True, **kw2)
            out = {"v": enc_num(mp, v), "err": enc_num(mp, err), "prec_after": mp.prec}
            out["terms"] = [_sample(mp, fs[0], a)]
            return out
        v = mp.sumap(fs[0], [a, inf], **kw2)
    else:
        raise ValueError(shape)
    out = {"v": enc_num(mp, v), "prec_after": mp.prec}
    starts = [a] + ([int(t["a1"]) - (4 if t.get("desc") else 0)] if len(fs) > 1 else [])
    out["terms"] = [_sample(mp, f, s) for f, s in zip(fs, starts)]
    return out


@kind("cx_nprod")
def w_cx_nprod(mp, t):
    mp.prec = int(t["prec"])
    f = mk_cprd(mp, t["prd"])
    a = int(t["a"])
    kw = {}
    if t.get("method"):
        kw["method"] = t["method"]
    if t.get("nsum"):
        kw["nsum"] = True
    shape = t["shape"]
    if shape == "toinf":
        s = int(t.get("shift", 0))
        v = mp.nprod(lambda k: f(k - s), [a + s, mp.inf], **kw)
    elif shape == "fromneginf":
        b = int(t["b"])
        v = mp.nprod(lambda k: f(a + b - k), [-mp.inf, b], **kw)
    elif shape == "finite":
        v = mp.nprod(f, [a, int(t["b"])], **kw)
    elif shape == "all":            # factors f(a + k) for k >= 0 and f1(a1 + k) for k < 0
        f1 = mk_cprd(mp, t["prd1"]); a1 = int(t["a1"])
        v = mp.nprod(lambda k: f(a + k) if k >= 0 else f1(a1 + k), [-mp.inf, mp.inf], **kw)
    else:
        raise ValueError(shape)
    return {"v": enc_num(mp, v), "prec_after": mp.prec, "terms": [_sample(mp, f, a)]}


@kind("cx_limit")
def w_cx_limit(mp, t):
    mp.prec = int(t["prec"])
    d = t["lim"]
    f = mk_clim(mp, d)
    kw = {}
    if t.get("method"):
        kw["method"] = t["method"]
    if t.get("exp"):
        kw["exp"] = True
    if d["clim"] == "moebius":
        v = mp.limit(f, -mp.inf if t.get("neg") else mp.inf, **kw)
    else:
        x0 = mk_cconst(mp, d["x0"])()
        v = mp.limit(f, x0, direction=mk_cconst(mp, t["direction"])(), **kw)
    return {"v": enc_num(mp, v), "prec_after": mp.prec}


def _exact_mp(mp, z):
    """exactly representable Gaussian dyadic -> mpf / mpc (no rounding: the caller chooses dyadics that fit)"""
    z = GQ.of(z)
    re = CO.mk_point(mp, rtok(z.re))
    if z.im == 0:
        return re
    return mp.mpc(re, CO.mk_point(mp, rtok(z.im)))


@kind("cx_richardson")
def w_cx_richardson(mp, t):
    mp.prec = int(t["prec"])
    seq = [_exact_mp(mp, z) for z in t["seq"]]
    v, c = mp.richardson(seq)
    return {"v": enc_num(mp, v), "c": enc_num(mp, c), "prec_after": mp.prec}


def _terms(mp, t):
    """the first N terms a_0.. of the series (index shifted to start at t['a']) at the current precision"""
    f = mk_cser(mp, t["ser"]); a = int(t.get("a", 0))
    return [f(mp.mpf(a + i)) for i in range(int(t["N"]))], f, a


@kind("cx_shanks")
def w_cx_shanks(mp, t):
    """mp.shanks on A + sum_j a_j q_j^k, k = 0..N-1 (evaluated at the working precision)"""
    mp.prec = int(t["prec"])
    A = mk_cconst(mp, t["A"])()
    parts = [(mk_cconst(mp, a_)(), mk_cconst(mp, q_)()) for a_, q_ in t["parts"]]
    seq = []
    for k in range(int(t["N"])):
        s = A
        for a_, q_ in parts:
            s = s + a_ * q_ ** k
        seq.append(s)
    if t.get("extend"):        # table built in two calls (documented in-place extension)
        n1 = int(t["extend"])
        tab = mp.shanks(seq[:n1])
        tab = mp.shanks(seq, tab)
    else:
        tab = mp.shanks(seq)
    col = 2 * len(parts) - 1
    rows = [i for i in range(len(tab)) if len(tab[i]) > col]
    out = {"nrows": len(tab), "prec_after": mp.prec, "col": col}
    out["first"] = enc_num(mp, tab[rows[0]][col]) if rows else None
    out["last_in_col"] = enc_num(mp, tab[rows[-1]][col]) if rows else None
    out["last"] = enc_num(mp, tab[-1][-1]) if tab else None
    out["lastlen"] = len(tab[-1]) if tab else 0
    return out


@kind("cx_levin")
def w_cx_levin(mp, t):
    mp.prec = int(t["prec"])
    terms, f, a = _terms(mp, t)
    L = mp.levin(method=t["lmethod"], variant=t["variant"])
    api = t["api"]
    if api == "update":
        v, e = L.update(terms)
    elif api == "update2":      # two calls with a growing list (the documented incremental use)
        L.update(terms[:max(2, len(terms) // 2)])
        v, e = L.update(terms)
    elif api == "step":
        for x in terms:
            v, e = L.step(x)
    else:
        ps = []; s = mp.zero
        for x in terms:
            s = s + x
            ps.append(s)
        if api == "update_psum":
            v, e = L.update_psum(ps)
        elif api == "update_psum2":
            L.update_psum(ps[:max(2, len(ps) // 2)])
            v, e = L.update_psum(ps)
        elif api == "step_psum":
            for x in ps:
                v, e = L.step_psum(x)
        else:
            raise ValueError(api)
    return {"v": enc_num(mp, v), "e": enc_num(mp, e), "prec_after": mp.prec, "terms": [_sample(mp, f, a)]}


@kind("cx_cohen")
def w_cx_cohen(mp, t):
    mp.prec = int(t["prec"])
    terms, f, a = _terms(mp, t)
    C = mp.cohen_alt()
    if t["api"] == "update":
        v, e = C.update(terms)
    else:
        ps = []; s = mp.zero
        for x in terms:
            s = s + x
            ps.append(s)
        v, e = C.update_psum(ps)
    return {"v": enc_num(mp, v), "e": enc_num(mp, e), "prec_after": mp.prec, "terms": [_sample(mp, f, a)]}


# ----------------------------------------------------------------------------------------------------------------------
# parent side: exact verdicts
# ----------------------------------------------------------------------------------------------------------------------

def dec_num(v):
    """enc_num dict -> GQ, or None when not finite"""
    if not isinstance(v, dict) or not is_dy(v.get("re")):
        return None
    if "im" in v:
        if not is_dy(v["im"]):
            return None
        return GQ(dy_fraction(v["re"]), dy_fraction(v["im"]))
    return GQ(dy_fraction(v["re"]), 0)


def within(y, S, prec, k=10, scale=None):
    """|y - S| <= 2^(k - prec) * |scale or S|, decided exactly"""
    d2 = (y - S).abs2()
    s2 = GQ.of(scale if scale is not None else S).abs2()
    e = 2 * (prec - k)
    return d2 * (Fraction(4) ** (prec - k)) <= s2 if e >= 0 else d2 <= s2 * (Fraction(4) ** (k - prec))


def lost_bits(y, S, prec):
    """float estimate of log2(|y - S| / |S|) + prec (for the report only)"""
    import math
    d2 = (y - S).abs2(); s2 = S.abs2()
    if d2 == 0:
        return None
    q = d2 / s2
    return round(0.5 * (math.log2(q.numerator) - math.log2(q.denominator)) + prec, 1)


def terms_ok(d, start, enc_terms, exact=term_exact):
    """transcription cross-check: mpmath summand at 300 bits vs the exact term"""
    for j, tv in enumerate(enc_terms):
        y = dec_num(tv)
        if y is None:
            return False
        q = exact(d, start + j)
        if not within(y, q, 300, 20):
            return False
    return True


# Chebyshev polynomial values, exact

def cheb_T(n, z):
    z = GQ.of(z)
    t0, t1 = GQ(1), z
    if n == 0:
        return t0
    for _ in range(n - 1):
        t0, t1 = t1, 2 * z * t1 - t0
    return t1


def cvz_exact(w, q, n):
    """exact value of the Cohen-Villegas-Zagier approximant with n terms for sum_k w (-q)^k:
       w (d_n - T_n(1 - 2 q)) / (d_n (1 + q)),  d_n = T_n(3) = ((3+sqrt 8)^n + (3-sqrt 8)^n)/2"""
    q = GQ.of(q)
    dn = cheb_T(n, GQ(3))
    return GQ.of(w) * (dn - cheb_T(n, 1 - 2 * q)) / (dn * (1 + q))


# ----------------------------------------------------------------------------------------------------------------------
# generators (all randomness from the generator passed in)
# ----------------------------------------------------------------------------------------------------------------------

PRECS = [30, 53, 53, 64, 100, 150, 200, 300]
DY = [Fraction(n, d) for d in (1, 2, 4, 8) for n in range(1, 8 * d + 1) if Fraction(n, d).denominator == d]   # (0, 8]
CRATIOS = [(Fraction(a, 8), Fraction(b, 8)) for a in range(-6, 7) for b in range(-6, 7)
           if b != 0 and Fraction(1, 16) <= Fraction(a * a + b * b, 64) <= Fraction(9, 16)]      # 1/4 <= |r| <= 3/4, non-real
CWEIGHTS = [(1, 0), (1, 0), (1, 1), (2, -3), (0, 1), (-1, Fraction(1, 2)), (Fraction(5, 2), 0), (Fraction(1, 3), Fraction(-2, 3))]


def gen_shift(r, a, real=False, cone=None):
    """shift c with Re(c) + a >= 1/4 (no pole of the summand on the summation range); cone = bound on |Im c| / (Re c + a)"""
    for _ in range(1000):
        x = Fraction(r.randint(1, 48), r.choice([1, 2, 4, 8, 8])) - a
        if x + a > 8:
            continue
        if real:
            return GQ(x, 0)
        y = r.choice(DY) * r.choice([1, -1])
        if r.random() < 0.15:
            y = Fraction(r.randint(1, 40), 3 * r.choice([1, 2, 5])) * r.choice([1, -1])     # non-dyadic
        if cone is not None and abs(y) > cone * (x + a):
            continue
        return GQ(x, y)
    raise RuntimeError("gen_shift")


def gen_shift_below(r, a1, regular, real_ok=True):
    """shift for a summand / factor used on the DESCENDING indices j < a1.
    regular: every denominator j + c1 + (0..2) has real part <= -1/4 on the range (Re c1 <= -a1 - 5/4);
    otherwise Re c1 + a1 >= 1/2: a denominator passes the imaginary axis inside the range (near-pole at distance |Im c1|, or a
    fractional real part when c1 is real): pre-asymptotic bump in the terms"""
    for _ in range(1000):
        x = Fraction(r.randint(0, 48), r.choice([1, 2, 4, 8, 8]))
        if x > 7:
            continue
        y = r.choice(DY) * r.choice([1, -1])
        if real_ok and r.random() < 0.25:
            y = Fraction(0)
            x = x - (x - x.numerator // x.denominator) + Fraction(r.choice([1, 3, 5, 7]), 8)     # fractional part in {1/8, .., 7/8}
        if regular:
            return GQ(-a1 - Fraction(5, 4) - x, y)
        if y != 0 and abs(y) < Fraction(1, 2):
            continue
        return GQ(-a1 + Fraction(1, 2) + x, y)
    raise RuntimeError("gen_shift_below")


def near_pole_below(c1, a1):
    """the lower-half summand (indices j < a1) has a denominator whose real part changes sign inside the range"""
    return GQ.of(c1).re + int(a1) > 0


def gen_weight(r):
    return GQ.of(r.choice(CWEIGHTS))


def gen_ratio(r, small=False):
    for _ in range(1000):
        q = GQ.of(r.choice(CRATIOS))
        if r.random() < 0.15:
            q = GQ(Fraction(r.randint(-7, 7), 10), Fraction(r.choice([-6, -4, -3, -1, 1, 2, 3, 5]), 10))   # non-dyadic
        if not Fraction(1, 16) <= q.abs2() <= Fraction(9, 16):
            continue
        if small and q.abs2() > Fraction(4, 9):
            continue
        return q
    raise RuntimeError("gen_ratio")


def gen_cser(r, cls, a, small=False, sumap=False):
    """member of the class with start index a; 'real' members (value real, optionally carried by a complex type) are
    generated for ctele so that the two branches of sumap / the real paths of nsum see the same family"""
    if cls == "ctele":
        real = r.random() < (0.3 if sumap else 0.12)
        c = gen_shift(r, a, real=real, cone=2 if sumap else None)
        w = GQ(1) if (real or r.random() < 0.5) else gen_weight(r)
        d = {"cser": "ctele", "c": c.tok(), "w": w.tok(), "m": r.choice([2, 2, 3])}
        if real and r.random() < 0.5:
            d["typed"] = 1
        return d
    if cls == "calt":
        c = gen_shift(r, a)
        return {"cser": "calt", "c": c.tok(), "w": (GQ(1) if r.random() < 0.5 else gen_weight(r)).tok()}
    if cls in ("cgeom", "cpgeom"):
        k = r.random()
        if k < 0.7:
            q = gen_ratio(r, small)
        elif k < 0.85:       # real negative ratio with a non-real weight
            q = GQ(-r.choice([Fraction(1, 4), Fraction(1, 2), Fraction(2, 3), Fraction(3, 4), Fraction(3, 8)]), 0)
        else:                # real positive ratio with a non-real weight
            q = GQ(r.choice([Fraction(1, 4), Fraction(1, 2), Fraction(2, 3), Fraction(3, 4), Fraction(3, 8)]), 0)
        if small and q.abs2() > Fraction(4, 9):
            q = q * Fraction(1, 2)
        w = gen_weight(r)
        if q.im == 0 and w.im == 0:
            w = GQ(w.re, 1)
        if cls == "cgeom":
            return {"cser": "cgeom", "w": w.tok(), "r": q.tok()}
        while True:
            w1 = gen_weight(r)
            z = -w / w1             # no term may vanish ("all a_k must be non-zero" for the Levin-type transforms)
            if not (z.im == 0 and z.re.denominator == 1):
                return {"cser": "cpgeom", "w0": w.tok(), "w1": w1.tok(), "r": q.tok()}
    raise ValueError(cls)


def methods_for(d):
    """acceleration methods requested on a class: the same applicability table as for the real classes in props/C27.py, plus
    'sidi' (documented for alternating series; it is a Levin-type transform) where levin is requested"""
    c = cser_class(d)
    ms = {"pser": [None, None, "richardson", "levin", "euler-maclaurin", "r+s+e", "r+l"],
          "calt": [None, None, "shanks", "levin", "alternating", "richardson", "r+s", "sidi"],
          "geoc": [None, None, "shanks", "levin", "r+s", "s+l", "sidi"],
          "geo-": [None, None, "shanks", "levin", "alternating", "r+s", "a+s", "sidi"],
          "geo+": [None, None, "shanks", "levin", "r+s", "s+l"]}[c]
    q = cser_ratio(d)
    if q is not None and q <= 0.5:
        ms = ms + ["direct"]
    return ms


def well_conditioned(d, a, b=None, S=None, bound=64.0):
    """float estimate of sum|t| / |S| (generator-side admission only)"""
    S = S if S is not None else sum_exact(d, a, b)
    s = fabs(S)
    if s == 0:
        return False
    hi = (b if b is not None else a + 400)
    A = 0.0
    for k in range(a, hi + 1):
        A += fabs(term_exact(d, k)) if k < a + 40 else 0.0
    if b is None and d["cser"] in ("ctele", "calt"):
        A += 4.0 / max(1, a + 40)           # crude tail bound (only ctele needs it; calt is conditionally convergent)
    if d["cser"] == "calt":
        return 2.0 ** -6 <= s <= 2.0 ** 6    # conditionally convergent: admitted on the size of the sum alone
    return A <= bound * s and 2.0 ** -8 <= s <= 2.0 ** 8


# ----------------------------------------------------------------------------------------------------------------------
# cases
# ----------------------------------------------------------------------------------------------------------------------

def _mk_judge(prec, S, checks, site_refine=None):
    """checks(res) -> list of problems found before the accuracy verdict (transcription -> 'undecided')"""
    def judge(res, ans):
        pre = checks(res) if checks else None
        if pre == "transcription":
            return "undecided", "transcription mismatch"
        bad = []
        if res.get("prec_after") != prec:
            bad.append("working precision not restored (%s)" % res.get("prec_after"))
        y = dec_num(res.get("v"))
        if y is None:
            bad.append("non-finite result %s" % json.dumps(res.get("v")))
        elif not within(y, S, prec, 10):
            bad.append("relative error 2^(%s-p) exceeds 2^(10-p); exact value %s + %si" % (lost_bits(y, S, prec), S.re, S.im))
        if pre:
            bad.extend(pre)
        if bad:
            site = site_refine(res, y) if (site_refine and y is not None) else None
            return ("violates", "; ".join(bad), site) if site else ("violates", "; ".join(bad))
        return "ok", None
    return judge


def case_cx_nsum(r, st, quick):
    shape = r.choices(["toinf", "fromneginf", "all", "finite", "fin_inf", "inf_inf", "variant"],
                      weights=[40, 10, 10, 12, 9, 5, 14])[0]
    prec = r.choice(PRECS)
    t = {"kind": "cx_nsum", "shape": shape if shape != "variant" else "toinf", "prec": prec, "timeout": 20 if quick else 120}
    classes = ["ctele", "ctele", "cgeom", "cgeom", "cpgeom", "calt"]
    for _ in range(200):
        if shape in ("toinf", "fromneginf", "variant"):
            cls = r.choice(classes)
            a = r.choice([0, 0, 1, 1, 2, 3, -2]) if cls in ("cgeom", "cpgeom") else r.choice([0, 1, 1, 2, 5, 12, -3, -7])
            d = gen_cser(r, cls, a)
            if not well_conditioned(d, a):
                continue
            t["sers"] = [d]; t["a"] = a
            if shape == "variant":          # the Levin-type transforms with every remainder-estimate variant
                t["method"] = r.choice(["levin", "levin", "sidi"] if cser_class(d) != "pser" else ["levin"])
                t["levin_variant"] = r.choice(["u", "t", "v", "all"])
                if cser_class(d) == "pser" and t["levin_variant"] == "t":
                    t["levin_variant"] = "v"       # the t variant is not meant for logarithmic convergence
            else:
                t["method"] = r.choice(methods_for(d))
            if shape == "fromneginf":
                t["b"] = r.choice([0, -1, 4, -7])
            else:
                t["shift"] = r.choice([0, 0, 1, -3, 7, -a - 2])
            S = sum_exact(d, a)
            break
        if shape == "all" and r.random() < 0.4:
            # descending lower half: sum_{j<a1} term1(j) = -U1(a1)  (U1 -> 0 at -inf for the rational classes)
            cls = r.choice(["ctele", "ctele", "calt"])
            a, a1 = r.choice([0, 1, 2]), r.choice([0, 1, 3, -2])
            d0 = gen_cser(r, cls, a)
            regular = r.random() < 0.7
            d1 = dict(gen_cser(r, cls, 0))
            d1.pop("typed", None)
            d1["c"] = gen_shift_below(r, a1, regular).tok()
            S0, S1 = sum_exact(d0, a), -U_exact(d1, a1)
            S = S0 + S1
            A1 = sum(fabs(term_exact(d1, j)) for j in range(a1 - 40, a1))
            if not well_conditioned(d0, a) or fabs(S1) == 0 or (cls == "ctele" and A1 > 64 * fabs(S1)):
                continue
            if fabs(S) < 0.25 * (fabs(S0) + fabs(S1)) or not 2.0 ** -6 <= fabs(S) <= 2.0 ** 6:
                continue
            t["sers"] = [d0, d1]; t["a"], t["a1"] = a, a1; t["desc"] = 1
            t["lower_half"] = "near-pole-inside-range" if near_pole_below(d1["c"], a1) else "regular"
            t["method"] = r.choice(methods_for(d0))
            break
        if shape == "all":
            cls = r.choice(classes)
            a, a1 = r.choice([0, 1, 2]), r.choice([0, 1, 3])
            d0, d1 = gen_cser(r, cls, a), gen_cser(r, cls, a1)
            if cser_class(d0) != cser_class(d1) or not (well_conditioned(d0, a) and well_conditioned(d1, a1)):
                continue
            S = sum_exact(d0, a) + sum_exact(d1, a1)
            if fabs(S) < 0.25 * (fabs(sum_exact(d0, a)) + fabs(sum_exact(d1, a1))):
                continue
            t["sers"] = [d0, d1]; t["a"], t["a1"] = a, a1
            t["method"] = r.choice([m for m in methods_for(d0) if m in methods_for(d1)])
            break
        if shape == "finite":
            cls = r.choice(classes)
            a = r.choice([0, 1, 2, -3, 9])
            b = a + r.choice([0, 1, 5, 20, 60, -1, -3])
            d = gen_cser(r, cls, a)
            t["sers"] = [d]; t["a"], t["b"] = a, b
            t["method"] = r.choice([None, None, "direct", "richardson", "levin"])
            if b < a:
                S = GQ(0)
                break
            S = sum_exact(d, a, b)
            if not well_conditioned(d, a, b, S):
                continue
            break
        if shape == "fin_inf":
            a = r.choice([0, 1, 2]); b = a + r.choice([0, 2, 6]); a1 = r.choice([0, 1, 2])
            d0 = gen_cser(r, r.choice(["cgeom", "ctele", "cpgeom"]), a, small=True)
            d1 = gen_cser(r, r.choice(["cgeom", "cgeom", "ctele", "cpgeom"]), a1, small=True)
            S0, S1 = sum_exact(d0, a, b), sum_exact(d1, a1)
            if not (well_conditioned(d0, a, b, S0) and well_conditioned(d1, a1)):
                continue
            t["sers"] = [d0, d1]; t.update(a=a, b=b, a1=a1, swap=r.random() < 0.4)
            t["method"] = r.choice(methods_for(d1))
            S = S0 * S1
            break
        if shape == "inf_inf":
            a, a1 = r.choice([0, 1]), r.choice([0, 1, 2])
            d0 = gen_cser(r, r.choice(["cgeom", "cpgeom"]), a, small=True)
            d1 = gen_cser(r, "cgeom", a1, small=True)
            if not (well_conditioned(d0, a) and well_conditioned(d1, a1)):
                continue
            t["sers"] = [d0, d1]; t.update(a=a, a1=a1); t["method"] = None
            t["prec"] = prec = r.choice([30, 53, 64, 100])
            S = sum_exact(d0, a) * sum_exact(d1, a1)
            break
    else:
        raise RuntimeError("case_cx_nsum: no admissible case")
    sers = t["sers"]
    st.note("cx_nsum_shape", shape); st.note("cx_method", (t.get("method") or "default") + ("/" + t["levin_variant"] if t.get("levin_variant") else ""))
    st.note("cx_prec", prec)
    for d in sers:
        st.note("cx_series", d["cser"]); st.note("cx_class", cser_class(d))
        st.note("cx_valued", "complex" if cser_is_complex(d) else "real")
    starts = [t["a"]] + ([t["a1"] - (4 if t.get("desc") else 0)] if len(sers) > 1 else [])
    empty = shape == "finite" and t["b"] < t["a"]
    if t.get("desc"):
        st.note("cx_all_lower_half", t["lower_half"])

    def checks(res):
        for d, s, tv in zip(sers, starts, res["terms"]):
            if not terms_ok(d, s, tv):
                st.note("transcription_mismatch", json.dumps(d))
                return "transcription"
        return []

    def refine(res, y):
        if prec < 40:
            return "calculus.extrapolation.nsum[prec<40]"
        return None

    if empty:
        def judge(res, ans):
            v = res["v"]
            if v.get("re") == [0, 0] and ("im" not in v or v["im"] == [0, 0]):
                return "ok", None
            return "violates", "empty range b < a must give exactly 0, got %s" % json.dumps(v)
    else:
        judge = _mk_judge(prec, S, checks, refine)
    return {"task": t, "site": "calculus.extrapolation.nsum[complex,%s]" % shape, "lines": lambda res: {}, "judge": judge,
            "nontrivial": True, "report_timeout": False}


def case_cx_sumap(r, st, quick):
    """sumap: (i) analytic rational summands with real / real-but-complex-typed / non-real shift and varied start index (both
    branches of the second Abel-Plana integrand), (ii) geometric-type summands with the first integral supplied (`integral=`:
    real, real carried by a complex type, complex), (iii) error=True"""
    prec = r.choice(PRECS)
    mode = r.choices(["rational", "integral"], weights=[65, 35])[0]
    t = {"kind": "cx_nsum", "shape": "sumap", "prec": prec, "timeout": 20 if quick else 120}
    for _ in range(200):
        if mode == "rational":
            a = r.choice([0, 1, 1, 2, 5, 12, -2, -3])
            d = gen_cser(r, "ctele", a, sumap=True)
        else:
            a = r.choice([0, 0, 1, 2, 4, -2])
            d = gen_cser(r, r.choice(["cgeom", "cgeom", "cpgeom"]), a)
            if r.random() < 0.3:        # real summand: the real-type branch with `integral=`, or complex-typed real integral
                q = GQ(r.choice([Fraction(1, 4), Fraction(1, 2), Fraction(2, 3), Fraction(3, 4), Fraction(1, 8)]), 0)
                d = {"cser": "cgeom", "w": GQ(r.choice([1, 3, -2]), 0).tok(), "r": q.tok()}
                t["integral"] = r.choice(["yes", "typed"])
            else:
                t["integral"] = "yes"
        if well_conditioned(d, a):
            break
    else:
        raise RuntimeError("case_cx_sumap")
    t["sers"] = [d]; t["a"] = a
    if r.random() < 0.25:
        t["error"] = 1
    S = sum_exact(d, a)
    st.note("cx_sumap", "%s/%s%s" % (d["cser"], "complex" if cser_is_complex(d) else "real",
                                     "/integral=" + t["integral"] if t.get("integral") else ""))
    st.note("cx_sumap_start", a); st.note("cx_prec", prec)

    def checks(res):
        if not terms_ok(d, a, res["terms"][0]):
            st.note("transcription_mismatch", json.dumps(d))
            return "transcription"
        if t.get("error"):
            e = dec_num(res.get("err"))
            if e is None or e.im != 0 or e.re < 0:
                return ["error estimate is not a finite non-negative real: %s" % json.dumps(res.get("err"))]
        return []

    site = "calculus.extrapolation.sumap[%s]" % ("integral=" if t.get("integral") else ("complex" if cser_is_complex(d) else "real"))
    return {"task": t, "site": site, "lines": lambda res: {}, "judge": _mk_judge(prec, S, checks), "nontrivial": True,
            "report_timeout": False}


def case_cx_sumem(r, st, quick):
    prec = r.choice(PRECS)
    a = max(20, prec // 2) + r.choice([0, 1, 5])
    d = gen_cser(r, "ctele", 0)
    d["c"] = gen_shift(r, 0).tok()
    t = {"kind": "cx_nsum", "shape": "sumem", "prec": prec, "timeout": 20 if quick else 120, "sers": [d], "a": a}
    S = sum_exact(d, a)
    st.note("cx_sumem", d["m"]); st.note("cx_prec", prec)

    def judge(res, ans):
        if not terms_ok(d, a, res["terms"][0]):
            st.note("transcription_mismatch", json.dumps(d))
            return "undecided", "transcription mismatch"
        y = dec_num(res.get("v"))
        if res.get("prec_after") != prec:
            return "violates", "working precision not restored (%s)" % res.get("prec_after")
        if y is None:
            return "violates", "non-finite result %s" % json.dumps(res.get("v"))
        if within(y, S, prec, 10):
            return "ok", None
        w = "relative error 2^(%s-p) exceeds 2^(10-p)" % lost_bits(y, S, prec)
        # same graded sites as for the real p-series tails (known findings F-C27-SUMEM, F-C27-SUMEM2)
        if within(y, S, prec, 13):
            return "violates", w + " (but within 2^(13-p))", "calculus.extrapolation.sumem[within 2^(13-p)]"
        if within(y, S, prec, 16):
            return "violates", w + " (but within 2^(16-p))", "calculus.extrapolation.sumem"
        return "violates", w + " (and exceeds 2^(16-p))", "calculus.extrapolation.sumem[beyond 2^(16-p)]"

    return {"task": t, "site": "calculus.extrapolation.sumem[complex]", "lines": lambda res: {}, "judge": judge,
            "nontrivial": True, "report_timeout": False}


def case_cx_nprod(r, st, quick):
    shape = r.choices(["toinf", "fromneginf", "finite", "all"], weights=[42, 18, 25, 15])[0]
    prec = r.choice(PRECS)
    a = r.choice([1, 2, 2, 3, 6, -2])
    t = {"kind": "cx_nprod", "shape": shape, "prec": prec, "timeout": 20 if quick else 120, "a": a}
    for _ in range(200):
        c = gen_shift(r, a - 1)        # k + c - 1 stays away from 0 on the range
        if c.im == 0 and (shape != "all" or r.random() < 0.5):
            continue
        if shape == "all":
            # prod_{k>=0} f(a+k) * prod_{k<0} f1(a1+k) = V(a) / V1(a1)   (V -> 1 at both ends); the factors of the lower half
            # have no zero / pole at an integer: c1 non-real, or real with a fractional part
            a1 = r.choice([0, 1, -2, 4])
            c1 = gen_shift_below(r, a1, r.random() < 0.7)
            d = {"cprd": r.choice(["ctele1", "ctele2"]), "c": c.tok()}
            d1 = {"cprd": r.choice(["ctele1", "ctele2"]), "c": c1.tok()}
            t["prd1"] = d1; t["a1"] = a1
            t["lower_half"] = "near-pole-inside-range" if near_pole_below(c1, a1) else "regular"
            t["method"] = r.choice([None, None, "richardson", "levin", "r+s"])
            S = prod_exact(d, a) / prod_exact(d1, a1)
        elif shape == "finite":
            b = a + r.choice([0, 1, 7, 30])
            k = r.choice(["ctele1", "ctele2", "cratio"])
            d = {"cprd": k, "c": c.tok()}
            if k == "cratio":
                d["e"] = gen_shift(r, a).tok()
            t["b"] = b
            S = prod_exact(d, a, b)
        else:
            d = {"cprd": r.choice(["ctele1", "ctele2"]), "c": c.tok()}
            t["method"] = r.choice([None, None, "richardson", "levin", "r+s"])
            t["nsum"] = r.random() < 0.25
            if shape == "toinf":
                t["shift"] = r.choice([0, 0, 2, -5])
            else:
                t["b"] = r.choice([0, -1, 3, -4])
            S = prod_exact(d, a)
        if 2.0 ** -6 <= fabs(S) <= 2.0 ** 6:
            break
    else:
        raise RuntimeError("case_cx_nprod")
    t["prd"] = d
    st.note("cx_nprod_shape", shape); st.note("cx_product", d["cprd"]); st.note("cx_prec", prec)
    if shape == "all":
        st.note("cx_all_lower_half", t["lower_half"])

    def checks(res):
        if not terms_ok(d, a, res["terms"][0], factor_exact):
            st.note("transcription_mismatch", json.dumps(d))
            return "transcription"
        return []

    def refine(res, y):
        return "calculus.extrapolation.nsum[prec<40]" if prec < 40 and shape != "finite" else None

    return {"task": t, "site": "calculus.extrapolation.nprod[complex,%s]" % shape, "lines": lambda res: {},
            "judge": _mk_judge(prec, S, checks, refine), "nontrivial": True, "report_timeout": False}


def _gq_small(r, nonzero=False):
    while True:
        z = GQ(Fraction(r.randint(-9, 9), r.choice([1, 2, 4])), Fraction(r.randint(-9, 9), r.choice([1, 2, 4])))
        if z or not nonzero:
            return z


def case_cx_limit(r, st, quick):
    prec = r.choice(PRECS)
    k = r.choice(["moebius", "dquot", "dquot_dir"])
    t = {"kind": "cx_limit", "prec": prec, "timeout": 20 if quick else 120,
         "method": r.choice([None, None, None, "richardson", "levin", "r+s"])}
    for _ in range(200):
        if k == "moebius":
            A, B, C, D = _gq_small(r, True), _gq_small(r), _gq_small(r, True), _gq_small(r)
            t["neg"] = r.random() < 0.35           # x -> -inf: sampled points -1, -2, -3, ...
            # the pole -D/C must stay away from the sampled points x = +-1, +-2, +-3, ... (and 2^k with exp=True)
            p = -D / C
            if abs(p.im) < Fraction(1, 4) and (-p.re if t["neg"] else p.re) > Fraction(1, 2):
                continue
            if A * D == B * C:
                continue
            d = {"clim": k, "A": A.tok(), "B": B.tok(), "C": C.tok(), "D": D.tok()}
            t["exp"] = r.random() < 0.3
        else:
            deg = r.randint(2, 5)
            P = [_gq_small(r) for _ in range(deg)] + [_gq_small(r, True)]
            d = {"clim": k, "P": [z.tok() for z in P], "x0": _gq_small(r).tok()}
            if k == "dquot":
                t["direction"] = r.choice([GQ(1), GQ(-1), GQ(0, 1), GQ(0, -1), GQ(1, 1), GQ(Fraction(1, 2), -2)]).tok()
            else:                  # directions of rational modulus
                # mostly |dir| <= 5/2; a few large steps (|dir| = 5, 13: the samples x0 + dir/n start far outside the
                # asymptotic regime of the polynomial)
                dr, ab = r.choice([(GQ(1), 1), (GQ(-1), 1), (GQ(0, 1), 1), (GQ(0, -1), 1), (GQ(Fraction(3, 5), Fraction(4, 5)), 1),
                                   (GQ(Fraction(-4, 5), Fraction(3, 5)), 1), (GQ(Fraction(-5, 13), Fraction(-12, 13)), 1),
                                   (GQ(Fraction(3, 2), -2), Fraction(5, 2)), (GQ(Fraction(-3, 8), Fraction(1, 2)), Fraction(5, 8)),
                                   (GQ(Fraction(3, 2), -2), Fraction(5, 2)), (GQ(3, 4), 5), (GQ(-5, -12), 13)])
                t["direction"] = dr.tok(); d["dir"] = dr.tok(); d["absdir"] = rtok(Fraction(ab))
        S = lim_exact(d)
        if 2.0 ** -6 <= fabs(S) <= 2.0 ** 8:
            if k != "moebius":    # conditioning of P'(x0): sum |n c_n x0^(n-1)| <= 2^5 |P'(x0)|
                x0 = GQ.of(d["x0"])
                A_ = sum(n * fabs(GQ.of(cf)) * fabs(x0) ** (n - 1) for n, cf in enumerate(d["P"]) if n >= 1)
                if A_ > 32 * fabs(S):
                    continue
            break
    else:
        raise RuntimeError("case_cx_limit")
    t["lim"] = d
    st.note("cx_limit", k + ("/-inf" if t.get("neg") else "")); st.note("cx_prec", prec)

    def refine(res, y):
        return "calculus.extrapolation.nsum[prec<40]" if prec < 40 else None

    return {"task": t, "site": "calculus.extrapolation.limit[complex,%s]" % k, "lines": lambda res: {},
            "judge": _mk_judge(prec, S, None, refine), "nontrivial": True, "report_timeout": False}


def case_cx_richardson(r, st, quick):
    """mp.richardson on complex sequences, against the exact rational Lean model of the same code (lean/MpModel/CalcLogicA.lean).
    The code drops every second element when sign(seq[-1]-seq[-2]) != sign(seq[-2]-seq[-3]); for complex elements sign is z/|z|:
      parallel  seq = A + B x_k, x_k real, B in {1, -1, i, -i}: the differences are real / purely imaginary, the signs are exact and
                the decision is the one for x_k; the weights sum to 1, so the value is A + B * model(x), maxc = model's maxc;
      generic   strictly monotone real and imaginary parts whose last two differences are not parallel: the rule always fires; the
                value is the model applied to the parts of seq[::2] (which the model does not thin out again, being monotone), or
                seq[0] with maxc 1 when fewer than 3 elements are left (N = 0 in the code)."""
    prec = r.choice([100, 150, 200, 300])
    n = r.randint(3, 14)
    mode = r.choice(["parallel", "generic", "generic"])
    A = GQ(Fraction(r.randint(-64, 64), 8), Fraction(r.randint(-64, 64), 8))
    if mode == "parallel":
        kind_ = r.choice(["rational", "alternating", "random"])
        B = r.choice([GQ(1), GQ(-1), GQ(0, 1), GQ(0, -1)])
        if A.im == 0:
            A = GQ(A.re, 1)
        xs = []
        for i in range(n):
            if kind_ == "rational":
                q = Fraction(3) + Fraction(2 ** 20 // (i + 1), 2 ** 20) + Fraction(2 ** 20 // (i + 1) ** 2, 2 ** 19)
            elif kind_ == "alternating":
                q = Fraction(1) + Fraction((-1) ** i * (2 ** 16 // (i + 1)), 2 ** 16)
            else:
                q = Fraction(r.randint(-2 ** 12, 2 ** 12), 2 ** 8)
            xs.append(q)
        seq = [A + B * x for x in xs]
        req = {"x": "richardson " + " ".join(rtok(x) for x in xs)}
        thin = None
    else:
        kind_ = "monotone"
        for _ in range(200):
            a1, a2 = r.randint(1, 9), r.randint(0, 9)
            b1, b2 = r.randint(1, 9), r.randint(0, 9)
            sr, si = r.choice([1, -1]), r.choice([1, -1])
            seq = [GQ(A.re + sr * (Fraction(a1 * 2 ** 20 // (i + 1), 2 ** 20) + Fraction(a2 * 2 ** 20 // (i + 1) ** 2, 2 ** 20)),
                      A.im + si * (Fraction(b1 * 2 ** 20 // (i + 2), 2 ** 20) + Fraction(b2 * 2 ** 20 // (i + 1) ** 3, 2 ** 20)))
                   for i in range(n)]
            d1, d2 = seq[-1] - seq[-2], seq[-2] - seq[-3]
            cross = d1.re * d2.im - d1.im * d2.re
            mono = all((seq[i + 1].re - seq[i].re) * sr < 0 and (seq[i + 1].im - seq[i].im) * si < 0 for i in range(n - 1))
            if mono and cross * cross * 2 ** 20 >= d1.abs2() * d2.abs2():
                break
        else:
            raise RuntimeError("case_cx_richardson")
        thin = seq[::2]
        req = {}
        if len(thin) >= 3:
            req = {"re": "richardson " + " ".join(rtok(z.re) for z in thin), "im": "richardson " + " ".join(rtok(z.im) for z in thin)}
    t = {"kind": "cx_richardson", "prec": prec, "seq": [z.tok() for z in seq], "timeout": 10}
    st.note("cx_richardson_seq", "%s/%s" % (mode, kind_))

    def judge(res, ans):
        v, c = dec_num(res.get("v")), dec_num(res.get("c"))
        if v is None or c is None or c.im != 0:
            return "violates", "non-finite output"
        if mode == "parallel":
            a = ans.get("x", "")
            if not a.startswith("Q:"):
                return "violates", "model raised %s but mp.richardson returned" % a
            vx, cx = [Fraction(x[2:]) for x in a.split()]
            ev, ec = A + B * vx, cx
            nn = n
        elif len(thin) < 3:
            ev, ec = thin[0], Fraction(1)
            nn = len(thin)
        else:
            a, b = ans.get("re", ""), ans.get("im", "")
            if not (a.startswith("Q:") and b.startswith("Q:")):
                return "violates", "model raised %s / %s but mp.richardson returned" % (a, b)
            vr, cr = [Fraction(x[2:]) for x in a.split()]
            vi, ci = [Fraction(x[2:]) for x in b.split()]
            if cr != ci:
                return "undecided", "model maxc differs between the parts"
            ev, ec = GQ(vr, vi), cr
            nn = len(thin)
        N = max(nn // 2 - 1, 0)
        M = max(1, max(max(abs(z.re), abs(z.im)) for z in seq))
        tol = Fraction(2) ** (12 - prec) * ec * (N + 2) * M
        if abs(v.re - ev.re) > tol or abs(v.im - ev.im) > tol or abs(c.re - ec) > Fraction(2) ** (12 - prec) * ec * (N + 2):
            return "violates", "mp.richardson on a complex sequence differs from the exact model: %s vs %s (maxc %s vs %s)" % (
                v.approx(), ev.approx(), float(c.re), float(ec))
        return "ok", None

    return {"task": t, "site": "calculus.extrapolation.richardson[complex,T1]", "lines": lambda res: req, "judge": judge,
            "nontrivial": n >= 4}


def _judge_k(prec, S, k, what, keys=("v",), pre=None):
    def judge(res, ans):
        if pre is not None:
            p = pre(res)
            if p:
                return p
        if res.get("prec_after") != prec:
            return "violates", "working precision changed (%s)" % res.get("prec_after")
        for key in keys:
            y = dec_num(res.get(key))
            if y is None:
                return "violates", "%s: no finite value (%s)" % (key, json.dumps(res.get(key)))
            if not within(y, S, prec, k):
                return "violates", "%s: %s; relative error 2^(%s-P), allowed 2^(%d-P); exact %s + %si" % (
                    key, what, lost_bits(y, S, prec), k, S.re, S.im)
        return "ok", None
    return judge


def case_cx_shanks(r, st, quick):
    """docstring: 'The Shanks transformation gives the exact limit in a single step if A_k = A + a q^k'; the 2nd iterate is exact
    on A + a q^k + b s^k.  Judged on the first and the last entry of the column that is exact on the ansatz (column 2m-1), at
    2^(14-P) (m = 1) / 2^(24-P) (m = 2: the epsilon algorithm divides by second differences of nearly geometric data; ratios are
    kept at distance >= 1/4 from each other and from 1)."""
    prec = r.choice([53, 64, 100, 150, 200, 300])
    m = r.choice([1, 1, 2])
    for _ in range(500):
        qs = []
        for _j in range(m):
            k = r.random()
            if k < 0.6:
                qs.append(gen_ratio(r))
            else:
                qs.append(GQ(r.choice([Fraction(1, 2), Fraction(-1, 2), Fraction(3, 4), Fraction(-3, 4), Fraction(1, 4), Fraction(-2, 3)]), 0))
        if m == 2 and fabs(qs[0] - qs[1]) < 0.25:
            continue
        if any(fabs(1 - q) < 0.25 for q in qs):
            continue
        break
    A = _gq_small(r, True)
    parts = [[gen_weight(r).tok(), q.tok()] for q in qs]
    N = r.choice([3, 4, 5, 6, 9, 12]) if m == 1 else r.choice([5, 6, 7, 10])
    t = {"kind": "cx_shanks", "prec": prec, "A": A.tok(), "parts": parts, "N": N, "timeout": 10}
    if r.random() < 0.3 and N >= 4:
        t["extend"] = r.randint(2, N - 1)
    st.note("cx_shanks", "m=%d%s" % (m, "/extended" if t.get("extend") else "")); st.note("cx_prec", prec)
    k = 14 if m == 1 else 24
    return {"task": t, "site": "calculus.extrapolation.shanks[exact-on-ansatz]", "lines": lambda res: {},
            "judge": _judge_k(prec, A, k, "shanks is exact on this sequence (column %d)" % (2 * m - 1), ("first", "last_in_col")),
            "nontrivial": True}


def case_cx_levin(r, st, quick):
    """The Levin-type transforms are exact on their ansatz s_n = s + w_n * sum_{j<k} c_j (n+1)^(-j) [levin] resp. Pochhammer
    [sidi] once more than k+1 terms are used.  Geometric series: remainder / w_n is constant (t, v) or c/(n+1) (u); the series
    1/((n+c)(n+c+1)): constant (v) or 1 + (c-1)/(n+1) (u).  All four interfaces must give the sum from the third term on; the
    recursion cancels about 2.3 bits per term ('one usually needs very high working precision'), so with N <= 12 terms at working
    precision P the value is judged at 2^(10 + 3N - P)."""
    prec = r.choice([53, 64, 100, 150, 200, 300])
    lm = r.choice(["levin", "levin", "sidi"])
    var = r.choice(["u", "t", "v"])
    api = r.choice(["update", "update2", "step", "update_psum", "update_psum2", "step_psum"])
    N = r.choice([3, 4, 5, 6, 8, 10, 12])
    a = r.choice([0, 0, 1, 3])
    for _ in range(500):
        fam = r.choice(["cgeom", "ctele"]) if var != "t" else "cgeom"
        if fam == "cgeom":
            d = gen_cser(r, "cgeom", a)
            if var == "u" and GQ.of(d["r"]) == Fraction(1, 2):
                continue            # w_0 = w_1: the first-order Levin-u approximant does not exist (ZeroDivisionError in step mode)
        else:
            c = gen_shift(r, a, real=r.random() < 0.2)
            if var == "u" and c + a == 2:
                continue            # same degenerate point for 1/((n+c)(n+c+1))
            d = {"cser": "ctele", "c": c.tok(), "w": gen_weight(r).tok(), "m": 2}
        if well_conditioned(d, a):
            break
    t = {"kind": "cx_levin", "prec": prec, "ser": d, "a": a, "N": N, "lmethod": lm, "variant": var, "api": api, "timeout": 10}
    S = sum_exact(d, a)
    st.note("cx_levin", "%s/%s/%s" % (lm, var, api)); st.note("cx_levin_series", d["cser"]); st.note("cx_prec", prec)

    def pre(res):
        if not terms_ok(d, a, res["terms"][0]):
            st.note("transcription_mismatch", json.dumps(d))
            return "undecided", "transcription mismatch"
        e = dec_num(res.get("e"))
        if e is None or e.im != 0 or e.re < 0:
            return "violates", "error estimate is not a finite non-negative real: %s" % json.dumps(res.get("e"))
        return None

    return {"task": t, "site": "calculus.extrapolation.levin[exact-on-ansatz]", "lines": lambda res: {},
            "judge": _judge_k(prec, S, 10 + 3 * N, "the %s %s-transform is exact on this series" % (lm, var), ("v",), pre),
            "nontrivial": True}


def case_cx_cohen(r, st, quick):
    """cohen_alt on sum_k w (-q)^k (Re q >= 0: 'alternating'), n terms: (i) the value must be the exact Cohen-Villegas-Zagier
    approximant w (d_n - T_n(1-2q)) / (d_n (1+q)) up to rounding (2^(14-P) relative), for every n; (ii) when the exact
    approximation error is below 2^(-P-4) |S|, the value must be within 2^(10-P) of the sum."""
    prec = r.choice([53, 64, 100, 150, 200, 300])
    for _ in range(500):
        k = r.random()
        if k < 0.5:
            q = GQ(r.choice([Fraction(1, 2), Fraction(1, 4), Fraction(3, 4), Fraction(9, 10), Fraction(1, 3), Fraction(1, 8)]), 0)
        else:
            q = gen_ratio(r)
            if q.re < 0:
                q = -q
        break
    w = gen_weight(r)
    d = {"cser": "cgeom", "w": w.tok(), "r": (-q).tok()}
    mode = r.choice(["few", "enough", "enough"])
    if mode == "few":
        N = r.choice([1, 2, 3, 5, 8, 13])
    else:
        N = 2
        S = sum_exact(d, 0)
        while True:
            E = cvz_exact(w, q, N) - S
            if E.abs2() * Fraction(4) ** (prec + 4) <= S.abs2():
                break
            N += 1 + N // 8
            if N > 400:
                break
    api = r.choice(["update", "update_psum"])
    t = {"kind": "cx_cohen", "prec": prec, "ser": d, "a": 0, "N": N, "api": api, "timeout": 15}
    Sn = cvz_exact(w, q, N)
    S = sum_exact(d, 0)
    enough = (Sn - S).abs2() * Fraction(4) ** (prec + 4) <= S.abs2()
    st.note("cx_cohen", "%s/%s/%s" % (api, "complex q" if q.im != 0 else "real q", "n large enough" if enough else "n small"))
    st.note("cx_prec", prec)

    def judge(res, ans):
        if not terms_ok(d, 0, res["terms"][0]):
            st.note("transcription_mismatch", json.dumps(d))
            return "undecided", "transcription mismatch"
        y = dec_num(res.get("v")); e = dec_num(res.get("e"))
        if y is None or e is None or e.im != 0 or e.re < 0:
            return "violates", "no finite value / error estimate: %s %s" % (json.dumps(res.get("v")), json.dumps(res.get("e")))
        if not within(y, Sn, prec, 14):
            return "violates", "cohen_alt with %d terms differs from the exact Cohen-Villegas-Zagier approximant by 2^(%s-P) relative (allowed 2^(14-P))" % (
                N, lost_bits(y, Sn, prec))
        if enough and not within(y, S, prec, 10):
            return "violates", "relative error 2^(%s-P) exceeds 2^(10-P) although the approximation error with %d terms is below 2^(-P-4)" % (
                lost_bits(y, S, prec), N)
        return "ok", None

    return {"task": t, "site": "calculus.extrapolation.cohen_alt[geometric]", "lines": lambda res: {}, "judge": judge, "nontrivial": True}


def gen_cases(r, st, quick):
    n = {"nsum": 110, "sumap": 56, "sumem": 12, "nprod": 30, "limit": 30, "rich": 16, "shanks": 30, "levin": 216, "cohen": 36} if quick else \
        {"nsum": 2500, "sumap": 900, "sumem": 200, "nprod": 500, "limit": 500, "rich": 200, "shanks": 400, "levin": 1200, "cohen": 500}
    cases = []
    for name, f in (("nsum", case_cx_nsum), ("sumap", case_cx_sumap), ("sumem", case_cx_sumem), ("nprod", case_cx_nprod),
                    ("limit", case_cx_limit), ("rich", case_cx_richardson), ("shanks", case_cx_shanks), ("levin", case_cx_levin),
                    ("cohen", case_cx_cohen)):
        cases += [f(r, st, quick) for _ in range(n[name])]
    return cases
