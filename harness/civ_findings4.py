"""Known-finding predicates for the failing inputs of harness/cplx_iv_pow.py (C15, powers of complex rectangles).

Importing this module registers the predicates in findings.PREDICATES.  Each is a narrow, decidable description of ONE defect
family of the unchanged /repo, evaluated on the `input` dict of a failing input (fields: fun = "cpow", prec,
args = [[base re, base im], [exponent re, exponent im]] with (lo, hi) pairs of enc_mpf strings, class, point = [x, y, u, v] as
'm*2^e' strings, component, side, excess_log2_ulp).

(The two families inherited from mpi_atan2 -- bases touching the negative real axis from below, real bases straddling 0 --
that this family exposed at first are gone since the fix of mpi_atan2 in /repo c810f7f; no predicate is kept for them.)
"""
from findings import predicate


def _is_cpow(inp):
    return inp.get("fun") == "cpow" and len(inp.get("args", [])) == 2


@predicate("civ4_cpow_within_2^-11_ulp")
def _cpow_within_11(inp):
    """either side, excess at most 2^-11 ulp: mpci_pow = mpci_exp(y * mpci_log(x)) inherits the directed-rounding defects of
    mpf_exp (IV1: round_ceiling of a truncated value), mpf_log (IV3) and mpf_atan2 (IV5, at prec+20 bits); they show when the
    final outward rounding at prec bits has nothing to round, e.g. (1 + 2^-51)^64 at 53 bits: exp(2^-45 + ...) -> 1 + 2^-45"""
    k = inp.get("excess_log2_ulp")
    return _is_cpow(inp) and inp.get("class") == "contain" and isinstance(k, int) and k <= -11
