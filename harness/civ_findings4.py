"""Known-finding predicates for the failing inputs of harness/cplx_iv_pow.py (C15, powers of complex rectangles).

Importing this module registers the predicates in findings.PREDICATES.  Each is a narrow, decidable description of ONE defect
family of the unchanged /repo, evaluated on the `input` dict of a failing input (fields: fun = "cpow", prec,
args = [[base re, base im], [exponent re, exponent im]] with (lo, hi) pairs of enc_mpf strings, class, point = [x, y, u, v] as
'm*2^e' strings, component, side, excess_log2_ulp).

Both families are inherited from mpi_atan2 (IV6 / IV7 = IV9 / IV10 for iv.log): mpci_pow evaluates exp(y * mpci_log(x)) for every
exponent that is not an integer point, and the imaginary part of mpci_log is mpi_atan2.
"""
from findings import predicate
from common import dec_mpf


def _sgn(s):
    sign, man, exp, bc = dec_mpf(s)
    if man:
        return -1 if sign else 1
    if exp == 0:
        return 0
    return None


def _is_cpow(inp):
    return inp.get("fun") == "cpow" and len(inp.get("args", [])) == 2


def _integer_point_exponent(inp):
    """the exponent is a real integer point: mpci_pow takes the mpci_pow_int route, the logarithm is not used"""
    (ua, ub), (va, vb) = inp["args"][1]
    if not (ua == ub and _sgn(va) == 0 and _sgn(vb) == 0):
        return False
    sign, man, exp, bc = dec_mpf(ua)
    return (man != 0 and exp >= 0) or (man == 0 and exp == 0)


def _pt_sign(inp, i):
    m = int(str(inp["point"][i]).split("*")[0])
    return (m > 0) - (m < 0)


@predicate("civ4_cpow_base_lower_half_plane_touching_negative_axis")
def _cpow_lower_touching(inp):
    """base [xa, xb] + [ya, 0]i with ya < 0 and xa < 0, exponent not an integer point: mpi_atan2's 'lower half-plane' branch
    returns [atan2(0, xa) = +pi, atan2(ya, xb) <= 0], lower endpoint above the upper one; the products with the exponent take
    the hull [negative, +pi], which misses the arguments in (-pi, atan2(ya, xb)) of the points of the rectangle below the axis"""
    if not (_is_cpow(inp) and inp.get("class") in ("contain", "wellformed")):
        return False
    (xa, xb), (ya, yb) = inp["args"][0]
    if not (_sgn(yb) == 0 and _sgn(ya) == -1 and _sgn(xa) == -1):
        return False
    return not _integer_point_exponent(inp)


@predicate("civ4_cpow_real_base_straddles_zero")
def _cpow_real_straddle(inp):
    """base [xa, xb] + [0, 0]i with xa < 0 <= xb (also iv.mpf([xa, xb]) ** y through the ComplexResult fallback), exponent not an
    integer point: mpi_atan2 with y = [0, 0] and xa < 0 returns the pi interval only, so the values x0**w0 of the points x0 >= 0
    (argument 0) are not covered; failing sample point with x0 >= 0"""
    if not (_is_cpow(inp) and inp.get("class") == "contain"):
        return False
    (xa, xb), (ya, yb) = inp["args"][0]
    if not (_sgn(ya) == 0 and _sgn(yb) == 0 and _sgn(xa) == -1 and _sgn(xb) in (0, 1)):
        return False
    return (not _integer_point_exponent(inp)) and _pt_sign(inp, 0) >= 0


@predicate("civ4_cpow_within_2^-11_ulp")
def _cpow_within_11(inp):
    """either side, excess at most 2^-11 ulp: mpci_pow = mpci_exp(y * mpci_log(x)) inherits the directed-rounding defects of
    mpf_exp (IV1: round_ceiling of a truncated value), mpf_log (IV3) and mpf_atan2 (IV5, at prec+20 bits); they show when the
    final outward rounding at prec bits has nothing to round, e.g. (1 + 2^-51)^64 at 53 bits: exp(2^-45 + ...) -> 1 + 2^-45"""
    k = inp.get("excess_log2_ulp")
    return _is_cpow(inp) and inp.get("class") == "contain" and isinstance(k, int) and k <= -11
