"""Known-finding predicates for the failing inputs of harness/cplx_iv_pow.py (C15, powers of complex rectangles).

Importing this module registers the predicates in findings.PREDICATES.  Each is a narrow, decidable description of ONE defect
family of the unchanged /repo, evaluated on the `input` dict of a failing input (fields: fun = "cpow", prec,
args = [[base re, base im], [exponent re, exponent im]] with (lo, hi) pairs of enc_mpf strings, class, point = [x, y, u, v] as
'm*2^e' strings, component, side, excess_log2_ulp).

(The two families inherited from mpi_atan2 -- bases touching the negative real axis from below, real bases straddling 0 --
that this family exposed at first are gone since the fix of mpi_atan2 in /repo c810f7f; no predicate is kept for them.)
"""
from findings import predicate


def _is_cpow(inp):
    return inp.get("fun") == "cpow" and len(inp.get("args", [])) == 2


@predicate("civ4_cpow_within_2^-11_ulp")
def _cpow_within_11(inp):
    """either side, excess at most 2^-11 ulp: mpci_pow = mpci_exp(y * mpci_log(x)) inherits the directed-rounding defects of
    mpf_exp (IV1: round_ceiling of a truncated value), mpf_log (IV3) and mpf_atan2 (IV5, at prec+20 bits); they show when the
    final outward rounding at prec bits has nothing to round, e.g. (1 + 2^-51)^64 at 53 bits: exp(2^-45 + ...) -> 1 + 2^-45"""
    k = inp.get("excess_log2_ulp")
    return _is_cpow(inp) and inp.get("class") == "contain" and isinstance(k, int) and k <= -11


def _q(s):
    from fractions import Fraction
    m, _, e = str(s).partition("*2^")
    return Fraction(int(m)) * Fraction(2) ** int(e or 0)


@predicate("civ4_cpow_small_component_normwise_within_2^-20_ulp")
def _cpow_small_component(inp):
    """mpci_pow = mpci_exp(y * mpci_log(x)): the angle y*arg(x) comes from mpi_atan2 at prec+20 bits, whose endpoints can be on
    the wrong side by up to 2^-3 ulp (IV5), i.e. the angle is off by up to ~2^-(prec+22)|y arg x|.  For the component of the result
    that nearly vanishes (cos or sin of the angle near a zero: Re of (-2 - i eps)^(-1/2), ...) this is many ulps OF THAT COMPONENT
    although it is below 2^-20 ulp of the modulus.  Matches: the failing component is at least 2^10 times smaller than the other
    one and the miss is at most 2^-(prec+20) times the modulus."""
    if not (_is_cpow(inp) and inp.get("class") == "contain"):
        return False
    try:
        comp = int(inp.get("component"))
        res = [[_q(a), _q(b)] for a, b in inp["result"]]
        enc = [[_q(a), _q(b)] for a, b in inp["verified_enclosure"]]
        p = int(inp["prec"])
    except Exception:  # noqa
        return False
    if comp not in (0, 1) or len(res) != 2 or len(enc) != 2:
        return False
    lo, hi = res[comp]
    elo, ehi = enc[comp]
    gap = max(elo - hi, lo - ehi)                 # distance between the returned interval and the exact value's enclosure
    if gap <= 0:
        return False
    other = max(abs(enc[1 - comp][0]), abs(enc[1 - comp][1]))
    mine = max(abs(elo), abs(ehi))
    from fractions import Fraction
    return other > 0 and mine * 1024 <= other and gap <= other * Fraction(2) ** (-(p + 20))
