"""steady-state speed of `mpdrv encl` per function (usage: encl_speed.py [wp])"""
import sys, time, random, subprocess
import os
sys.path.insert(0, os.path.dirname(os.path.abspath(__file__)))
from common import MPDRV
r = random.Random(1)
wp = int(sys.argv[1]) if len(sys.argv)>1 else 200
for f in ["exp","log","sqrt","atan","sin","cos","pi","tan","sinh","cosh","tanh","asin","acos","asinh","atanh","expm1","log1p","sinpi"]:
    lines=[]
    for i in range(3000):
        nb = wp
        m = (1<<(nb-1)) | r.getrandbits(nb-1)
        e = -nb + r.randint(-3,4)
        if f in ("asin","acos","atanh"): e = -nb - r.randint(0,3)
        if f not in ("log","sqrt","log1p") and r.random()<0.5: m=-m
        lines.append("encl %s %d %d %d"%(f,wp,m,e))
    t=time.time()
    p=subprocess.run([MPDRV],input="\n".join(lines)+"\n",capture_output=True,text=True)
    dt=time.time()-t
    print(f, "%.0f evals/s"%(len(lines)/dt))
