"""Mutation check for harness/iv_fun_ops.py: source-level mutants of directed-rounding paths in
mpmath/libmp/libmpi.py / libelefun.py, applied to a SCRATCH COPY of /repo/mpmath (never to /repo), run through
`iv_fun_ops.py <pid> <seed>` with MPMATH_REPO pointing at the copy.  A mutant is CAUGHT when the run reports failing
inputs that do not match a known finding (line `NEW-FAILURES n {...}` with n > 0).

usage: iv_fun_mutants.py [seeds, default 0,1,2] [mutant ids...]
"""
import os, sys, shutil, subprocess, json

HERE = os.path.dirname(os.path.abspath(__file__))
ROOT = os.path.join(os.path.dirname(HERE), "mut")
SRC = "/repo/mpmath"

MUTANTS = [
    # id, pid, file, old, new, description
    ("M0_finalize", "C14", "libmp/libmpi.py", "        if bool(v[0]) == (rounding == round_floor):\n",
     "        if v[0] == rounding == round_floor:\n",
     "tester's mutant: mpi_cos_sin.finalize always shrinks by 2^-(prec+10) (positive upper / negative lower bounds)"),
    ("M0_finalize_C15", "C15", "libmp/libmpi.py", "        if bool(v[0]) == (rounding == round_floor):\n",
     "        if v[0] == rounding == round_floor:\n", "the same mutant seen through mpci_exp / mpci_cos / mpci_sin"),
    ("M1_exp_floor_both", "C14", "libmp/libmpi.py", "    b = mpf_exp(sb, prec, round_ceiling)\n", "    b = mpf_exp(sb, prec, round_floor)\n",
     "mpi_exp: upper endpoint rounded down"),
    ("M2_log_swapped", "C14", "libmp/libmpi.py",
     "    a = mpf_log(sa, prec, round_floor)\n    b = mpf_log(sb, prec, round_ceiling)\n",
     "    a = mpf_log(sa, prec, round_ceiling)\n    b = mpf_log(sb, prec, round_floor)\n", "mpi_log: directions swapped"),
    ("M3_no_perturbation", "C14", "libmp/libmpi.py",
     "    more = from_man_exp((MPZ_ONE<<wp) + (MPZ_ONE<<10), -wp)\n    less = from_man_exp((MPZ_ONE<<wp) - (MPZ_ONE<<10), -wp)\n",
     "    more = fone\n    less = fone\n", "mpi_cos_sin: no outward perturbation before the directed rounding"),
    ("M4_exp_tiny_no_perturb", "C14", "libmp/libelefun.py",
     "        if mag < -wp:\n            return mpf_perturb(fone, sign, prec, rnd)\n        # |x| >= 2\n",
     "        if mag < -wp:\n            return fone\n        # |x| >= 2\n", "mpf_exp far-tail branch: exp(tiny) = 1 in every rounding mode"),
    ("M5_cos_max_missing", "C14", "libmp/libmpi.py", "        if na//4 != nb//4:\n            cb = fone\n", "        if na//4 != nb//4:\n            pass\n",
     "mpi_cos_sin: interior maximum of cos not detected"),
    ("M6_sqrt_ceiling_nearest", "C14", "libmp/libmpi.py", "    b = mpf_sqrt(sb, prec, round_ceiling)\n", "    b = mpf_sqrt(sb, prec, round_nearest)\n",
     "mpi_sqrt: upper endpoint rounded to nearest"),
    ("M7_tan_less_guard", "C14", "libmp/libmpi.py",
     "def mpi_tan(x, prec):\n    cos, sin = mpi_cos_sin(x, prec+20)\n    return mpi_div(sin, cos, prec)\n",
     "def mpi_tan(x, prec):\n    cos, sin = mpi_cos_sin(x, prec+20)\n    return mpi_div(sin, cos, prec+20)\n",
     "mpi_tan: final division not rounded to prec (more bits, still outward): NOT a containment defect, must NOT be flagged"),
    ("M8_gamma_dirs", "C14", "libmp/libmpi.py",
     "            c = mpf_gamma(a, prec, round_floor)\n            d = mpf_gamma(b, prec, round_ceiling)\n",
     "            c = mpf_gamma(a, prec, round_ceiling)\n            d = mpf_gamma(b, prec, round_floor)\n",
     "mpi_gamma increasing branch: directions swapped"),
    ("M9_pow_no_guard", "C14", "libmp/libmpi.py", "    u = mpi_log(s, prec + 20)\n    v = mpi_mul(u, t, prec + 20)\n    return mpi_exp(v, prec)\n",
     "    u = mpi_log(s, prec + 20)\n    v = mpi_mul(u, t, prec + 20)\n    v = (v[1], v[1])\n    return mpi_exp(v, prec)\n",
     "mpi_pow: lower endpoint of y*log(x) replaced by the upper one"),
    ("M10_atan2_corner", "C14", "libmp/libmpi.py",
     "        if mpf_ge(ya, fzero):\n            a = mpf_atan2(ya, xb, prec, round_floor)\n",
     "        if mpf_ge(ya, fzero):\n            a = mpf_atan2(ya, xa, prec, round_floor)\n", "mpi_atan2 right half-plane: wrong corner for the lower endpoint"),
    ("M11_cexp_sin_dir", "C15", "libmp/libmpi.py", "    b = mpi_mul(r, s, prec)\n    return a, b\n", "    b = mpi_mul(r, s)\n    b = (b[0], mpf_pos(b[1], prec, round_floor))\n    return a, b\n",
     "mpci_exp: upper endpoint of the imaginary part rounded down"),
    ("M12_cabs_nearest", "C15", "libmp/libmpi.py", "    t = mpi_add(a, b, prec+20)\n    return mpi_sqrt(t, prec)\n",
     "    t = mpi_add(a, b, prec+20)\n    return (mpf_sqrt(t[0], prec, round_floor), mpf_sqrt(t[1], prec, round_nearest))\n",
     "mpci_abs: upper endpoint rounded to nearest"),
    ("M13_ccos_cosh_guard", "C15", "libmp/libmpi.py", "    e2 = mpi_div(mpi_one, e1, wp)\n", "    e2 = mpi_div(mpi_one, (e1[0], e1[0]), wp)\n",
     "mpi_cosh_sinh: exp(-y) taken from the lower endpoint of exp(y) only"),
    ("M14_mod_pi2_quadrant", "C14", "libmp/libmpi.py", "    if sign:\n        n = -1-n\n    return c, s, n\n", "    if sign:\n        n = -n\n    return c, s, n\n",
     "cos_sin_quadrant: wrong quadrant index for negative arguments"),
]


def prepare(mid, rel, old, new):
    dst = os.path.join(ROOT, mid)
    if os.path.exists(dst):
        shutil.rmtree(dst)
    shutil.copytree(SRC, os.path.join(dst, "mpmath"), ignore=shutil.ignore_patterns("__pycache__", "*.pyc"))
    p = os.path.join(dst, "mpmath", rel)
    src = open(p).read()
    assert src.count(old) == 1, (mid, src.count(old))
    open(p, "w").write(src.replace(old, new))
    return dst


def run(mid, pid, dst, seed):
    env = dict(os.environ, MPMATH_REPO=dst, MPMATH_NOGMPY="1", IVFUN_SHOW="2")
    p = subprocess.run([sys.executable, os.path.join(HERE, "iv_fun_ops.py"), pid, str(seed)], env=env, stdout=subprocess.PIPE,
                       stderr=subprocess.STDOUT, text=True, timeout=1800)
    n, sites, first = None, {}, ""
    for line in p.stdout.split("\n"):
        if line.startswith("NEW-FAILURES"):
            t = line.split(" ", 2)
            n, sites = int(t[1]), json.loads(t[2])
        if line.startswith("  FAIL") and not first:
            first = line[:260]
    if n is None:
        return None, p.stdout[-600:], ""
    return n, sites, first


if __name__ == "__main__":
    seeds = [int(x) for x in (sys.argv[1] if len(sys.argv) > 1 else "0,1,2").split(",")]
    only = sys.argv[2:]
    for mid, pid, rel, old, new, desc in MUTANTS:
        if only and mid not in only:
            continue
        dst = prepare(mid, rel, old, new)
        row = []
        for s in seeds:
            n, sites, first = run(mid, pid, dst, s)
            row.append((s, n, sites))
        caught = all(n for _, n, _ in row)
        print("%-24s %s %-8s %s" % (mid, pid, "CAUGHT" if caught else ("partly" if any(n for _, n, _ in row) else "missed"), desc))
        for s, n, sites in row:
            print("      seed %d: new failing inputs %s  %s" % (s, n, sites if n else ""))
        shutil.rmtree(dst)
