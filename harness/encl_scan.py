"""Systematic cancellation scan for C12: every one-argument function at arguments x0 +- 2^-k around its zeros / branch
points / points of cancellation, k = 1 .. 3p+40, all five rounding modes, raw routine where one exists, else mp API.
Prints, per (function, location), the number of cases and the k-range on which the verified checker says `violates`
(relative error > 2^(4-p)).      usage: encl_scan.py [p ...]"""
import sys, os
sys.path.insert(0, os.path.dirname(os.path.abspath(__file__)))
import encl_check as EC
from encl_check import FUN1, RNDS, dy_of, is_finite_tuple
from encl_ops import acc_decide

LOC = {   # function -> list of (label, lambda k -> (m, e))
    "ln": [("1+2^-k", lambda k: ((1 << k) + 1, -k)), ("1-2^-k", lambda k: ((1 << k) - 1, -k)),
           ("(1+2^-k)/4", lambda k: ((1 << k) + 1, -k - 2)), ("(1-2^-k)/2", lambda k: ((1 << k) - 1, -k - 1)),
           ("2(1+2^-k)", lambda k: ((1 << k) + 1, -k + 1)), ("4(1-2^-k)", lambda k: ((1 << k) - 1, -k + 2))],
    "log1p": [("2^-k", lambda k: (1, -k)), ("-2^-k", lambda k: (-1, -k)), ("-1+2^-k", lambda k: (-((1 << k) - 1), -k))],
    "expm1": [("2^-k", lambda k: (1, -k)), ("-2^-k", lambda k: (-1, -k))],
    "exp": [("2^-k", lambda k: (1, -k)), ("-2^-k", lambda k: (-1, -k))],
    "sinh": [("2^-k", lambda k: (1, -k)), ("3*2^-k", lambda k: (-3, -k))],
    "tanh": [("2^-k", lambda k: (1, -k))],
    "cosh": [("2^-k", lambda k: (1, -k))],
    "asinh": [("2^-k", lambda k: (1, -k)), ("-3*2^-k", lambda k: (-3, -k)), ("2^k", lambda k: (1, k)), ("-2^k", lambda k: (-1, k))],
    "acosh": [("1+2^-k", lambda k: ((1 << k) + 1, -k)), ("1+3*2^-k", lambda k: ((1 << k) + 3, -k)), ("2^k", lambda k: (1, k))],
    "atanh": [("2^-k", lambda k: (1, -k)), ("1-2^-k", lambda k: ((1 << k) - 1, -k)), ("-1+2^-k", lambda k: (-((1 << k) - 1), -k))],
    "asin": [("2^-k", lambda k: (1, -k)), ("1-2^-k", lambda k: ((1 << k) - 1, -k)), ("-1+2^-k", lambda k: (-((1 << k) - 1), -k))],
    "acos": [("2^-k", lambda k: (1, -k)), ("1-2^-k", lambda k: ((1 << k) - 1, -k)), ("-1+2^-k", lambda k: (-((1 << k) - 1), -k))],
    "atan": [("2^-k", lambda k: (1, -k)), ("2^k", lambda k: (1, k)), ("1+2^-k", lambda k: ((1 << k) + 1, -k))],
    "sin": [("2^-k", lambda k: (1, -k))], "tan": [("2^-k", lambda k: (1, -k))], "cos": [("2^-k", lambda k: (1, -k))],
    "cot": [("2^-k", lambda k: (1, -k))], "csc": [("2^-k", lambda k: (1, -k))], "sec": [("2^-k", lambda k: (1, -k))],
    "sinpi": [("2^-k", lambda k: (1, -k)), ("1+2^-k", lambda k: ((1 << k) + 1, -k)), ("7-2^-k", lambda k: ((7 << k) - 1, -k))],
    "cospi": [("1/2+2^-k", lambda k: ((1 << (k - 1)) + 1, -k)), ("5/2-2^-k", lambda k: ((5 << (k - 1)) - 1, -k)), ("2^-k", lambda k: (1, -k))],
    "sqrt": [("1+2^-k", lambda k: ((1 << k) + 1, -k)), ("2^-k", lambda k: (1, -k))],
}


def scan(p):
    reqs, meta = [], []
    for name, locs in LOC.items():
        drv, raw, site, dom = FUN1[name]
        for label, mk in locs:
            for k in range(2, 3 * p + 40):
                m, e = mk(k)
                if not EC.in_domain(dom, m, e):
                    continue
                for rnd in (RNDS if raw else ["n"]):
                    st, y = EC.call1(name, m, e, p, rnd, "raw" if raw else "api")
                    if st != "ok" or not is_finite_tuple(y):
                        meta.append((name, label, k, rnd, "noresult:" + st)); reqs.append(None); continue
                    my, ey = dy_of(y)
                    reqs.append(("acc %s %d %d %d %d" % (drv, m, e, my, ey), p)); meta.append((name, label, k, rnd, None))
    real = [r for r in reqs if r is not None]
    ver = iter(acc_decide(real, 3, 4))
    table = {}
    for r, (name, label, k, rnd, nr) in zip(reqs, meta):
        v = nr if r is None else next(ver)
        d = table.setdefault((name, label), {"n": 0})
        d["n"] += 1
        if v != "ok":
            d.setdefault(v, []).append(k)
    print("precision", p)
    for (name, label), d in sorted(table.items()):
        bad = {v: (min(ks), max(ks), len(ks)) for v, ks in d.items() if v != "n"}
        print("  %-6s %-12s cases %5d  %s" % (name, label, d["n"], "all ok" if not bad else
              "  ".join("%s: k in [%d,%d] (%d cases)" % (v, a, b, c) for v, (a, b, c) in bad.items())))


if __name__ == "__main__":
    for p in [int(a) for a in sys.argv[1:]] or [53]:
        scan(p)
