"""T1 operation table for the raw libmpf core: for every modelled operation a case generator that
returns (request line for mpdrv, thunk calling the real function from /repo)."""
from common import *  # noqa


def _lib():
    import_repo()
    import mpmath.libmp.libmpf as L
    return L


class CallTimeout(BaseException):
    pass


def _on_alarm(signum, frame):
    raise CallTimeout()


CALL_TIMEOUT_S = 8.0
MAX_TIMEOUTS = 3          # after this many calls that did not return, the rest of the run is skipped (`T:skipped`)
_timeouts = [0]


def call(thunk):
    """run one call of the real code; a call that does not return within CALL_TIMEOUT_S answers `T:timeout`
    (a changed tree can loop forever: that must become a reported difference, not a hung check)"""
    import signal, threading
    if _timeouts[0] >= MAX_TIMEOUTS:
        return "T:skipped"
    use_alarm = threading.current_thread() is threading.main_thread()
    if use_alarm:
        old = signal.signal(signal.SIGALRM, _on_alarm)
        signal.setitimer(signal.ITIMER_REAL, CALL_TIMEOUT_S)
    try:
        return enc_result(thunk())
    except CallTimeout:
        _timeouts[0] += 1
        return "T:timeout"
    except RecursionError:
        raise
    except Exception as e:  # noqa
        return enc_exc(e)
    finally:
        if use_alarm:
            signal.setitimer(signal.ITIMER_REAL, 0)
            signal.signal(signal.SIGALRM, old)


class CoreOps:
    """each gen_<op>(g) returns (line, thunk, meta)"""

    def __init__(self):
        self.L = _lib()
        import mpmath.libmp.libintmath as LI
        self.LI = LI

    # ----- helpers ------------------------------------------------------------------
    def pair(self, g, prec):
        """two operands with a structured exponent relation"""
        L = self.L
        r = g.r
        x = g.mpf(prec)
        k = r.random()
        if k < 0.35 or not x[1]:
            y = g.mpf(prec)
            rel = "independent"
        elif k < 0.6:
            y = g.near(x, prec)
            rel = "near"
        elif k < 0.72:
            # guard-distance boundary of mpf_add's "outside precision range" shortcut, enumerated: top bits prec-1 .. prec+6
            # apart, exponent fields more than 100 apart (long tiny operand), large operand a power of two half of the time
            # (a subtraction then lands in the binade below, where the tiny operand is worth twice as many ulps)
            if r.random() < 0.5:
                x = L.from_man_exp(r.choice([1, -1]), x[2])
            top_gap = prec + r.randint(-1, 6)
            nb = max(1, 101 - top_gap + x[3] + r.choice([0, 1, 2, 9]))
            m = g.man(nb, None)
            y = L.from_man_exp(m if r.random() < 0.5 else -m, x[2] + x[3] - top_gap - nb)
            rel = "guard-boundary"
        else:
            # exponent gaps around the literals in mpf_add: 100, prec+4
            nb = g.nbits(prec)
            top_gap = r.choice([prec - 1, prec, prec + 1, prec + 2, prec + 3, prec + 4, prec + 5, prec + 6, 2 * prec, 99, 100, 101, 102, 150, 1000])
            lowgap = r.choice([99, 100, 101, 102, 103, 150, 400])
            if r.random() < 0.4:
                # the large operand sparse (power of two, all ones, 2^k+1, longer than prec): a subtraction crosses into the
                # binade below, an addition carries into the one above -- where a tiny operand just under/over the guard
                # distance decides the rounding
                xm = r.choice([1, 1, 1, (1 << r.choice([2, max(2, prec - 1), prec, prec + 1, prec + 7])) - 1,
                               (1 << r.choice([1, max(1, prec - 1), prec, prec + 3])) + 1])
                x = L.from_man_exp(xm if r.random() < 0.5 else -xm, x[2])
            if r.random() < 0.6:
                # long tiny operand: the exponent FIELDS differ by about 100 although the top bits are top_gap apart
                nb = max(1, 101 - top_gap + x[3] + r.choice([-2, -1, 0, 1, 2, 5, 40]))
            m = g.man(nb, prec)
            if r.random() < 0.5:
                # place y so that offset = x.exp - y.exp = lowgap
                e = x[2] - lowgap
            else:
                # place y so that delta (difference of top bit positions) = top_gap
                e = x[2] + x[3] - top_gap - nb
            y = L.from_man_exp(m if r.random() < 0.5 else -m, e)
            rel = "gap"
        if r.random() < 0.5:
            x, y = y, x
        g.note("pair_rel", rel)
        return x, y

    # ----- ops ----------------------------------------------------------------------
    def gen_bitcount(self, g):
        n = g.man(g.nbits(), None) if g.r.random() > 0.02 else 0
        return "bitcount %x" % n, (lambda: int(self.LI.bitcount(n))), {}

    def gen_trailing(self, g):
        n = g.man(g.nbits(), None) << g.r.choice([0, 0, 1, 2, 7, 8, 9, 15, 16, 17, 64, 255, 256, 257, g.r.randint(0, 600)])
        if g.r.random() < 0.02:
            n = 0
        return "trailing %x" % n, (lambda: int(self.LI.trailing(n))), {}

    def gen_isqrt(self, g):
        r = g.r
        k = g.man(g.nbits(), None)
        n = r.choice([k, k * k, k * k + 1, k * k - 1, k * k + 2 * k, (k + 1) * (k + 1) - 1])
        return "isqrt %x" % n, (lambda: "I:%x" % int(self.LI.isqrt(n))), {"raw": True}

    def gen_normalize(self, g, one=False):
        L = self.L
        prec = g.prec()
        rnd = g.rnd()
        nb = g.nbits(prec)
        m = g.man(nb, prec)
        if one:
            m |= 1
        elif g.r.random() < 0.12:
            m = g.boundary_man(prec)
        elif g.r.random() < 0.5:
            m <<= g.r.choice([1, 2, 3, 7, 8, 9, 16, 40])
        if g.r.random() < 0.02:
            m = 0
        sign = g.r.randint(0, 1)
        e = g.exp()
        bc = m.bit_length()
        name = "normalize1" if one else "normalize"
        f = L._normalize1 if one else L._normalize
        return ("%s %d %x %d %d %d %s" % (name, sign, m, e, bc, prec, rnd),
                (lambda: f(sign, m, e, bc, prec, rnd)), {"prec": prec, "rnd": rnd})

    def gen_normalize1(self, g):
        return self.gen_normalize(g, one=True)

    def gen_from_man_exp(self, g):
        L = self.L
        prec = g.prec() if g.r.random() < 0.7 else 0
        rnd = g.rnd()
        m = g.man(g.nbits(prec or None), prec or None) << g.r.choice([0, 0, 1, 2, 3, 8, 9, 20])
        if prec and g.r.random() < 0.12:
            m = g.boundary_man(prec)
        if g.r.random() < 0.02:
            m = 0
        sign = g.r.randint(0, 1)
        e = g.exp()
        return ("from_man_exp %d %x %d %d %s" % (sign, m, e, prec, rnd),
                (lambda: L.from_man_exp(-m if sign else m, e, prec, rnd)), {"prec": prec, "rnd": rnd})

    def gen_from_int(self, g):
        L = self.L
        prec = g.prec() if g.r.random() < 0.6 else 0
        rnd = g.rnd()
        r = g.r
        n = r.choice([r.randint(-12, 260), g.man(g.nbits(prec or None), prec or None) * r.choice([1, -1]) << r.choice([0, 0, 3])])
        return ("from_int %d %d %s" % (n, prec, rnd), (lambda: L.from_int(n, prec, rnd)), {"prec": prec, "rnd": rnd})

    def gen_to_int(self, g):
        L = self.L
        x = g.mpf(None, big_exp=False)
        rnd = g.r.choice(["-"] + RNDS)
        return ("to_int %s %s" % (enc_mpf(x), rnd),
                (lambda: L.to_int(x, None if rnd == "-" else rnd)), {})

    def gen_round_int(self, g):
        L = self.L
        x = g.man(g.nbits(), None) * g.r.choice([1, -1])
        n = g.r.randint(1, 70) if g.r.random() < 0.8 else g.r.randint(1, 400)
        rnd = g.rnd()
        return ("round_int %d %d %s" % (x, n, rnd), (lambda: L.round_int(x, n, rnd)), {})

    def _unary(self, name, fname, g, allow_prec0=True):
        L = self.L
        prec = g.prec() if (g.r.random() < 0.75 or not allow_prec0) else 0
        rnd = g.rnd()
        x = g.mpf(prec or None)
        f = getattr(L, fname)
        return ("%s %s %d %s" % (name, enc_mpf(x), prec, rnd), (lambda: f(x, prec, rnd)), {"prec": prec, "rnd": rnd})

    def gen_pos(self, g): return self._unary("pos", "mpf_pos", g)
    def gen_neg(self, g): return self._unary("neg", "mpf_neg", g)
    def gen_abs(self, g): return self._unary("abs", "mpf_abs", g)

    def gen_sign(self, g):
        x = g.mpf(None, special_p=0.2)
        return "sign %s" % enc_mpf(x), (lambda: self.L.mpf_sign(x)), {}

    def _binary(self, name, fname, g, allow_prec0=True, special_p=0.05):
        L = self.L
        prec = g.prec() if (g.r.random() < 0.8 or not allow_prec0) else 0
        rnd = g.rnd()
        if g.r.random() < special_p:
            x, y = g.mpf(prec or None, special_p=0.6), g.mpf(prec or None, special_p=0.6)
        else:
            x, y = self.pair(g, prec or 53)
        if prec == 0 and x[1] and y[1] and abs(x[2] - y[2]) > 10 ** 5:
            prec = 53   # exact addition of far-apart numbers needs too much memory (documented)
        f = getattr(L, fname)
        return ("%s %s %s %d %s" % (name, enc_mpf(x), enc_mpf(y), prec, rnd), (lambda: f(x, y, prec, rnd)),
                {"prec": prec, "rnd": rnd})

    def gen_add(self, g): return self._binary("add", "mpf_add", g)
    def gen_sub(self, g): return self._binary("sub", "mpf_sub", g)
    def gen_mul(self, g): return self._binary("mul", "python_mpf_mul", g)
    def gen_gmul(self, g): return self._binary("gmul", "gmpy_mpf_mul", g)
    def gen_div(self, g): return self._binary("div", "mpf_div", g, allow_prec0=False)
    def gen_mod(self, g):
        L = self.L
        prec = g.prec()
        rnd = g.rnd()
        if g.r.random() < 0.06:
            x, y = g.mpf(prec, special_p=0.5, big_exp=False), g.mpf(prec, special_p=0.5, big_exp=False)
        else:
            x = g.mpf(prec, big_exp=False)
            y = g.near(x, prec) if g.r.random() < 0.5 else g.mpf(prec, big_exp=False)
        return ("mod %s %s %d %s" % (enc_mpf(x), enc_mpf(y), prec, rnd), (lambda: L.mpf_mod(x, y, prec, rnd)),
                {"prec": prec, "rnd": rnd})

    def gen_hypot(self, g):
        L = self.L
        prec = g.prec(); rnd = g.rnd()
        x = g.mpf(prec, special_p=0, big_exp=False); y = g.near(x, prec) if g.r.random() < 0.6 else g.mpf(prec, special_p=0, big_exp=False)
        return ("hypot %s %s %d %s" % (enc_mpf(x), enc_mpf(y), prec, rnd), (lambda: L.mpf_hypot(x, y, prec, rnd)), {"prec": prec, "rnd": rnd})

    def _smallint(self, g, prec):
        r = g.r
        k = r.random()
        if k < 0.5:
            return r.randint(-40, 40)
        if k < 0.8:
            return r.choice([1, -1]) * r.choice([1023, 1024, 1025, 2 ** 31, 2 ** 64 - 1, 10 ** 9 + 7, 3 ** 40])
        return r.choice([1, -1]) * g.man(g.nbits(prec), prec)

    def gen_mul_int(self, g, fname="python_mpf_mul_int", name="mul_int"):
        L = self.L
        prec = g.prec(); rnd = g.rnd()
        x = g.mpf(prec); n = self._smallint(g, prec)
        f = getattr(L, fname)
        return ("%s %s %d %d %s" % (name, enc_mpf(x), n, prec, rnd), (lambda: f(x, n, prec, rnd)), {"prec": prec, "rnd": rnd})

    def gen_gmul_int(self, g): return self.gen_mul_int(g, "gmpy_mpf_mul_int", "gmul_int")

    def gen_rdiv_int(self, g):
        L = self.L
        prec = g.prec(); rnd = g.rnd()
        x = g.mpf(prec); n = self._smallint(g, prec)
        return ("rdiv_int %d %s %d %s" % (n, enc_mpf(x), prec, rnd), (lambda: L.mpf_rdiv_int(n, x, prec, rnd)), {"prec": prec, "rnd": rnd})

    def gen_from_rational(self, g):
        L = self.L
        prec = g.prec(); rnd = g.rnd()
        p = self._smallint(g, prec); q = self._smallint(g, prec)
        return ("from_rational %d %d %d %s" % (p, q, prec, rnd), (lambda: L.from_rational(p, q, prec, rnd)), {"prec": prec, "rnd": rnd})

    def gen_shift(self, g):
        x = g.mpf(None); n = g.exp()
        return "shift %s %d" % (enc_mpf(x), n), (lambda: self.L.mpf_shift(x, n)), {}

    def gen_frexp(self, g):
        x = g.mpf(None, special_p=0.1)
        return "frexp %s" % enc_mpf(x), (lambda: self.L.mpf_frexp(x)), {}

    def gen_pow_int(self, g):
        L = self.L
        r = g.r
        prec = g.prec(); rnd = g.rnd()
        k = r.random()
        if k < 0.06:
            x = g.special()
        elif k < 0.5:
            x = g.finite(prec, big_exp=False)
        else:
            nb = r.choice([1, 2, 3, 5, 10, 20, 33, 53, 100, 250])
            x = L.from_man_exp(g.man(nb, None) * r.choice([1, -1]), r.randint(-60, 60))
        n = r.choice([0, 1, 2, 3, -1, -2, -3, 4, 5, 7, 10, 16, 17, 31, 64, 100, 255, 1000, -7, -100,
                      r.randint(-2000, 2000), r.randint(3, 40)])
        bc = x[3]
        if bc > 0 and r.random() < 0.2:
            n = max(3, 1000 // bc + r.choice([-1, 0, 1]))   # around the bc*n < 1000 threshold
        if bc * abs(n) > 4 * 10 ** 5 and prec == 0:
            n = 3
        if r.random() < 0.15:
            # structured family for the truncations INSIDE the binary-exponentiation loop: base 2^a + c (c tiny) has powers whose
            # bit patterns are sparse, and the working precision prec + 4*bitcount(n) + 4 is placed to cut them at / next to the
            # positions a*j, so that the discarded tails are exactly one half, all ones, or a single low bit
            n = r.choice([3, 3, 4, 5, 6, 7, 9, 12, 17])
            a = r.randint(max(40, 1000 // n + 1), 420)
            c = r.choice([1, -1, 3, (1 << r.randint(1, a // 2)) + 1])
            x = L.from_man_exp(((1 << a) + c) * r.choice([1, -1]), r.randint(-30, 30))
            wp = a * r.randint(1, n) + r.choice([-2, -1, 0, 0, 1, 2])
            prec = max(1, wp - 4 * n.bit_length() - 4)
            rnd = r.choice(["f", "c", "u", "d", "n"])
            n = n * r.choice([1, 1, 1, -1])
        return ("pow_int %s %d %d %s" % (enc_mpf(x), n, prec, rnd), (lambda: L.mpf_pow_int(x, n, prec, rnd)),
                {"prec": prec, "rnd": rnd})

    def gen_perturb(self, g):
        L = self.L
        prec = g.prec(); rnd = g.rnd()
        x = g.finite(prec, allow_zero=False)
        s = g.r.randint(0, 1)
        return ("perturb %s %d %d %s" % (enc_mpf(x), s, prec, rnd), (lambda: L.mpf_perturb(x, s, prec, rnd)), {"prec": prec, "rnd": rnd})

    def gen_sqrt(self, g):
        L = self.L
        r = g.r
        prec = g.prec(); rnd = g.rnd()
        k = r.random()
        if k < 0.05:
            x = g.mpf(prec, special_p=0.7)
        elif k < 0.5:
            x = L.mpf_abs(g.finite(prec))
        else:
            # perfect squares and neighbours
            nb = max(1, g.nbits(prec) // 2)
            a = g.man(nb, None)
            m = r.choice([a * a, a * a + 1, a * a - 1, a * a + 2 * a, 2 * a * a])
            x = L.from_man_exp(m, r.choice([0, 1, -1, 2, -2, r.randint(-50, 50)]))
        if r.random() < 0.03:
            x = L.mpf_neg(x)
        return ("sqrt %s %d %s" % (enc_mpf(x), prec, rnd), (lambda: L.mpf_sqrt(x, prec, rnd)), {"prec": prec, "rnd": rnd})

    def _intpart_arg(self, g):
        L = self.L
        r = g.r
        k = r.random()
        if k < 0.05:
            return g.special()
        nb = g.nbits(None)
        m = g.man(nb, None)
        if k < 0.5:
            e = -r.randint(0, nb + 3)        # around the binary point
        elif k < 0.7:
            e = -nb - r.choice([0, 1, 2, 5])  # |x| < 1, near 1/2, 1/4
        else:
            e = g.exp(big=False)
        return L.from_man_exp(m * r.choice([1, -1]), e)

    def gen_mround_int(self, g):
        x = self._intpart_arg(g); rnd = g.rnd()
        return "mround_int %s %s" % (enc_mpf(x), rnd), (lambda: self.L.mpf_round_int(x, rnd)), {}

    def _ip(self, name, fname, g):
        L = self.L
        x = self._intpart_arg(g)
        prec = g.prec() if g.r.random() < 0.5 else 0
        rnd = g.rnd()
        f = getattr(L, fname)
        return "%s %s %d %s" % (name, enc_mpf(x), prec, rnd), (lambda: f(x, prec, rnd)), {"prec": prec, "rnd": rnd}

    def gen_floor(self, g): return self._ip("floor", "mpf_floor", g)
    def gen_ceil(self, g): return self._ip("ceil", "mpf_ceil", g)
    def gen_nint(self, g): return self._ip("nint", "mpf_nint", g)
    def gen_frac(self, g): return self._ip("frac", "mpf_frac", g)

    def _cmp_pair(self, g):
        L = self.L
        r = g.r
        k = r.random()
        if k < 0.12:
            return g.mpf(None, special_p=0.7), g.mpf(None, special_p=0.7)
        x = g.finite(None)
        if k < 0.3:
            return x, x
        if k < 0.75 and x[1]:
            # same top bit position, different low bits: forces the subtraction fallback
            s, m, e, b = x
            nb2 = max(1, b + r.choice([-5, -1, 1, 3, 40]))
            m2 = g.man(nb2, None)
            e2 = e + b - nb2
            y = L.from_man_exp(-m2 if s else m2, e2)
            if r.random() < 0.3:
                y = L.mpf_neg(y)
            return (x, y) if r.random() < 0.5 else (y, x)
        return x, g.finite(None)

    def _cmp(self, name, fname, g):
        x, y = self._cmp_pair(g)
        f = getattr(self.L, fname)
        return "%s %s %s" % (name, enc_mpf(x), enc_mpf(y)), (lambda: f(x, y)), {}

    def gen_eq(self, g): return self._cmp("eq", "mpf_eq", g)
    def gen_cmp(self, g): return self._cmp("cmp", "mpf_cmp", g)
    def gen_lt(self, g): return self._cmp("lt", "mpf_lt", g)
    def gen_le(self, g): return self._cmp("le", "mpf_le", g)
    def gen_gt(self, g): return self._cmp("gt", "mpf_gt", g)
    def gen_ge(self, g): return self._cmp("ge", "mpf_ge", g)

    def gen_hash(self, g):
        L = self.L
        r = g.r
        x = g.mpf(None, special_p=0.08)
        if x[1] and r.random() < 0.4:
            x = (x[0], x[1], r.choice([0, 60, 61, 62, -1, -60, -61, -62, 122, -122, 61 * r.randint(-50, 50) + r.randint(-1, 1)]), x[3])
        return "hash %s" % enc_mpf(x), (lambda: L.mpf_hash(x)), {}

    def gen_to_fixed(self, g):
        x = g.finite(None, big_exp=False); p = g.r.randint(0, 300)
        return "to_fixed %s %d" % (enc_mpf(x), p), (lambda: int(self.L.to_fixed(x, p))), {}

    def gen_to_rational(self, g):
        x = g.mpf(None, special_p=0.03, big_exp=False)
        if x == self.L.finf or x == self.L.fninf:
            x = self.L.fnan
        return "to_rational %s" % enc_mpf(x), (lambda: tuple(int(v) for v in self.L.to_rational(x))), {}

    def gen_sum(self, g):
        L = self.L
        r = g.r
        prec = g.prec() if r.random() < 0.8 else 0
        rnd = g.rnd()
        ab = r.random() < 0.2
        k = r.randint(0, 8)
        xs = []
        base = g.finite(prec or 53, big_exp=False)
        for _ in range(k):
            c = r.random()
            if c < 0.04:
                xs.append(g.special())
            elif c < 0.6:
                xs.append(g.near(base, prec or 53))
            elif c < 0.9 or not prec:
                xs.append(g.finite(prec or 53, big_exp=False))
            else:
                # far-apart terms around the 2*prec cutoff
                s, m, e, b = base
                gap = 2 * prec + r.choice([-2, -1, 0, 1, 2])
                xs.append(L.from_man_exp(g.man(g.nbits(prec or 53), None) * r.choice([1, -1]), e + r.choice([1, -1]) * gap))
        if prec == 0:
            es = [x[2] for x in xs if x[1]]
            if es and max(es) - min(es) > 10 ** 5:
                prec = 53
        return ("sum %d %s %d %s" % (prec, rnd, 1 if ab else 0, " ".join(enc_mpf(x) for x in xs)),
                (lambda: L.mpf_sum(xs, prec, rnd, ab)), {"prec": prec, "rnd": rnd})


ALL_CORE_OPS = ["bitcount", "trailing", "isqrt", "normalize", "normalize1", "from_man_exp", "from_int", "to_int",
                "round_int", "pos", "neg", "abs", "sign", "add", "sub", "mul", "gmul", "div", "mod", "hypot",
                "mul_int", "gmul_int", "rdiv_int", "from_rational", "shift", "frexp", "pow_int", "perturb", "sqrt",
                "mround_int", "floor", "ceil", "nint", "frac", "eq", "cmp", "lt", "le", "gt", "ge", "hash",
                "to_fixed", "to_rational", "sum"]


def run_t1(ops, ncases, seed, weights=None):
    """Generate ncases over `ops`, run impl and model, return (stats, disagreements, gen)."""
    co = CoreOps()
    g = Gen(seed)
    lines, impl_out, metas, opnames = [], [], [], []
    for i in range(ncases):
        op = ops[i % len(ops)] if weights is None else g.r.choices(ops, weights)[0]
        line, thunk, meta = getattr(co, "gen_" + op)(g)
        res = call(thunk) if not meta.get("raw") else _raw(thunk)
        lines.append(line); impl_out.append(res); metas.append(meta); opnames.append(op)
    model_out = Driver().ask(lines)
    dis = []
    per_op = {}
    for i, (a, b) in enumerate(zip(impl_out, model_out)):
        d = per_op.setdefault(opnames[i], [0, 0])
        d[0] += 1
        if a != b:
            d[1] += 1
            dis.append({"index": i, "op": opnames[i], "line": lines[i], "impl": a, "model": b})
    return {"per_op": per_op, "lines": lines, "impl": impl_out}, dis, g


def _raw(thunk):
    try:
        return thunk()
    except Exception as e:  # noqa
        return enc_exc(e)


if __name__ == "__main__":
    import sys as _s
    n = int(_s.argv[1]) if len(_s.argv) > 1 else 20000
    seed = int(_s.argv[2]) if len(_s.argv) > 2 else 0
    ops = _s.argv[3].split(",") if len(_s.argv) > 3 else ALL_CORE_OPS
    t = time.time()
    st, dis, g = run_t1(ops, n, seed)
    print("cases", n, "disagreements", len(dis), "time %.1f" % (time.time() - t))
    for k, v in sorted(st["per_op"].items()):
        if v[1]:
            print(k, v)
    for d in dis[:15]:
        print(d)
