"""Independent exact definitions for property C25 (plain CPython integers only; nothing from mpmath), and the
decision of the property on one (request line, answer of the real code) pair.

Property text (C25): "For integer arguments, factorial, fac2, binomial, rf, ff, fib, bernoulli, eulernum, stirling1,
stirling2, bell, ... return the exact value when it fits in the working precision and otherwise a value within one
unit in the last place.  bernfrac returns the exact reduced fraction, exact=True variants return exact Python
integers, and isprime, moebius and list_primes are exact (isprime deterministically below 3.4*10^14)."

Decision taken strictly from the text, for a float-returning wrapper at precision p with exact value v:
  * v fits in p bits (odd part of |v| has at most p bits)  ->  the result must be EXACTLY v;
  * otherwise |result - v| <= one unit in the last place of v at precision p, i.e. 2^(bitlength(|v|) - p).
    (A result that is faithfully but not correctly rounded is therefore allowed: the text does not promise the
    nearest value.)
Raw integer functions, exact=True variants, isprime / moebius / list_primes / primepi: exact equality.
Arguments outside a function's documented domain (negative n for ifac / ifac2 / eulernum) are not judged:
they are reported under the status "informational".
"""
import math
from fractions import Fraction

# ------------------------------------------------------------------------------------------------
# exact definitions
# ------------------------------------------------------------------------------------------------

def fac(n):
    return math.factorial(n)


def fac2(n):
    p = 1
    while n > 1:
        p *= n
        n -= 2
    return p


_FIB = [0, 1]


def fib(n):
    if n < 0:
        v = fib(-n)
        return v if (-n) % 2 == 1 else -v          # F(-n) = (-1)^(n+1) F(n)
    while len(_FIB) <= n:
        _FIB.append(_FIB[-1] + _FIB[-2])
    return _FIB[n]


_SEC = [1]          # E_0, E_2, E_4, ...


def euler(m):
    """Euler number E_m by the defining recurrence sum_{k<=n} C(2n,2k) E_2k = 0"""
    if m % 2:
        return 0
    n = m // 2
    while len(_SEC) <= n:
        j = len(_SEC)
        _SEC.append(-sum(math.comb(2 * j, 2 * k) * _SEC[k] for k in range(j)))
    return _SEC[n]


def stirling2(n, k):
    """S(n,k) through the diagonals T_d(k) = S(k+d, k):  T_d(k) = k*T_{d-1}(k) + T_d(k-1)"""
    if k > n:
        return 0
    d = n - k
    prev = [1] * (k + 1)                 # T_0(j) = 1, j = 0..k
    for dd in range(1, d + 1):
        cur = [0] * (k + 1)              # T_dd(0) = 0
        for j in range(1, k + 1):
            cur[j] = j * prev[j] + cur[j - 1]
        prev = cur
    return prev[k]


def stirling1(n, k):
    """signed s(n,k): diagonals U_d(k) = c(k+d,k) unsigned, c(n+1,k) = n c(n,k) + c(n,k-1)"""
    if k > n:
        return 0
    d = n - k
    prev = [1] * (k + 1)
    for dd in range(1, d + 1):
        cur = [0] * (k + 1)
        for j in range(1, k + 1):
            # c(j+dd, j) = (j+dd-1) c(j+dd-1, j) + c(j+dd-1, j-1) = (j+dd-1) U_{dd-1}(j) + U_dd(j-1)
            cur[j] = (j + dd - 1) * prev[j] + cur[j - 1]
        prev = cur
    return prev[k] if (n + k) % 2 == 0 else -prev[k]


def factorize(n):
    f = {}
    d = 2
    while d * d <= n:
        while n % d == 0:
            f[d] = f.get(d, 0) + 1
            n //= d
        d += 1 if d == 2 else 2
    if n > 1:
        f[n] = f.get(n, 0) + 1
    return f


def moebius(n):
    n = abs(n)
    if n == 0:
        return 0
    f = factorize(n)
    if any(e > 1 for e in f.values()):
        return 0
    return -1 if len(f) % 2 else 1


_PRIMES = [2, 3]
_PLIMIT = [4]


def primes_upto(n):
    """primes <= n; table extended by trial division with the primes already found"""
    c = _PLIMIT[0]
    if n >= c:
        while c <= n:
            for p in _PRIMES:
                if p * p > c:
                    _PRIMES.append(c)
                    break
                if c % p == 0:
                    break
            c += 1
        _PLIMIT[0] = c
    import bisect
    return _PRIMES[:bisect.bisect_right(_PRIMES, n)]


_MR13 = (2, 3, 5, 7, 11, 13, 17, 19, 23, 29, 31, 37, 41)
MR13_LIMIT = 3317044064679887385961981      # least composite strong pseudoprime to the first 13 prime bases


def is_prime(n):
    """exact for n < 10^10 (trial division); deterministic Miller-Rabin with 13 bases below MR13_LIMIT
    (Sorenson-Webster 2015); None (undecided) above."""
    if n < 2:
        return False
    if n < 10 ** 10:
        for p in primes_upto(math.isqrt(n)):
            if n % p == 0:
                return n == p
        return True
    for p in _MR13:
        if n % p == 0:
            return n == p
    if n >= MR13_LIMIT:
        return None
    d, s = n - 1, 0
    while d % 2 == 0:
        d //= 2
        s += 1
    for a in _MR13:
        x = pow(a, d, n)
        if x in (1, n - 1):
            continue
        for _ in range(s - 1):
            x = x * x % n
            if x == n - 1:
                break
        else:
            return False
    return True


# ------------------------------------------------------------------------------------------------
# the property on float results
# ------------------------------------------------------------------------------------------------

def dec_mpf(s):
    a, b, c, d = s.split(":")
    return (int(a), int(b, 16), int(c), int(d))


def float_ok(ans, v, p):
    """ans: 'sign:hexman:exp:bc' of the real result; v exact value (int or Fraction); p precision.
    Returns (ok, what)."""
    try:
        sign, man, exp, bc = dec_mpf(ans)
    except ValueError:
        return False, "result is not a finite mpf: %s" % ans[:60]
    if man == 0 and exp != 0:
        return False, "result is inf/nan"
    if man.bit_length() > p:
        return False, "result has %d bits at precision %d" % (man.bit_length(), p)
    r = Fraction(-man if sign else man) * (Fraction(2) ** exp)
    v = Fraction(v)
    if v == 0:
        return (True, None) if r == 0 else (False, "exact value is 0, result is not")
    num, den = abs(v.numerator), v.denominator
    fits = (den & (den - 1)) == 0 and (num >> ((num & -num).bit_length() - 1)).bit_length() <= p
    if fits:
        if r == v:
            return True, None
        return False, "value fits in %d bits but result is not exact (relative error %s)" % (p, _g(abs(r - v) / abs(v)))
    # unit in the last place of v at precision p:  2^(e - p)  with  2^(e-1) <= |v| < 2^e
    e = num.bit_length() - den.bit_length()
    if Fraction(num, den) >= Fraction(2) ** e:
        e += 1
    ulp = Fraction(2) ** (e - p)
    if abs(r - v) <= ulp:
        return True, None
    return False, "error %s ulp at precision %d" % (_g(abs(r - v) / ulp), p)


def _g(q):
    """a rational as a short decimal string, also when it is outside the float range"""
    try:
        return "%.3g" % float(q)
    except OverflowError:
        q = Fraction(q)
        return "2^%d" % (abs(q.numerator).bit_length() - q.denominator.bit_length())


# ---- further exact definitions (functions without a Lean model: judged by these only) ----------------

def binomial(n, k):
    """generalised binomial coefficient for integer n (any sign) and integer k >= 0; 0 for k < 0 <= n"""
    if k < 0:
        return 0
    num = 1
    for i in range(k):
        num *= (n - i)
    return num // math.factorial(k)          # exact


def rf(x, n):
    v = 1
    for i in range(n):
        v *= x + i
    return v


def ff(x, n):
    v = 1
    for i in range(n):
        v *= x - i
    return v


_BELL = [[1]]


def bell(n):
    """Bell numbers by the Bell (Aitken) triangle"""
    while len(_BELL) <= n:
        prev = _BELL[-1]
        row = [prev[-1]]
        for x in prev:
            row.append(row[-1] + x)
        _BELL.append(row)
    return _BELL[n][0]


_TAN = {"N": 0, "T": []}


def _tangent_numbers(N):
    """T_1, T_3, ..., T_{2N-1} (1, 2, 16, 272, ...) by the integer algorithm of Knuth-Buckholtz / Brent-Harvey"""
    T = [0] * (N + 1)
    T[1] = 1
    for k in range(2, N + 1):
        T[k] = (k - 1) * T[k - 1]
    for k in range(2, N + 1):
        for j in range(k, N + 1):
            T[j] = (j - k) * T[j - 1] + (j - k + 2) * T[j]
    return T


def bernoulli(n):
    """B_n as a Fraction (B_1 = -1/2):  B_2m = (-1)^(m-1) * 2m * T_(2m-1) / (4^m (4^m - 1))"""
    if n == 0:
        return Fraction(1)
    if n == 1:
        return Fraction(-1, 2)
    if n % 2:
        return Fraction(0)
    m = n // 2
    if m > _TAN["N"]:
        N = max(64, 2 * _TAN["N"], m)
        _TAN["T"] = _tangent_numbers(N)
        _TAN["N"] = N
    t = _TAN["T"][m]
    v = Fraction(2 * m * t, 4 ** m * (4 ** m - 1))
    return v if m % 2 == 1 else -v


def _bernoulli_by_recurrence(n):
    B = []
    for m in range(n + 1):
        B.append(Fraction(1) if m == 0 else -sum(math.comb(m + 1, k) * B[k] for k in range(m)) / (m + 1))
    return B


assert all(bernoulli(i) == b for i, b in enumerate(_bernoulli_by_recurrence(40)))


def prime_power(n):
    """p if n = p^k (k >= 1, p prime) else 0"""
    if n < 2:
        return 0
    f = factorize(n) if n < 10 ** 12 else None
    if f is not None:
        return list(f)[0] if len(f) == 1 else 0
    # large n: the largest k with an exact k-th root r gives an r that is not a perfect power
    for k in range(n.bit_length(), 0, -1):
        r = _iroot(n, k)
        if r ** k == n:
            pr = is_prime(r)
            return None if pr is None else (r if pr else 0)
    return 0


def _iroot(n, k):
    if k == 1:
        return n
    lo, hi = 1, 1 << (n.bit_length() // k + 1)
    while lo < hi:
        mid = (lo + hi + 1) // 2
        if mid ** k <= n:
            lo = mid
        else:
            hi = mid - 1
    return lo


_CYC = {}


def _polydiv(a, b):
    """exact division of integer polynomials (coefficient lists, lowest degree first)"""
    a = a[:]
    q = [0] * (len(a) - len(b) + 1)
    for i in range(len(q) - 1, -1, -1):
        c = a[i + len(b) - 1] // b[-1]
        q[i] = c
        for j, bj in enumerate(b):
            a[i + j] -= c * bj
    assert not any(a)
    return q


def cyclotomic_poly(n):
    if n not in _CYC:
        p = [-1] + [0] * (n - 1) + [1]               # x^n - 1
        for d in range(1, n):
            if n % d == 0:
                p = _polydiv(p, cyclotomic_poly(d))
        _CYC[n] = p
    return _CYC[n]


def cyclotomic(n, x):
    if n == 0:
        return 1
    v = 0
    for c in reversed(cyclotomic_poly(n)):
        v = v * x + c
    return v


# ------------------------------------------------------------------------------------------------
# decision on one request line
# ------------------------------------------------------------------------------------------------

SITES = {
    "ifac_hist": "libintmath.ifac", "ifac2_hist": "libintmath.ifac2", "ifib_hist": "libintmath.ifib",
    "euler_hist": "libintmath.eulernum", "stirling1": "libintmath.stirling1", "moebius": "libintmath.moebius",
    "list_primes": "libintmath.list_primes", "primepi": "functions.zeta.primepi", "isprime": "libintmath.isprime",
    "gcd": "libintmath.gcd", "isqrt_small": "libintmath.isqrt_small_python", "sqrtrem_large": "libintmath.sqrtrem_python",
    "w_fac": "ctx_mp.fac", "w_fac2": "functions.factorials.fac2", "w_fib": "ctx_mp.fib",
    "w_euler": "functions.zeta.eulernum", "w_stirling1": "functions.functions.stirling1",
    "w_stirling2": "functions.functions.stirling2",
    "w_binomial": "functions.factorials.binomial", "w_rf": "functions.factorials.rf", "w_ff": "functions.factorials.ff",
    "w_bell": "functions.functions.bell", "w_cyclotomic": "functions.functions.cyclotomic",
    "bernfrac": "gammazeta.bernfrac", "bern_hist": "gammazeta.mpf_bernoulli", "mangoldt": "functions.functions.mangoldt",
}


def _items(ans):
    return ans[2:].split(",") if ans.startswith("L:") else None


def _int_item(x):
    return int(x[2:]) if x.startswith("I:") else None


def decide(line, ans):
    """-> list of (status, site, what) with status in ok | violates | informational | nospec"""
    t = line.split()
    if not t or ans is None or ans.startswith("?"):
        return [("nospec", None, None)]
    op, a = t[0], t[1:]
    out = []

    def chk(site, call, got, want):
        if got == want:
            out.append(("ok", site, None))
        else:
            out.append(("violates", site, "%s returned %s, exact value is %s" % (call, str(got)[:80], str(want)[:80])))

    try:
        if op == "ifac_hist":
            its = _items(ans)
            for x, r in zip(a, its):
                if x.startswith("s2:"):
                    _, n, k = x.split(":"); n = int(n); k = int(k)
                    if n < 0 or k < 0:
                        out.append(("ok", "libintmath.stirling2", None) if r == "E:ValueError" else
                                   ("violates", "libintmath.stirling2", "stirling2(%d,%d): %s, expected ValueError" % (n, k, r)))
                    else:
                        chk("libintmath.stirling2", "stirling2(%d,%d) [in history]" % (n, k), _int_item(r), stirling2(n, k))
                else:
                    n = int(x)
                    if n < 0:
                        out.append(("informational", "libintmath.ifac", "ifac(%d) outside the domain n >= 0 returned %s" % (n, r[:40])))
                    else:
                        chk("libintmath.ifac", "ifac(%d) [in history]" % n, _int_item(r), fac(n))
        elif op == "ifac2_hist":
            for x, r in zip(a, _items(ans)):
                n = int(x)
                if n < 0:
                    out.append(("informational", "libintmath.ifac2", "ifac2(%d) outside the domain n >= 0 returned %s" % (n, r[:40])))
                else:
                    chk("libintmath.ifac2", "ifac2(%d) [in history]" % n, _int_item(r), fac2(n))
        elif op == "ifib_hist":
            for x, r in zip(a, _items(ans)):
                n = int(x)
                chk("libintmath.ifib", "ifib(%d) [in history]" % n, _int_item(r), fib(n))
        elif op == "euler_hist":
            for x, r in zip(a, _items(ans)):
                n = int(x)
                if n < 0:
                    out.append(("informational", "libintmath.eulernum", "eulernum(%d) for negative index returned %s" % (n, r[:40])))
                else:
                    chk("libintmath.eulernum", "eulernum(%d) [in history]" % n, _int_item(r), euler(n))
        elif op == "stirling1":
            n, k = int(a[0]), int(a[1])
            if n < 0 or k < 0:
                out.append(("ok", SITES[op], None) if ans == "E:ValueError" else
                           ("violates", SITES[op], "stirling1(%d,%d): %s, expected ValueError" % (n, k, ans)))
            else:
                chk(SITES[op], "stirling1(%d,%d)" % (n, k), _int_item(ans), stirling1(n, k))
        elif op == "moebius":
            chk(SITES[op], "moebius(%s)" % a[0], _int_item(ans), moebius(int(a[0])))
        elif op == "list_primes":
            n = int(a[0])
            if n < -1:
                out.append(("informational", SITES[op], "list_primes(%d) raised %s" % (n, ans)))
            else:
                got = [int(x) for x in ans[2:].split(",") if x] if ans.startswith("L:") else ans
                chk(SITES[op], "list_primes(%d)" % n, got, primes_upto(n))
        elif op == "primepi":
            n = int(a[0])
            chk(SITES[op], "primepi(%d)" % n, _int_item(ans), len(primes_upto(n)) if n >= 2 else 0)
        elif op == "isprime":
            n = int(a[0])
            want = is_prime(n)
            if want is None:
                out.append(("nospec", SITES[op], None))
            elif n >= 341550071728321 and (ans == "B:1") != want:
                # above the deterministic range the text promises nothing
                out.append(("informational", SITES[op], "isprime(%d) = %s above the deterministic range" % (n, ans)))
            else:
                chk(SITES[op], "isprime(%d)" % n, ans == "B:1", want)
        elif op == "gcd":
            xs = [int(x) for x in a]
            got = _int_item(ans)
            chk(SITES[op], "|gcd(%s)|" % ",".join(a)[:60], abs(got) if got is not None else None, math.gcd(*xs) if xs else 0)
        elif op == "isqrt_small":
            chk(SITES[op], "isqrt_small(x)", _int_item(ans), math.isqrt(int(a[0])))
        elif op == "sqrtrem_large":
            x = int(a[0]); y = math.isqrt(x)
            chk(SITES[op], "sqrtrem(x)", ans, "P:I:%d,I:%d" % (y, x - y * y))
        elif op in ("w_binomial", "w_rf", "w_ff", "w_bell", "w_cyclotomic"):
            args = [int(x) for x in a[:-2]]
            p = int(a[-2])
            if ans.startswith("T:"):
                return [("nospec", SITES[op], "timeout")]
            v = {"w_binomial": binomial, "w_rf": rf, "w_ff": ff, "w_bell": bell, "w_cyclotomic": cyclotomic}[op](*args)
            ok, what = float_ok(ans, v, p)
            out.append(("ok", SITES[op], None) if ok else
                       ("violates", SITES[op], "%s%s at prec %d: %s (exact value %s)" % (op[2:], tuple(args), p, what, str(v)[:60])))
        elif op == "bernfrac":
            n = int(a[0])
            b = bernoulli(n)
            chk(SITES[op], "bernfrac(%d)" % n, ans, "P:I:%d,I:%d" % (b.numerator, b.denominator))
        elif op == "bern_hist":
            its = _items(ans)
            for x, r in zip(a, its):
                n, p = x.split(":"); n = int(n); p = int(p)
                if r.startswith("T:"):
                    out.append(("nospec", SITES[op], "timeout")); continue
                ok, what = float_ok(r, bernoulli(n), p)
                out.append(("ok", SITES[op], None) if ok else
                           ("violates", SITES[op], "bernoulli(%d) at prec %d [history %s]: %s" % (n, p, " ".join(a)[:80], what)))
        elif op == "mangoldt":
            n = int(a[0])
            want = prime_power(n)
            if want is None or ans.startswith("T:"):
                out.append(("nospec", SITES[op], None))
            elif n > 10 ** 30 and ans == "E:NotImplementedError":
                out.append(("informational", SITES[op], "mangoldt(n) raises NotImplementedError for n > 10^30 not divisible by a small prime"))
            else:
                chk(SITES[op], "mangoldt(%d) [prime p with value ln p, 0 if none]" % n, ans, "I:%d" % want)
        elif op in ("w_fac", "w_fac2", "w_fib", "w_euler", "w_stirling1", "w_stirling2"):
            args = [int(x) for x in a[:-2]]
            p = int(a[-2])
            if op in ("w_stirling1", "w_stirling2") and (args[0] < 0 or args[1] < 0):
                out.append(("ok", SITES[op], None) if ans == "E:ValueError" else ("violates", SITES[op], "expected ValueError, got " + ans[:40]))
                return out
            if args[0] < 0 and op != "w_fib":
                return [("informational", SITES[op], "%s%s outside the domain: %s" % (op[2:], tuple(args), ans[:40]))]
            v = {"w_fac": fac, "w_fac2": fac2, "w_fib": fib, "w_euler": euler,
                 "w_stirling1": stirling1, "w_stirling2": stirling2}[op](*args)
            call = "%s%s" % (op[2:], tuple(args))
            if p == 0:
                chk(SITES[op], call + " exact=True", _int_item(ans), v)
            else:
                ok, what = float_ok(ans, v, p)
                out.append(("ok", SITES[op], None) if ok else ("violates", SITES[op], "%s at prec %d: %s" % (call, p, what)))
        else:
            out.append(("nospec", None, None))
    except (ValueError, TypeError, IndexError) as e:
        out.append(("violates", SITES.get(op, op), "unreadable answer %s (%s)" % (ans[:60], e)))
    return out or [("nospec", None, None)]
