"""C29 — root finders: job descriptions, worker (real mpmath calls with hard timeouts), exact polynomial
algebra for the certificates, request lines for the `rc_*` ops of MpModel/DrvRootCert.lean.

Every call into mpmath.polyroots / findroot / multiplicity is executed in a worker subprocess
(`python roots_ops.py --worker [--patch NAME ...]`) with a per-job alarm and a hard wall-clock limit;
a timeout is "no result".  Jobs and results are JSON, hence replayable:  replay(job) re-runs one job.

`--patch NAME` applies a textual patch to a module of /repo *in the worker's memory only* (never on disk):
the proposed fixes (`fix_*`) and the mutations used to test the check (`mut_*`), see PATCHES.
"""
import os, sys, json, time, signal, subprocess, random, itertools
from fractions import Fraction
from concurrent.futures import ThreadPoolExecutor

HERE = os.path.dirname(os.path.abspath(__file__))
if HERE not in sys.path:
    sys.path.insert(0, HERE)
from common import *  # noqa

# --------------------------------------------------------------------------------------
# textual patches (proposed fixes and mutations), applied in memory in the worker
# --------------------------------------------------------------------------------------

ORDER_OLD = "        roots.sort(key=lambda x: (abs(ctx._im(x)), ctx._re(x)))\n"
ORDER_NEW = ORDER_OLD + '''\
        # The sort alone does not keep conjugates together: the computed |im| of the two
        # members of a pair can differ in the last bits, and roots of other pairs with
        # (nearly) the same |im| then end up in between.  Keep the real roots first and
        # pair every root of the upper half plane with the remaining root of the lower
        # half plane closest to its conjugate; the two keep their relative order.
        real, upper, lower = [], [], []
        for k, r in enumerate(roots):
            im = ctx._im(r)
            if not im:
                real.append(r)
            elif im > 0:
                upper.append((k, r))
            else:
                lower.append((k, r))
        roots = real
        for k, r in upper:
            if lower:
                c = min(lower, key=lambda kx: abs(kx[1] - ctx.conj(r)))
                lower.remove(c)
                roots += [c[1], r] if c[0] < k else [r, c[1]]
            else:
                roots.append(r)
        roots += [x for k, x in lower]
'''

MNEWTON_STEP_OLD = "            x -= fx / (dfx - fx * d2fx / dfx)\n            error = abs(x - prevx)\n            yield x, error\n\nclass Halley:"
MNEWTON_STEP_NEW = '''            try:
                x -= fx / (dfx - fx * d2fx / dfx)
            except ZeroDivisionError:
                # f' (or the whole denominator) vanishes numerically: x is as close
                # to a multiple root as the working precision resolves
                break
            error = abs(x - prevx)
            yield x, error

class Halley:'''

PATCHES = {
    # ---- proposed fixes -------------------------------------------------------------
    "fix_order": ("mpmath.calculus.polynomials", [(ORDER_OLD, ORDER_NEW)]),
    "fix_d2f": ("mpmath.calculus.optimization", [("            d2f = kwargs['df']\n", "            d2f = kwargs['d2f']\n")]),
    "fix_mnewton_zerodiv": ("mpmath.calculus.optimization", [(MNEWTON_STEP_OLD, MNEWTON_STEP_NEW)]),
    # ---- mutations ------------------------------------------------------------------
    "mut_sort_noabs": ("mpmath.calculus.polynomials", [("(abs(ctx._im(x)), ctx._re(x))", "(ctx._im(x), ctx._re(x))")]),
    "mut_sort_rekey": ("mpmath.calculus.polynomials", [("(abs(ctx._im(x)), ctx._re(x))", "(ctx._re(x), abs(ctx._im(x)))")]),
    "mut_cleanup_thresh": ("mpmath.calculus.polynomials", [("elif abs(ctx._im(roots[i])) < tol:", "elif abs(ctx._im(roots[i])) <= tol:")]),
    "mut_polyroots_tol": ("mpmath.calculus.polynomials", [("    tol = +ctx.eps\n", "    tol = ctx.sqrt(ctx.eps)\n")]),
    "mut_polyroots_err": ("mpmath.calculus.polynomials", [("        err = max(err, ctx.ldexp(1, -orig+1))\n", "        err = ctx.ldexp(err, -8)\n")]),
    "mut_polyroots_drop": ("mpmath.calculus.polynomials", [("        return [+r for r in roots], +err\n", "        return [+r for r in roots][:-1] + [+roots[0]], +err\n")]),
    "mut_verify_off": ("mpmath.calculus.optimization", [("        if verify and norm(f(*xl))**2 > tol:", "        if False and norm(f(*xl))**2 > tol:")]),
    "mut_verify_weak": ("mpmath.calculus.optimization", [("        if verify and norm(f(*xl))**2 > tol:", "        if verify and norm(f(*xl))**2 > 1:")]),
    "mut_illinois_side": ("mpmath.calculus.optimization", [("            if fz * fb < 0: # root in [z, b]\n", "            if fz * fb > 0: # root in [z, b]\n")]),
    "mut_ridder_side": ("mpmath.calculus.optimization", [("            if fx4 * fx2 < 0: # root in [x4, x2]\n", "            if fx4 * fx2 > 0: # root in [x4, x2]\n")]),
    "mut_mult_tol": ("mpmath.calculus.optimization", [("        tol = ctx.eps ** 0.8\n", "        tol = ctx.eps ** 2\n")]),
    "mut_mult_off1": ("mpmath.calculus.optimization", [("            break\n    return i\n", "            break\n    return i + 1\n")]),
}


def apply_patches(names):
    """apply all patches module by module (every module source is read from /repo once and re-executed once)"""
    import importlib
    bymod = {}
    for name in names:
        modname, subs = PATCHES[name]
        bymod.setdefault(modname, []).extend((name, o, n) for o, n in subs)
    for modname, subs in bymod.items():
        mod = importlib.import_module(modname)
        src = open(mod.__file__).read()
        for name, old, new in subs:
            assert src.count(old) >= 1, "patch %s does not apply" % name
            src = src.replace(old, new)
        if modname.endswith("optimization"):
            old_cls = mod.OptimizationMethods
            exec(compile(src, mod.__file__, "exec"), mod.__dict__)
            for a in ("jacobian", "findroot", "multiplicity"):
                setattr(old_cls, a, getattr(mod, a))
            mod.OptimizationMethods = old_cls
        else:
            exec(compile(src, mod.__file__, "exec"), mod.__dict__)


def patch_diff(name):
    """unified diff of a patch against /repo (for the report)"""
    import difflib, importlib
    modname, subs = PATCHES[name]
    path = os.path.join(REPO, modname.replace(".", "/") + ".py")
    a = open(path).read()
    b = a
    for old, new in subs:
        b = b.replace(old, new)
    rel = os.path.relpath(path, REPO)
    return "".join(difflib.unified_diff(a.splitlines(True), b.splitlines(True), "a/" + rel, "b/" + rel, n=2))


# --------------------------------------------------------------------------------------
# exact polynomial algebra (Gaussian rationals as pairs of Fractions)
# --------------------------------------------------------------------------------------

def G(a, b=0):
    return (Fraction(a), Fraction(b))


def gadd(x, y):
    return (x[0] + y[0], x[1] + y[1])


def gmul(x, y):
    return (x[0] * y[0] - x[1] * y[1], x[0] * y[1] + x[1] * y[0])


def pmul(p, q):
    """univariate, coefficient lists highest degree first, Gaussian rational entries"""
    r = [G(0)] * (len(p) + len(q) - 1)
    for i, a in enumerate(p):
        for j, b in enumerate(q):
            r[i + j] = gadd(r[i + j], gmul(a, b))
    return r


def ppow(p, m):
    r = [G(1)]
    for _ in range(m):
        r = pmul(r, p)
    return r


def pderiv(p):
    n = len(p) - 1
    return [gmul(G(n - i), c) for i, c in enumerate(p[:-1])] or [G(0)]


def frac_tok(q):
    q = Fraction(q)
    return "%d" % q.numerator if q.denominator == 1 else "%d/%d" % (q.numerator, q.denominator)


def gq_tok(c):
    return frac_tok(c[0]) + " " + frac_tok(c[1])


def raw_to_frac(t):
    s, m, e, b = t
    v = Fraction(m) * (Fraction(2) ** e)
    return -v if s else v


# --------------------------------------------------------------------------------------
# function specs (findroot / multiplicity)
# --------------------------------------------------------------------------------------
# {"type":"poly","coeffs":[[re,im],...]}             integers, highest degree first; "form": horner|power
# {"type":"fact","lin":[[p,q,m],...],"rest":[[re,im],...]}   f = prod (q x - p)^m * rest(x)
# {"type":"ratio","num":SPEC,"den":SPEC}
# {"type":"sys","nvars":k,"polys":[[[re,im,e1..ek],...],...]}

def spec_expand(spec):
    """exact expansion: list of (numer terms, denom terms); a term = (coef (Fraction,Fraction), exps tuple)"""
    t = spec["type"]
    if t == "poly":
        cs = [G(c[0], c[1]) for c in spec["coeffs"]]
        n = len(cs) - 1
        return [([(c, (n - i,)) for i, c in enumerate(cs)], [(G(1), (0,))])]
    if t == "fact":
        p = [G(c[0], c[1]) for c in spec["rest"]]
        for (a, b, m) in spec["lin"]:
            p = pmul(p, ppow([G(b), G(-a)], m))
        n = len(p) - 1
        return [([(c, (n - i,)) for i, c in enumerate(p)], [(G(1), (0,))])]
    if t == "ratio":
        nn = spec_expand(spec["num"])[0][0]
        dd = spec_expand(spec["den"])[0][0]
        return [(nn, dd)]
    if t == "sys":
        out = []
        for poly in spec["polys"]:
            out.append(([(G(m[0], m[1]), tuple(m[2:])) for m in poly], [(G(1), tuple([0] * spec["nvars"]))]))
        return out
    raise ValueError(t)


def spec_univariate_coeffs(spec):
    """coefficient list (highest first) when the spec is a univariate polynomial, else None"""
    if spec["type"] in ("poly", "fact"):
        terms = spec_expand(spec)[0][0]
        n = max(e[0] for _, e in terms)
        cs = [G(0)] * (n + 1)
        for c, e in terms:
            cs[n - e[0]] = gadd(cs[n - e[0]], c)
        return cs
    return None


def spec_nvars(spec):
    return spec["nvars"] if spec["type"] == "sys" else 1


def mpoly_tok(terms):
    return "%d %s" % (len(terms), " ".join(gq_tok(c) + " " + " ".join(str(e) for e in es) for c, es in terms))


def find_line(tol, xs_raw, spec, bracket_raw=None):
    """xs_raw: list of (re_raw, im_raw)"""
    fs = spec_expand(spec)
    parts = ["rc_find", frac_tok(tol), str(len(xs_raw))]
    for re, im in xs_raw:
        parts += [enc_mpf(re), enc_mpf(im)]
    parts.append(str(len(fs)))
    for nn, dd in fs:
        parts.append(mpoly_tok(nn))
        parts.append(mpoly_tok(dd))
    if bracket_raw is None:
        parts.append("-")
    else:
        parts += [enc_mpf(bracket_raw[0]), enc_mpf(bracket_raw[1])]
    return " ".join(parts)


def poly_line(tol, coeffs_exact, roots_raw):
    """coeffs_exact: list of (Fraction, Fraction); roots_raw: list of (re_raw, im_raw)"""
    parts = ["rc_poly", frac_tok(tol), str(len(coeffs_exact))]
    parts += [gq_tok(c) for c in coeffs_exact]
    parts.append(str(len(roots_raw)))
    for re, im in roots_raw:
        parts += [enc_mpf(re), enc_mpf(im)]
    return " ".join(parts)


def post_line(wp, prec, cleanup, patched, items):
    """items: list of ('R', re_raw) / ('C', re_raw, im_raw)"""
    parts = ["rc_post", str(wp), str(prec), "1" if cleanup else "0", "1" if patched else "0", str(len(items))]
    for it in items:
        if it[0] == "R":
            parts += ["R", enc_mpf(tuple(it[1])), "0:0:0:0"]
        else:
            parts += ["C", enc_mpf(tuple(it[1])), enc_mpf(tuple(it[2]))]
    return " ".join(parts)


def post_answer(items):
    return "L:" + "|".join(("R/" + enc_mpf(tuple(it[1]))) if it[0] == "R" else
                           ("C/" + enc_mpf(tuple(it[1])) + "/" + enc_mpf(tuple(it[2]))) for it in items)


# --------------------------------------------------------------------------------------
# worker side
# --------------------------------------------------------------------------------------

class JobTimeout(Exception):
    pass


def _alarm(signum, frame):
    raise JobTimeout()


def _num(mp, c):
    """[re, im] with entries int or 'p/q' string -> exact-as-possible mpmath number at the current precision"""
    if isinstance(c, dict):          # {"raw": [re_raw, im_raw]}: exact mpf/mpc from raw tuples
        re, im = [tuple(t) for t in c["raw"]]
        if im[1] == 0 and im[2] == 0 and not c.get("mpc"):
            return mp.make_mpf(re)
        return mp.make_mpc((re, im))

    def one(v):
        if isinstance(v, int):
            return v
        q = Fraction(v)
        if q.denominator == 1:
            return int(q)
        return mp.mpf(q.numerator) / q.denominator
    re, im = one(c[0]), one(c[1])
    if im == 0:
        return re
    return mp.mpc(re, im)


def _raw(mp, v):
    """exact value of a number handed to / returned by mpmath as ('R', raw) or ('C', raw, raw)"""
    from mpmath.libmp import from_int
    if isinstance(v, int):
        return ["R", list(from_int(v))]
    if hasattr(v, "_mpc_"):
        return ["C", list(v._mpc_[0]), list(v._mpc_[1])]
    if hasattr(v, "_mpf_"):
        return ["R", list(v._mpf_)]
    if isinstance(v, float):
        return ["R", list(mp.mpf(v)._mpf_)]
    if isinstance(v, complex):
        z = mp.mpc(v)
        return ["C", list(z._mpc_[0]), list(z._mpc_[1])]
    raise TypeError(type(v))


def build_callable(mp, spec):
    """the Python function handed to findroot/multiplicity (integer coefficients stay Python ints, so the only
    rounding is that of the mpmath operations)"""
    t = spec["type"]

    def cnum(c):
        return c[0] if c[1] == 0 else mp.mpc(c[0], c[1])
    if t == "poly":
        cs = [cnum(c) for c in spec["coeffs"]]
        if spec.get("form", "horner") == "horner":
            return lambda x: mp.polyval(cs, x)
        n = len(cs) - 1
        return lambda x: sum((c * x ** (n - i) for i, c in enumerate(cs) if c != 0), mp.zero)
    if t == "fact":
        rest = [cnum(c) for c in spec["rest"]]
        lin = spec["lin"]

        def f(x):
            v = mp.polyval(rest, x)
            for (a, b, m) in lin:
                v = v * (b * x - a) ** m
            return v
        return f
    if t == "ratio":
        nn = build_callable(mp, spec["num"])
        dd = build_callable(mp, spec["den"])
        return lambda x: nn(x) / dd(x)
    if t == "sys":
        polys = spec["polys"]

        def f(*x):
            out = []
            for poly in polys:
                v = mp.zero
                for m in poly:
                    term = cnum(m[:2])
                    for xi, e in zip(x, m[2:]):
                        if e:
                            term = term * xi ** e
                    v = v + term
                out.append(v)
            return out
        return f
    raise ValueError(t)


def analytic_derivs(mp, spec):
    cs = spec_univariate_coeffs(spec)
    if cs is None:
        return None, None

    def conv(p):
        out = []
        for c in p:
            assert c[0].denominator == 1 and c[1].denominator == 1
            out.append(int(c[0]) if c[1] == 0 else mp.mpc(int(c[0]), int(c[1])))
        return out
    d1 = conv(pderiv(cs))
    d2 = conv(pderiv(pderiv(cs)))
    return (lambda x: mp.polyval(d1, x)), (lambda x: mp.polyval(d2, x))


def capture_internal(mp, coeffs, kw):
    """the root objects polyroots holds immediately before the sort (working precision): the sort key
    `(abs(ctx._im(x)), ctx._re(x))` calls `_im(x)`, `_re(x)` once per root, in list order; we take the last
    block of 2*deg calls of that shape (later `_im`/`_re` calls, e.g. of a patched pairing pass, are skipped)"""
    calls = []
    ore, oim = type(mp)._re, type(mp)._im

    def _re(x):
        calls.append(("re", x))
        return ore(mp, x)

    def _im(x):
        calls.append(("im", x))
        return oim(mp, x)
    mp._re = _re
    mp._im = _im
    try:
        out = mp.polyroots(coeffs, **kw)
    finally:
        del mp._re
        del mp._im
    deg = len(coeffs) - 1
    if not deg:
        return out, []
    for i in range(len(calls) - 2 * deg, -1, -1):
        blk = calls[i:i + 2 * deg]
        if all(blk[2 * k][0] == "im" and blk[2 * k + 1][0] == "re" and blk[2 * k][1] is blk[2 * k + 1][1] for k in range(deg)):
            return out, [blk[2 * k][1] for k in range(deg)]
    raise RuntimeError("sort key calls not found")


def run_job(mp, job):
    k = job["kind"]
    mp.prec = job.get("prec", 53)
    res = {}
    if k == "polyroots":
        coeffs = [_num(mp, c) for c in job["coeffs"]]
        res["coeffs_raw"] = [_raw(mp, c) for c in coeffs]
        kw = dict(job.get("kw", {}))
        if "roots_init" in kw:
            kw["roots_init"] = [_num(mp, c) if not isinstance(c, float) else c for c in kw["roots_init"]]
        kw_err = dict(kw)
        kw_err["error"] = True
        roots, err = mp.polyroots(coeffs, **kw_err)
        res["roots"] = [_raw(mp, r) for r in roots]
        res["err"] = _raw(mp, err)
        if job.get("noerr"):
            kw2 = dict(kw)
            kw2["error"] = False
            r2 = mp.polyroots(coeffs, **kw2)
            res["roots_noerr"] = [_raw(mp, r) for r in r2]
        if job.get("capture"):
            kw3 = dict(kw)
            kw3["error"] = False
            try:
                out, post = capture_internal(mp, coeffs, kw3)
                kw4 = dict(kw3)
                kw4["cleanup"] = False
                _, pre = capture_internal(mp, coeffs, kw4)
                res["cap_out"] = [_raw(mp, r) for r in out]
                res["cap_pre"] = [_raw(mp, r) for r in pre]
                res["cap_post"] = [_raw(mp, r) for r in post]
                res["wp"] = mp.prec + kw.get("extraprec", 10)
            except RuntimeError as e:
                res["cap_error"] = str(e)
        return res
    if k == "findroot":
        spec = job["f"]
        f = build_callable(mp, spec)
        if spec["type"] == "sys" and job.get("as_list"):
            g = f
            n = len(spec["polys"])
            f = [(lambda *x, i=i: g(*x)[i]) for i in range(n)]
        x0 = [_num(mp, c) for c in job["x0"]]
        res["x0_raw"] = [_raw(mp, c) for c in x0]
        kw = {}
        if "maxsteps" in job:
            kw["maxsteps"] = job["maxsteps"]
        d1, d2 = analytic_derivs(mp, spec)
        if job.get("df"):
            kw["df"] = d1
        if job.get("d2f"):
            kw["d2f"] = d2
        if "verify" in job:
            kw["verify"] = job["verify"]
        x0arg = tuple(x0) if (len(x0) > 1 or job.get("tuple")) else x0[0]
        x = mp.findroot(f, x0arg, solver=job["solver"], **kw)
        if isinstance(x, mp.matrix):
            res["x"] = [_raw(mp, v) for v in x]
            res["shape"] = "matrix"
        else:
            res["x"] = [_raw(mp, x)]
            res["shape"] = "scalar"
        # the verify test of findroot, recomputed the same way at the same precision
        prec = mp.prec
        try:
            mp.prec = prec + 20
            tol = mp.eps * 2 ** 10
            fcall = f
            if isinstance(f, list):
                fcall = lambda *a: [fn(*a) for fn in f]
            xl = list(x) if isinstance(x, mp.matrix) else [x]
            fx = fcall(*xl)
            if isinstance(fx, (list, tuple, mp.matrix)):
                n2 = mp.norm(fx, 'inf') ** 2
            else:
                n2 = abs(fx) ** 2
            res["n2"] = _raw(mp, n2)
            res["tol"] = _raw(mp, tol)
            res["wp_ok"] = not (n2 > tol)
        finally:
            mp.prec = prec
        return res
    if k == "verify_t1":
        v = mp.make_mpf(tuple(job["v"]))

        class One:
            maxsteps = 1

            def __init__(self, ctx, f, x0, **kw):
                self.x0 = x0

            def __iter__(self):
                yield self.x0[0], mp.zero
        prec = mp.prec
        mp.prec = prec + 20
        n2 = abs(v) ** 2
        tol = mp.eps * 2 ** 10
        res["n2"] = _raw(mp, n2)
        res["tol"] = _raw(mp, tol)
        mp.prec = prec
        try:
            mp.findroot(lambda x: v, 1, solver=One, verify=job["verify"])
            res["outcome"] = "U:ok"
        except ValueError:
            res["outcome"] = "E:ValueError"
        return res
    if k == "multiplicity":
        spec = job["f"]
        f = build_callable(mp, spec)
        root = _num(mp, job["root"])
        res["root_raw"] = _raw(mp, root)
        kw = {}
        if "maxsteps" in job:
            kw["maxsteps"] = job["maxsteps"]
        if "scripted" in job:
            bits = job["scripted"]
            for i, b in enumerate(bits):
                if i == 0:
                    continue
                kw["d%df" % i] = (lambda x, b=b: mp.zero if b == "1" else mp.one)
            f0 = (lambda x: mp.zero if bits[:1] == "1" else mp.one) if bits else f
            res["m"] = mp.multiplicity(f0, root, **kw)
        else:
            res["m"] = mp.multiplicity(f, root, **kw)
        return res
    if k == "d2f":
        from mpmath.calculus.optimization import MNewton, Halley
        cls = MNewton if job.get("cls", "mnewton") == "mnewton" else Halley
        A = lambda x: x
        B = lambda x: x
        kw = {}
        if job["has_df"]:
            kw["df"] = A
        if job["has_d2f"]:
            kw["d2f"] = B
        try:
            s = cls(mp, (lambda x: x), [mp.mpf(1)], **kw)
            res["src"] = "S:userDf" if s.d2f is A else ("S:userD2f" if s.d2f is B else "S:numeric")
        except KeyError:
            res["src"] = "S:KeyError"
        return res
    if k == "mstep":
        from mpmath.calculus.optimization import MNewton
        vals = [Fraction(v) for v in job["vals"]]   # x fx dfx d2fx (dyadic)
        mp.prec = 400
        x, fx, dfx, d2fx = [mp.mpf(v.numerator) / v.denominator for v in vals]
        s = MNewton(mp, (lambda t: fx), [x], df=(lambda t: dfx))
        s.d2f = lambda t: d2fx
        it = iter(s)
        try:
            next(it)
            res["outcome"] = "S:step"
        except StopIteration:
            res["outcome"] = "S:stop"
        except ZeroDivisionError:
            res["outcome"] = "E:ZeroDivisionError"
        return res
    raise ValueError("unknown job kind %r" % k)


def worker_main(argv):
    os.environ.setdefault("MPMATH_NOGMPY", "1")
    if REPO not in sys.path:
        sys.path.insert(0, REPO)
    import mpmath
    apply_patches([argv[i + 1] for i, a in enumerate(argv) if a == "--patch"])
    mp = mpmath.mp
    signal.signal(signal.SIGALRM, _alarm)
    for line in sys.stdin:
        line = line.strip()
        if not line:
            continue
        job = json.loads(line)
        t0 = time.time()
        out = {"id": job["id"]}
        try:
            signal.setitimer(signal.ITIMER_REAL, job.get("timeout", 10))
            try:
                out.update(run_job(mp, job))
                out["status"] = "ok"
            finally:
                signal.setitimer(signal.ITIMER_REAL, 0)
        except JobTimeout:
            out["status"] = "timeout"
        except Exception as e:  # noqa
            out["status"] = "exc"
            out["exc"] = type(e).__name__
            out["msg"] = str(e)[:200]
        finally:
            mp.prec = 53
            for a in ("_re", "_im"):
                if a in mp.__dict__:
                    del mp.__dict__[a]
        out["t"] = round(time.time() - t0, 3)
        sys.stdout.write(json.dumps(out) + "\n")
        sys.stdout.flush()


# --------------------------------------------------------------------------------------
# parent side
# --------------------------------------------------------------------------------------

def _run_chunk(jobs, patches, hard):
    cmd = [sys.executable, os.path.abspath(__file__), "--worker"]
    for p in patches:
        cmd += ["--patch", p]
    data = "".join(json.dumps(j) + "\n" for j in jobs)
    env = dict(os.environ)
    env["MPMATH_NOGMPY"] = "1"
    env["MPMATH_REPO"] = REPO
    try:
        p = subprocess.run(cmd, input=data, stdout=subprocess.PIPE, stderr=subprocess.PIPE, text=True, timeout=hard, env=env)
        out, err = p.stdout, p.stderr
    except subprocess.TimeoutExpired as e:
        out = e.stdout.decode() if isinstance(e.stdout, bytes) else (e.stdout or "")
        err = "hard timeout"
    res = {}
    for line in out.split("\n"):
        line = line.strip()
        if line.startswith("{"):
            try:
                r = json.loads(line)
                res[r["id"]] = r
            except ValueError:
                pass
    for j in jobs:
        if j["id"] not in res:
            res[j["id"]] = {"id": j["id"], "status": "timeout", "note": ("worker: " + (err or "")[-300:])}
    return res


def run_jobs(jobs, patches=(), nworkers=6):
    """run jobs in worker subprocesses; returns dict id -> result (status ok|exc|timeout)"""
    if not jobs:
        return {}
    for i, j in enumerate(jobs):
        j.setdefault("id", i)
        j.setdefault("timeout", 10)
    chunks = [jobs[i::nworkers] for i in range(nworkers)]
    chunks = [c for c in chunks if c]
    res = {}
    with ThreadPoolExecutor(max_workers=len(chunks)) as ex:
        futs = [ex.submit(_run_chunk, c, patches, 30 + sum(j["timeout"] for j in c)) for c in chunks]
        for f in futs:
            res.update(f.result())
    return res


def replay(job, patches=()):
    j = dict(job)
    j["id"] = 0
    return run_jobs([j], patches, 1)[0]


if __name__ == "__main__":
    if "--worker" in sys.argv:
        worker_main(sys.argv[1:])
    elif "--diff" in sys.argv:
        print(patch_diff(sys.argv[sys.argv.index("--diff") + 1]))
    else:
        import importlib
        sys.path.insert(0, HERE)
        C29 = importlib.import_module("props.C29")
        C29.main(sys.argv[1:])
