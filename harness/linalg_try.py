"""Development driver: python linalg_try.py <PID> <ncases> [seed] [max FAIL lines] -- runs the generated cases of props/<PID>.py\nthrough the real code and the Lean checker and prints verdict statistics (used by linalg_mutants.py)."""
import sys, json, time
import os; sys.path.insert(0, os.path.dirname(os.path.abspath(__file__)))
from common import *
import importlib
pid = sys.argv[1]; n = int(sys.argv[2]); seed = int(sys.argv[3]) if len(sys.argv) > 3 else 0
mod = importlib.import_module("props." + pid)
import linalg_ops as LA
class Ctx: pass
ctx = Ctx(); ctx.seed = seed; ctx.quick = True; ctx.replay = None; ctx.pid = pid
import_repo()
g = LA.MGen(seed * 1000003 + int(pid[1:]))
eng = LA.Engine(ctx, timeout=60.0)
for c in mod.build_cases(g, n): eng.add(c)
t0 = time.time()
out = eng.run()
print("wall", time.time() - t0, "lines", eng.nlines)
print(json.dumps(out["status"]))
print(json.dumps(out["per_site"], indent=0))
print(json.dumps(out["exceptions"]))
for f in out["failing"][:int(sys.argv[4]) if len(sys.argv) > 4 else 12]:
    print("FAIL", f["site"], f["what"], "| cls", f["input"]["cls"], "prec", f["input"]["task"]["prec"], "n", len(f["input"]["task"].get("A", [])), f["input"]["answers"])
for u in out["undecided"][:10]: print("UNDEC", u)
for u in out["noresult"][:10]: print("NORES", u["site"], u["what"], json.dumps(u["task"])[:300])
json.dump(out["failing"], open(os.path.join(os.path.dirname(os.path.dirname(os.path.abspath(__file__))), "fail_%s.json" % pid), "w"))
if pid == "C30":
    st, fl = mod.run_exact_shim(g, 300)
    print("SHIM", st)
    for f in fl[:3]:
        if f["input"]["tag"] == "exact_shim": print("FAIL", f["site"], f["what"])
