"""Mutation check for helpers_ops.py: realistic faults are planted in the RUNNING mpmath (monkey-patching, /repo is
never written) and the T1 harness must report disagreements for each of them.

usage: python helpers_mutations.py [ncases] [seed]
"""
from common import *  # noqa
import inspect, textwrap, types
import helpers_ops as H


def patched_method(cls, name, old, new):
    """return a copy of cls.name whose source has `old` replaced by `new` (must occur exactly once)"""
    f = getattr(cls, name)
    src = textwrap.dedent(inspect.getsource(f))
    assert src.count(old) == 1, (name, old, src.count(old))
    src = src.replace(old, new)
    ns = {}
    mod = sys.modules[f.__module__]
    exec(compile(src, "<mutant %s>" % name, "exec"), mod.__dict__, ns)
    return ns[name]


def patched_function(mod, name, old, new):
    f = getattr(mod, name)
    src = textwrap.dedent(inspect.getsource(f))
    assert src.count(old) == 1, (name, old, src.count(old))
    ns = {}
    exec(compile(src.replace(old, new), "<mutant %s>" % name, "exec"), mod.__dict__, ns)
    return ns[name]


def mutations():
    import_repo()
    import mpmath
    import mpmath.ctx_mp as CM
    import mpmath.ctx_mp_python as CP
    import mpmath.libmp.libmpf as L
    import mpmath.libmp.libmpc as LC
    import mpmath.libmp as LM
    import mpmath.matrices.matrices as MM
    MPC = CM.MPContext
    PY = CP.PythonMPContext
    out = []

    def setattr_mut(desc, ops, obj, name, newval, extra=()):
        out.append((desc, ops, [(obj, name, newval)] + list(extra)))

    setattr_mut("nint_distance: half-integer branch rounds down (n = man>>1)", ["nint_distance"], MPC, "nint_distance",
                patched_method(MPC, "nint_distance", "n = (man>>1)+1", "n = (man>>1)"))
    setattr_mut("nint_distance: general branch distance off by one (exp+bitcount(man)-1)", ["nint_distance"], MPC,
                "nint_distance", patched_method(MPC, "nint_distance", "re_dist = exp+bitcount(man)", "re_dist = exp+bitcount(man)-1"))
    setattr_mut("nint_distance: mpq tie test 2*r > q", ["nint_distance"], MPC, "nint_distance",
                patched_method(MPC, "nint_distance", "if 2*r >= q:", "if 2*r > q:"))
    setattr_mut("mag: mpq branch without the 1+", ["mag"], PY, "mag",
                patched_method(PY, "mag", "return 1 + bitcount(abs(p)) - bitcount(q)", "return bitcount(abs(p)) - bitcount(q)"))
    setattr_mut("mag: mpc branch max without 1+", ["mag"], PY, "mag",
                patched_method(PY, "mag", "return 1+max(ctx._mpf_mag(r), ctx._mpf_mag(i))", "return max(ctx._mpf_mag(r), ctx._mpf_mag(i))"))
    setattr_mut("isnpint: exp > 0 instead of exp >= 0", ["isnpint"], MPC, "isnpint",
                patched_method(MPC, "isnpint", "return sign and exp >= 0", "return sign and exp > 0"))
    setattr_mut("isint: gaussian flag ignored", ["isint"], PY, "isint",
                patched_method(PY, "isint", "if gaussian:", "if False:"))
    setattr_mut("isnormal: mpc with zero real part", ["isnormal"], PY, "isnormal",
                patched_method(PY, "isnormal", "if re == fzero: return im_normal", "if re == fzero: return re_normal"))
    setattr_mut("mpf_frexp: exponent off by one", ["frexp"], LM, "mpf_frexp",
                (lambda x: (lambda y, n: (L.mpf_shift(y, 1), n - 1) if x[1] and x[1] != 1 else (y, n))(*L.mpf_frexp(x))))
    # C40
    fp_dec = patched_function(L, "from_pickable", "MPZ(man, 16)", "MPZ(man, 10)")
    setattr_mut("from_pickable parses the mantissa in base 10", ["from_pickable", "pickle_mpf", "pickle_mpc"], L, "from_pickable",
                fp_dec, extra=[(CP, "from_pickable", fp_dec)])
    tp_bad = (lambda x: (x[0], hex(x[1])[2:].lstrip("f") or "0", x[2], x[3]))
    setattr_mut("to_pickable drops leading f digits", ["to_pickable", "pickle_mpf", "getstate_mpc"], L, "to_pickable", tp_bad,
                extra=[(CP, "to_pickable", tp_bad)])
    setattr_mut("matrix.copy aliases the dict", ["matrix_copy"], MM._matrix, "copy",
                patched_method(MM._matrix, "copy", "new.__data = self.__data.copy()", "new._matrix__data = self._matrix__data"),
                extra=[(MM._matrix, "__copy__", None)])
    # C09
    ff = patched_function(L, "from_float", "e-53", "e-52")
    setattr_mut("from_float: exponent e-52", ["from_float", "mpf_of_float"], L, "from_float", ff,
                extra=[(CP, "from_float", ff)])
    tf1 = patched_function(L, "to_float", "if bc > 53:", "if bc > 54:")
    setattr_mut("to_float: rounds only above 54 bits (double rounding in ldexp)", ["to_float", "float_api", "to_complex"],
                L, "to_float", tf1, extra=[(CP, "to_float", tf1), (LC, "to_float", tf1)])
    tf2 = patched_function(L, "to_float", "if sign:\n                return -math_float_inf", "if False:\n                return -math_float_inf")
    setattr_mut("to_float: overflow loses the sign", ["to_float", "float_api", "to_complex"],
                L, "to_float", tf2, extra=[(CP, "to_float", tf2), (LC, "to_float", tf2)])
    return out


def main():
    n = int(sys.argv[1]) if len(sys.argv) > 1 else 3000
    seed = int(sys.argv[2]) if len(sys.argv) > 2 else 0
    ho = H.HelperOps()
    muts = mutations()
    # baseline
    st, dis, g = H.run_t1(H.ALL_HELPER_OPS, n, seed, ho)
    print("baseline: cases %d disagreements %d" % (n, len(dis)))
    caught = 0
    for desc, ops, patches in muts:
        saved = []
        for obj, name, val in patches:
            saved.append((obj, name, obj.__dict__.get(name, getattr(obj, name)) if hasattr(obj, name) else None))
        try:
            for obj, name, val in patches:
                if val is None:
                    # alias attribute (e.g. __copy__ = copy): point it at the already patched primary
                    val = getattr(patches[0][0], patches[0][1])
                setattr(obj, name, val)
            st, dis, g = H.run_t1(ops, n, seed, ho)
        finally:
            for obj, name, val in saved:
                setattr(obj, name, val)
        print("%-75s -> %d disagreements%s" % (desc, len(dis), "" if dis else "   NOT CAUGHT"))
        caught += bool(dis)
    st, dis, g = H.run_t1(H.ALL_HELPER_OPS, n, seed, ho)
    print("baseline after restoring: disagreements %d" % len(dis))
    print("mutations caught: %d / %d" % (caught, len(muts)))


if __name__ == "__main__":
    main()
