"""Known-finding predicates for C18 / C19 / C22 (failing inputs produced by special_ops.py).
Imported at the END of findings.py (`import special_findings`)."""
from findings import predicate


# ---- C18 / C19 / C22 (special_ops.py) ----
def _frac_of(inp, i):
    from fractions import Fraction
    d = inp["driver_args"]
    return Fraction(d[i], d[i + 1])


@predicate("special_prec_ge_400")
def _special_prec_ge_400(inp):
    return int(inp.get("prec", 0)) >= 400


@predicate("polylog_s_le_minus2")
def _polylog_s_le_minus2(inp):
    return inp.get("fn") == "polylog" and int(inp["driver_args"][0]) <= -2


@predicate("polylog1_small_z")
def _polylog1_small_z(inp):
    d = inp["driver_args"]
    return inp.get("fn") == "polylog" and d[0] == 1 and abs(d[1]) * 64 <= d[2]


@predicate("ortho_zero_or_tiny_x")
def _ortho_zero_or_tiny(inp):
    d = inp["driver_args"]
    from fractions import Fraction
    x = Fraction(d[-2], d[-1])
    return bool(inp.get("reference_is_zero")) or abs(x) <= Fraction(1, 1 << 20) or x in (1, -1)


@predicate("ortho_tiny_x")
def _ortho_tiny_x(inp):
    d = inp["driver_args"]
    from fractions import Fraction
    return 0 < abs(Fraction(d[-2], d[-1])) <= Fraction(1, 1 << 20)


def _hyper_split(inp):
    from fractions import Fraction
    d = inp["driver_args"]
    na = d[0]
    A = [Fraction(d[1 + 2 * i], d[2 + 2 * i]) for i in range(na)]
    nb = d[1 + 2 * na]
    o = 2 + 2 * na
    B = [Fraction(d[o + 2 * i], d[o + 1 + 2 * i]) for i in range(nb)]
    z = Fraction(d[-2], d[-1])
    return A, B, z


@predicate("hyper_q0_terminating")
def _hyper_q0(inp):
    A, B, z = _hyper_split(inp)
    return len(B) == 0 and len(A) >= 2


@predicate("hyper_npint_denominator")
def _hyper_npint_den(inp):
    A, B, z = _hyper_split(inp)
    return any(b.denominator == 1 and b <= 0 for b in B)


@predicate("hyp2f1_z_eq_1")
def _hyp2f1_z1(inp):
    A, B, z = _hyper_split(inp)
    return z == 1 and len(A) == 2 and len(B) == 1


@predicate("legendre_x_below_2pow_minus_2p_minus_30")
def _legendre_returns_x(inp):
    """legendre's early `return x` (mag(x) < -2*prec-10 at the internal precision prec = p + 10)"""
    from fractions import Fraction
    d = inp["driver_args"]
    x = Fraction(d[-2], d[-1])
    p = int(inp["prec"])
    return 0 < abs(x) < Fraction(1, 1 << (2 * p + 30))


@predicate("special_value_is_zero_hypsum_cannot_converge")
def _value_zero(inp):
    """the exact value is 0 (or the rigorous enclosure of the value contains 0): hypsum's relative convergence test can never be
    met, the function raises NoConvergence / returns nan instead of 0"""
    if inp.get("reference_is_zero"):
        return True
    e = inp.get("reference_enclosure_wp8")
    if isinstance(e, list) and len(e) == 4:
        return int(e[0]) <= 0 <= int(e[2])
    return False


@predicate("hyper_terminating_degree_ge_100")
def _hyper_big_degree(inp):
    A, B, z = _hyper_split(inp)
    if any(a.denominator == 1 and a <= -100 for a in A):
        return True
    # formally divergent type (p >= q + 2): the terms grow factorially up to the termination index, so the cancellation
    # outruns hypsum's retries already at degree 50
    return len(A) >= len(B) + 2 and any(a.denominator == 1 and a <= -50 for a in A)

