"""Shared machinery of the checks that use the verified reference evaluator (props/C12.py, C13.py, C43.py).

* function table: evaluator name, public `mp` entry point, raw libmp routine, finding site, real domain;
* adversarial generators (DESIGN.md C12): arguments nearest to k*pi/2 from the continued fraction of the VERIFIED
  pi enclosure, 1 +- 2^-k, thresholds read from /repo/mpmath/libmp/libelefun.py with `ast`, huge / tiny arguments;
* guarded calls into the real code (SIGALRM timeout: a timeout is "no result", never a pass).
"""
import os, sys, ast, signal, time
from fractions import Fraction
sys.path.insert(0, os.path.dirname(os.path.abspath(__file__)))
from common import REPO, import_repo
import encl_ops
from encl_ops import ask, acc_decide, encl_frac

mpmath = import_repo()
if hasattr(sys, 'set_int_max_str_digits'):
    sys.set_int_max_str_digits(0)
from mpmath import mp, libmp
from mpmath.libmp import from_man_exp, libelefun, libmpf

RNDS = ["n", "f", "c", "d", "u"]


class Timeout(Exception):
    pass


def _alarm(signum, frame):
    raise Timeout()


def guarded(thunk, seconds=10):
    """run thunk with a hard timeout; returns ('ok', value) | ('exc', name) | ('timeout', None)"""
    old = signal.signal(signal.SIGALRM, _alarm)
    signal.setitimer(signal.ITIMER_REAL, seconds)
    try:
        return ("ok", thunk())
    except Timeout:
        return ("timeout", None)
    except Exception as e:  # noqa
        return ("exc", type(e).__name__)
    finally:
        signal.setitimer(signal.ITIMER_REAL, 0)
        signal.signal(signal.SIGALRM, old)


def mk(m, e):
    """exact mp.mpf for m*2^e (no rounding to the context precision)"""
    return mp.make_mpf(from_man_exp(int(m), int(e)))


def tup(m, e):
    return from_man_exp(int(m), int(e))


def dy_of(t):
    """(m, e) of a finite raw mpf tuple"""
    s, man, ex, bc = t
    return (-int(man) if s else int(man), int(ex))


def is_finite_tuple(t):
    return isinstance(t, tuple) and len(t) == 4 and (t[1] != 0 or t[2] == 0)


# ------------------------------------------------------------------------------------------------------
# function table
# ------------------------------------------------------------------------------------------------------
# name: (driver fun, raw routine "module.function" or None, site of a finding, domain)
# domain: 'R' all reals, 'pos' x>0, 'nonneg' x>=0, 'unit' |x|<=1, 'openunit' |x|<1, 'ge1' x>=1, 'gt-1' x>-1,
#         'nozero' x != 0
FUN1 = {
    "exp": ("exp", "libelefun.mpf_exp", "libelefun.mpf_exp", "R"),
    "ln": ("log", "libelefun.mpf_log", "libelefun.mpf_log", "pos"),
    "sqrt": ("sqrt", "libmpf.mpf_sqrt", "libmpf.mpf_sqrt", "nonneg"),
    "atan": ("atan", "libelefun.mpf_atan", "libelefun.mpf_atan", "R"),
    "sin": ("sin", "libelefun.mpf_sin", "libelefun.mpf_cos_sin", "R"),
    "cos": ("cos", "libelefun.mpf_cos", "libelefun.mpf_cos_sin", "R"),
    "tan": ("tan", "libelefun.mpf_tan", "libelefun.mpf_tan", "R"),
    "cot": ("cot", None, "ctx_mp.cot", "nozero"),
    "sec": ("sec", None, "ctx_mp.sec", "R"),
    "csc": ("csc", None, "ctx_mp.csc", "nozero"),
    "sinh": ("sinh", "libelefun.mpf_sinh", "libelefun.mpf_cosh_sinh", "R"),
    "cosh": ("cosh", "libelefun.mpf_cosh", "libelefun.mpf_cosh_sinh", "R"),
    "tanh": ("tanh", "libelefun.mpf_tanh", "libelefun.mpf_cosh_sinh", "R"),
    "asin": ("asin", "libelefun.mpf_asin", "libelefun.mpf_asin", "unit"),
    "acos": ("acos", "libelefun.mpf_acos", "libelefun.mpf_acos", "unit"),
    "asinh": ("asinh", "libelefun.mpf_asinh", "libelefun.mpf_asinh", "R"),
    "acosh": ("acosh", "libelefun.mpf_acosh", "libelefun.mpf_acosh", "ge1"),
    "atanh": ("atanh", "libelefun.mpf_atanh", "libelefun.mpf_atanh", "openunit"),
    "sinpi": ("sinpi", "libelefun.mpf_sin_pi", "libelefun.mpf_cos_sin", "R"),
    "cospi": ("cospi", "libelefun.mpf_cos_pi", "libelefun.mpf_cos_sin", "R"),
    "expm1": ("expm1", None, "functions.expm1", "R"),
    "log1p": ("log1p", None, "functions.log1p", "gt-1"),
}
EXPLIKE = ("exp", "sinh", "cosh", "tanh", "expm1")
TRIGLIKE = ("sin", "cos", "tan", "cot", "sec", "csc")

# functions named by the property text for which the evaluator has NO verified reference (never counted as pass)
NO_REFERENCE = ["atan2", "arg", "expj", "expjpi", "acot", "asec", "acsc", "acoth", "asech", "acsch", "sech", "csch",
                "coth", "complex arguments of every function", "power/root with negative or complex base"]


def raw_fn(path):
    mod, name = path.split(".")
    return getattr({"libelefun": libelefun, "libmpf": libmpf}[mod], name)


def in_domain(dom, m, e):
    x = Fraction(m) * Fraction(2) ** e
    return {"R": True, "pos": x > 0, "nonneg": x >= 0, "unit": -1 <= x <= 1, "openunit": -1 < x < 1, "ge1": x >= 1,
            "gt-1": x > -1, "nozero": x != 0}[dom]


def call1(name, m, e, p, rnd, via):
    """value of the real code as a raw tuple: ('ok', tuple) | ('exc', name) | ('timeout', None) | ('complex', None)"""
    drv, raw, site, dom = FUN1[name]
    if via == "raw":
        x = tup(m, e)
        return guarded(lambda: raw_fn(raw)(x, p, rnd))

    def thunk():
        old = mp.prec
        try:
            mp.prec = p
            x = mk(m, e)
            f = getattr(mp, name)
            try:
                y = f(x, prec=p, rounding=rnd)
            except TypeError:
                y = f(x)
            return y
        finally:
            mp.prec = old
    st, y = guarded(thunk)
    if st != "ok":
        return (st, y)
    if isinstance(y, mp.mpc):
        return ("complex", None)
    return ("ok", y._mpf_)


def api_takes_rounding(name):
    """does mp.<name> honour prec=/rounding= keywords?  (decided by calling it, not by reading the source)"""
    f = getattr(mp, name)
    old = mp.prec
    try:
        mp.prec = 80
        x = mk(5, -3)
        if name == "acosh":
            x = mk(13, -3)
        try:
            a = f(x, prec=20, rounding="f")
            b = f(x, prec=20, rounding="c")
        except Exception:  # noqa
            return False
        return a != b and a._mpf_[3] <= 20 and b._mpf_[3] <= 20
    finally:
        mp.prec = old


# ------------------------------------------------------------------------------------------------------
# thresholds of libelefun.py (read with ast)
# ------------------------------------------------------------------------------------------------------

def elefun_thresholds():
    """integer literals compared against precision-like / magnitude-like names in libelefun.py, and the module's
    integer constants: {'prec': sorted list, 'mag': sorted list}"""
    src = open(os.path.join(REPO, "mpmath", "libmp", "libelefun.py")).read()
    tree = ast.parse(src)
    consts = {}
    for node in tree.body:
        if isinstance(node, ast.Assign) and len(node.targets) == 1 and isinstance(node.targets[0], ast.Name):
            v = node.value
            if isinstance(v, ast.Constant) and isinstance(v.value, int) and not isinstance(v.value, bool):
                consts[node.targets[0].id] = v.value
    precs, mags = set(), set()

    def val(n):
        if isinstance(n, ast.Constant) and isinstance(n.value, int) and not isinstance(n.value, bool):
            return n.value
        if isinstance(n, ast.Name) and n.id in consts:
            return consts[n.id]
        if isinstance(n, ast.UnaryOp) and isinstance(n.op, ast.USub):
            v = val(n.operand)
            return -v if v is not None else None
        return None

    def names(n):
        return {x.id for x in ast.walk(n) if isinstance(x, ast.Name)}

    for node in ast.walk(tree):
        if isinstance(node, ast.Compare):
            sides = [node.left] + list(node.comparators)
            lits = [val(s) for s in sides]
            nm = set()
            for s in sides:
                nm |= names(s)
            for v in lits:
                if v is None or abs(v) < 4 or abs(v) > 20000:
                    continue
                if any(("prec" in x.lower() or x == "wp") for x in nm):
                    precs.add(abs(v))
                if any(x in ("mag", "exp", "bc", "abs_mag", "mag2", "size") or "mag" in x for x in nm):
                    mags.add(abs(v))
    for k, v in consts.items():
        if "PREC" in k and 4 <= v <= 20000:
            precs.add(v)
    return {"prec": sorted(precs), "mag": sorted(mags), "constants": consts}


# ------------------------------------------------------------------------------------------------------
# arguments nearest to k*pi/2 from the verified pi enclosure
# ------------------------------------------------------------------------------------------------------
_PI_CACHE = {}


def pi_enclosure(bits):
    """rational enclosure (lo, hi) of pi of width < 2^-bits from the verified evaluator"""
    for b, v in _PI_CACHE.items():
        if b >= bits:
            return v
    v = encl_frac(ask(["encl pi %d 0 0" % (bits + 8)])[0])
    _PI_CACHE[bits] = v
    return v


def cf_common(lo, hi, limit=4000):
    """continued fraction terms shared by lo and hi (hence terms of every real in [lo,hi])"""
    out = []
    a, b = lo, hi
    while len(out) < limit:
        fa, fb = a.numerator // a.denominator, b.numerator // b.denominator
        if fa != fb:
            break
        out.append(fa)
        a, b = a - fa, b - fb
        if a == 0 or b == 0:
            break
        a, b = 1 / b, 1 / a
        if a > b:
            a, b = b, a
    return out


def nearest_to_k_pi_2(nb, e):
    """an nb-bit mantissa m such that m*2^e is extraordinarily close to a multiple k*(pi/2):
    m/k is the last continued-fraction convergent of pi/2^(e+1) with m < 2^nb (rigorous: the terms are common to both
    ends of the verified enclosure).  Returns (m, k) or None."""
    bits = 2 * nb + abs(e) + 64
    lo, hi = pi_enclosure(bits)
    s = Fraction(2) ** (-(e + 1))
    terms = cf_common(lo * s, hi * s)
    p0, q0, p1, q1 = 1, 0, terms[0], 1
    best = None
    for a in terms[1:]:
        if p1 > 0 and p1.bit_length() <= nb and q1 > 0:
            best = (p1, q1)
        p0, q0, p1, q1 = p1, q1, a * p1 + p0, a * q1 + q0
        if p1.bit_length() > nb:
            break
    if best is None:
        return None
    m, k = best
    # scale to exactly nb bits when the convergent is shorter (keeps the value; more trailing zeros)
    return (m, k)


# ------------------------------------------------------------------------------------------------------
# argument generator
# ------------------------------------------------------------------------------------------------------

class ArgGen:
    def __init__(self, rng, thresholds):
        self.r = rng
        self.th = thresholds
        self.hist = {}

    def note(self, k, v):
        d = self.hist.setdefault(k, {})
        d[v] = d.get(v, 0) + 1

    def prec(self, quick=True, cap=1000):
        r = self.r
        c = r.random()
        if c < 0.45:
            p = r.choice([10, 11, 15, 24, 53, 64, 100, 113])
        elif c < 0.75:
            p = r.randint(10, 250)
        elif c < 0.92:
            # straddle a threshold of the source: wp = prec + (10..30) crosses the literal
            t = r.choice([t for t in self.th["prec"] if 12 <= t <= cap + 40] or [400])
            p = max(10, min(cap, t - r.randint(-2, 32)))
            self.note("prec_threshold", t)
        else:
            p = r.randint(250, cap)
        self.note("prec", "10-24" if p <= 24 else "25-64" if p <= 64 else "65-250" if p <= 250 else ">250")
        return p

    def mant(self, nb):
        r = self.r
        if nb <= 1:
            return 1
        c = r.random()
        top = 1 << (nb - 1)
        if c < 0.6:
            return top | r.getrandbits(nb - 1)
        if c < 0.7:
            return top
        if c < 0.8:
            return (1 << nb) - 1
        if c < 0.9:
            return top | 1
        return top | r.getrandbits(min(8, nb - 1))

    def arg(self, name, p):
        """(m, e, shape) inside the real domain of `name`"""
        r = self.r
        dom = FUN1[name][3]
        nb = r.choice([p, p, p, 53, 24, max(1, p // 2), p + r.randint(1, 40), r.randint(1, 12)])
        m = self.mant(nb)
        nb = m.bit_length()
        c = r.random()
        if c < 0.25:
            shape, e = "ordinary", -nb + r.randint(-6, 5)
        elif c < 0.35:
            shape, e = "tiny", -nb - r.choice([p // 2, p, p + 3, 2 * p, 3 * p + 7, 1000, 4000])
        elif c < 0.45:
            shape = "huge"
            if name in EXPLIKE:
                e = -nb + r.randint(5, 18)
            elif name in TRIGLIKE or name in ("sinpi", "cospi"):
                e = -nb + r.choice([20, 40, 64, 100, 300, 1000, 4000])
            else:
                e = -nb + r.choice([20, 64, 300, 1000, 4000])
        elif c < 0.62:
            shape = "near_one"
            k = r.choice([1, 2, 3, p // 3, p // 2, p - 2, p - 1, p, p + 1, 2 * p, 3 * p, r.randint(1, 3 * p)])
            k = max(1, k)
            m, e = (1 << k) + r.choice([1, -1]), -k
        elif c < 0.8 and (name in TRIGLIKE):
            shape = "near_k_pi_2"
            nb2 = r.choice([p, 53, 24, min(p, 64)])
            e = r.randint(-nb2 - 2, -nb2 + r.choice([3, 10, 40, 200, 1000, 3900]))
            t = nearest_to_k_pi_2(nb2, e)
            if t is None:
                shape, e = "ordinary", -nb
            else:
                m = t[0] + r.choice([0, 0, 0, 1, -1])
                if m <= 0:
                    m = t[0]
        elif c < 0.8:
            shape = "mag_threshold"
            t = r.choice([t for t in self.th["mag"] if t <= 4000] or [10])
            e = r.choice([1, -1]) * t - nb + r.randint(-2, 2)
            if name in EXPLIKE and e + nb > 18:
                e = 18 - nb
            self.note("mag_threshold", t)
        elif c < 0.88:
            shape, m, e = "small_int", r.randint(0, 12), 0
        elif c < 0.93:
            shape, m, e = "half_int", r.randint(0, 1 << r.choice([3, 20, 70])), r.choice([-1, -1, -2, 0])
        else:
            shape, e = "wide_exp", r.randint(-300, 18 if name in EXPLIKE else 300) - nb
        if name in EXPLIKE and m and e + m.bit_length() > 20:
            e = 20 - m.bit_length()
        # domain repair
        if dom in ("unit", "openunit") and m and e + m.bit_length() > 0:
            if shape == "near_one" or r.random() < 0.5:
                k = max(1, r.choice([1, 2, p // 2, p - 1, p, p + 1, 2 * p, r.randint(1, 3 * p)]))
                m, e, shape = (1 << k) - 1, -k, "near_one"
            elif dom == "unit" and r.random() < 0.3:
                m, e, shape = 1, 0, "unit"
            else:
                e = -m.bit_length() - r.randint(0, 4)
        if dom == "ge1" and (m == 0 or e + m.bit_length() <= 0 or shape == "near_one"):
            if shape in ("near_one", "small_int", "half_int") or m == 0 or r.random() < 0.5:
                k = max(1, r.choice([1, 2, p // 2, p - 1, p, p + 1, 2 * p, r.randint(1, 3 * p)]))
                m, e, shape = (1 << k) + 1, -k, "near_one"
                if r.random() < 0.08:
                    m, e, shape = 1, 0, "unit"
            else:
                e = -m.bit_length() + r.randint(1, 60)
        neg = r.random() < 0.4 and dom in ("R", "unit", "openunit", "nozero", "gt-1")
        if neg:
            m = -m
        if dom == "gt-1" and m < 0 and e + (-m).bit_length() > 0:
            k = max(1, r.choice([1, 2, p // 2, p - 1, p, 2 * p]))
            m, e, shape = -((1 << k) - 1), -k, "near_minus_one"
        if dom == "pos" and m == 0:
            m, e = 1, 0
        if dom == "nozero" and m == 0:
            m, e = 1, -3
        if not in_domain(dom, m, e):
            m, e, shape = 1, -1, "fallback"
        self.note("shape", shape)
        return m, e, shape
