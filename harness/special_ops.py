"""Translation validation of the special-function sub-families of C18 (gamma family), C19 (zeta family) and
C22 (terminating hypergeometric series, orthogonal polynomials) against the verified references of
lean/MpModel/SpecRef.lean (soundness: MpProofs/SpecRef*.lean, Props/C18.lean, C19.lean, C22.lean).

Tie T2 (values): structured generator -> real mpmath function through the public `mp` API (in worker subprocesses
with a hard per-call timeout) -> exact output -> `mpdrv spec/specc` decides |y - ref| <= 2^(7-p)|ref| rigorously.
Second reference layer (lean/MpModel/SpecRef2.lean, ops `spec2/specc2/sref2`; soundness MpProofs/SpecRef2.lean,
Props/C19b.lean, Props/C22b.lean): non-terminating pFq series (exact partial sum + checked geometric tail bound),
zeta(n)/altzeta(n) at integers n proportional to the precision (direct sum + tail bound, odd n included), negative
integer degrees of legendre/chebyt/chebyu.
Third layer (harness/special_pyref.py, exact rational arithmetic, no Lean proof): polylog(s, z) = z * (hypEncl enclosure) for
tiny / ordinary dyadic z; pFq at complex arguments / parameters from the exactly summed defining series over Q(i) with a checked
tail bound, tied to hypEncl on the real and the imaginary axis in every run (run_pyref_tie).
Tie T1 (decision logic): gammaprod pole counting, hypsum's ZeroDivisionError test, _convert_param, bit-exact.

usage:  special_ops.py <C18|C19|C22|all> [ncases] [seed]
"""
import os, sys, json, time, select, subprocess, threading, random

sys.path.insert(0, os.path.dirname(os.path.abspath(__file__)))

PRECS_QUICK = [10, 11, 15, 24, 53, 53, 64, 100, 113, 200, 333, 500, 1000, 2000]
PRECS_THOROUGH = [10, 11, 12, 15, 20, 24, 31, 53, 53, 64, 65, 100, 113, 128, 200, 256, 333, 500, 777, 1000, 1500, 2000, 3000]
SLACK = 7          # |y - v| <= 2^(7-p) |v|   =>   relative error < 2^(8-p)   (specCheck_ok_strict)

# --------------------------------------------------------------------------------------
# worker: runs the real functions
# --------------------------------------------------------------------------------------

def _dec_arg(mpmath, a):
    from mpmath.libmp import from_man_exp
    mp = mpmath.mp
    k = a[0]
    if k == "int":
        return int(a[1])
    if k == "mpf":
        return mp.make_mpf(from_man_exp(int(a[1]), int(a[2])))
    if k == "mpc":    # exact (mp.mpc(x, 0) would round x to the working precision)
        return mp.make_mpc((from_man_exp(int(a[1]), int(a[2])), (0, 0, 0, 0)))
    if k == "mpci":   # complex with non-zero imaginary part
        return mp.make_mpc((from_man_exp(int(a[1]), int(a[2])), from_man_exp(int(a[3]), int(a[4]))))
    if k == "frac":
        return (int(a[1]), int(a[2]))
    if k == "fracstr":
        return "%d/%d" % (int(a[1]), int(a[2]))
    if k == "mpq":
        return mp.mpq(int(a[1]), int(a[2]))
    if k == "special":
        return {"inf": mp.inf, "ninf": mp.ninf, "nan": mp.nan, "zero": mp.zero}[a[1]]
    if k == "specialc":
        return mp.make_mpc(({"inf": mp.inf, "ninf": mp.ninf, "nan": mp.nan, "zero": mp.zero}[a[1]]._mpf_, (0, 0, 0, 0)))
    if k == "list":
        return [_dec_arg(mpmath, x) for x in a[1]]
    if k == "tuple":
        return tuple(_dec_arg(mpmath, x) for x in a[1])
    if k == "str":
        return a[1]
    raise ValueError("bad arg " + repr(a))


def _enc_val(mpmath, v):
    mp = mpmath.mp
    if isinstance(v, tuple):
        return {"t": "tuple", "v": [_enc_val(mpmath, x) for x in v]}
    if isinstance(v, bool):
        return {"t": "bool", "v": v}
    if isinstance(v, int):
        return {"t": "int", "v": int(v)}
    if isinstance(v, str):
        return {"t": "str", "v": v}
    if hasattr(v, "_mpq_"):
        return {"t": "mpq", "v": [int(v._mpq_[0]), int(v._mpq_[1])]}
    if hasattr(v, "_mpf_"):
        s, m, e, b = v._mpf_
        return {"t": "mpf", "v": [int(s), int(m), int(e), int(b)]}
    if hasattr(v, "_mpc_"):
        (s, m, e, b), (s2, m2, e2, b2) = v._mpc_
        return {"t": "mpc", "v": [int(s), int(m), int(e), int(b)], "w": [int(s2), int(m2), int(e2), int(b2)]}
    return {"t": "other", "v": repr(v)[:100]}


def worker_main():
    os.environ["MPMATH_NOGMPY"] = "1"
    from common import import_repo
    mpmath = import_repo()
    mp = mpmath.mp
    sys.stdout.write("ready\n"); sys.stdout.flush()
    for line in sys.stdin:
        line = line.strip()
        if not line:
            continue
        task = json.loads(line)
        out = {"id": task["id"]}
        try:
            mp.prec = int(task["prec"])
            args = [_dec_arg(mpmath, a) for a in task["args"]]
            fn = getattr(mp, task["fn"])
            v = fn(*args)
            out["status"] = "ok"
            out["val"] = _enc_val(mpmath, v)
            out["prec_after"] = int(mp.prec)
        except Exception as e:  # noqa
            out["status"] = "exc"
            out["exc"] = type(e).__name__
            out["msg"] = str(e)[:120]
        sys.stdout.write(json.dumps(out) + "\n")
        sys.stdout.flush()


class _Worker:
    def __init__(self, extra_path=None):
        self.p = None
        self.extra_path = extra_path

    def start(self):
        env = dict(os.environ)
        env["MPMATH_NOGMPY"] = "1"
        env["PYTHONHASHSEED"] = "0"
        self.p = subprocess.Popen([sys.executable, os.path.abspath(__file__), "--worker"], stdin=subprocess.PIPE,
                                  stdout=subprocess.PIPE, stderr=subprocess.DEVNULL, env=env, text=True, bufsize=1)
        rl, _, _ = select.select([self.p.stdout], [], [], 180)     # interpreter start + import of mpmath (loaded machine)
        if not rl or self.p.stdout.readline().strip() != "ready":
            self.stop()

    def stop(self):
        if self.p is not None:
            try:
                self.p.kill(); self.p.wait(timeout=5)
            except Exception:  # noqa
                pass
            self.p = None

    def call(self, task, timeout):
        if self.p is None or self.p.poll() is not None:
            self.start()
        if self.p is None:
            return {"id": task["id"], "status": "crash"}
        try:
            self.p.stdin.write(json.dumps(task) + "\n"); self.p.stdin.flush()
        except (BrokenPipeError, OSError):
            self.stop()
            return {"id": task["id"], "status": "crash"}
        rl, _, _ = select.select([self.p.stdout], [], [], timeout)
        if not rl:
            self.stop()
            return {"id": task["id"], "status": "timeout"}
        line = self.p.stdout.readline()
        if not line:
            self.stop()
            return {"id": task["id"], "status": "crash"}
        return json.loads(line)


def run_pool(tasks, nworkers=6, timeout=10.0, budget=None):
    results = {}
    t0 = time.time()
    lanes = [tasks[i::nworkers] for i in range(nworkers)]

    def lane(ts):
        w = _Worker()
        try:
            for t in ts:
                if budget is not None and time.time() - t0 > budget:
                    results[t["id"]] = {"id": t["id"], "status": "not-run"}
                    continue
                results[t["id"]] = w.call(t, t.get("timeout", timeout))
        finally:
            w.stop()

    threads = [threading.Thread(target=lane, args=(l,)) for l in lanes if l]
    for th in threads: th.start()
    for th in threads: th.join()
    return results


def ask_driver(lines, nproc=4, timeout=3000):
    """batch the request lines over `nproc` mpdrv processes; answers in order"""
    from common import MPDRV, InfraError
    if not lines:
        return []
    if not os.path.exists(MPDRV):
        raise InfraError("mpdrv not built")
    chunks = [lines[i::nproc] for i in range(nproc)]
    outs = [None] * nproc

    def go(i):
        if not chunks[i]:
            outs[i] = []
            return
        p = subprocess.run([MPDRV], input="\n".join(chunks[i]) + "\n", stdout=subprocess.PIPE,
                           stderr=subprocess.PIPE, text=True, timeout=timeout)
        o = p.stdout.split("\n")
        if o and o[-1] == "":
            o.pop()
        outs[i] = o

    ths = [threading.Thread(target=go, args=(i,)) for i in range(nproc)]
    for t in ths: t.start()
    for t in ths: t.join()
    res = [None] * len(lines)
    for i in range(nproc):
        if outs[i] is None or len(outs[i]) != len(chunks[i]):
            raise InfraError("mpdrv answered %s lines for %d requests" % (None if outs[i] is None else len(outs[i]), len(chunks[i])))
        for j, a in enumerate(outs[i]):
            res[i + j * nproc] = a
    return res


# --------------------------------------------------------------------------------------
# argument helpers
# --------------------------------------------------------------------------------------

def dyadic(num, den):
    """(man, exp) of num/den with den a power of two"""
    e = den.bit_length() - 1
    assert den == 1 << e
    return num, -e


def real_arg(num, den, ctype=False):
    m, e = dyadic(num, den)
    return ["mpc" if ctype else "mpf", m, e]


def half_arg(h, ctype=False, as_int_ok=True, r=None):
    """argument h/2"""
    if h % 2 == 0 and as_int_ok and not ctype and r is not None and r.random() < 0.4:
        return ["int", h // 2]
    return ["mpc" if ctype else "mpf", h, -1]


def rand_dyadic(r, lo=-4, hi=4, maxden_log=6):
    """random dyadic rational num/2^k"""
    k = r.choice([0, 1, 1, 2, 3, maxden_log])
    den = 1 << k
    num = r.randint(lo * den, hi * den)
    return num, den


def rand_rat(r, lo=-4, hi=4):
    """small rational p/q, q in {1,2,3,4,5,7}"""
    q = r.choice([1, 1, 2, 3, 3, 4, 5, 7])
    p = r.randint(lo * q, hi * q)
    return p, q


def param_arg(p, q, r, tuples=True):
    """a hypergeometric / polynomial parameter p/q as the API accepts it ((p, q) tuples and 'p/q' strings only for
    the hypergeometric functions)"""
    if q & (q - 1) == 0:   # dyadic: int, mpf or tuple
        c = r.random()
        if p % q == 0 and c < 0.5:
            return ["int", p // q]
        if c < 0.8 or not tuples:
            m, e = dyadic(p, q)
            return ["mpf", m, e]
        return ["frac", p, q]
    return ["frac", p, q] if r.random() < 0.8 else ["fracstr", p, q]


class Case:
    __slots__ = ("fn", "args", "prec", "fam", "dargs", "tag", "ctype", "timeout", "op2", "post")

    def __init__(self, fn, args, prec, fam, dargs, tag, ctype=False, timeout=None, op2=False, post=None):
        self.fn, self.args, self.prec, self.fam, self.dargs, self.tag, self.ctype, self.timeout = fn, args, prec, fam, dargs, tag, ctype, timeout
        self.op2 = op2      # decided by the `spec2/specc2/sref2` ops (MpModel/SpecRef2.lean)
        # post: None, or how the reference is assembled from the driver's answers / decided in exact rational arithmetic
        #   {"mode": "scale", "z": (num, den), "fam": driver family, "dargs": [...]}   value = z * (driver reference)
        #   {"mode": "cx", "A": [...], "B": [...], "z": (re, im)}                       special_pyref.hyp_series_disc
        self.post = post


# --------------------------------------------------------------------------------------
# generators
# --------------------------------------------------------------------------------------

def pick_prec(r, quick, big=False):
    ps = PRECS_QUICK if quick else PRECS_THOROUGH
    p = r.choice(ps)
    if big and p > 1000 and quick:
        p = r.choice([53, 200, 1000])
    return p


def gen_half(r, quick):
    """an integer h (argument h/2) with a size class"""
    c = r.random()
    if c < 0.35:
        return r.randint(-60, 80), "small"
    if c < 0.55:
        return r.randint(-2000, 4000), "medium"
    if c < 0.70:
        return r.choice([-1, 1]) * r.randint(4000, 40000), "large"
    if c < 0.80:
        h = r.choice([200000, 200001, 199999, 2 * 10 ** 5 + 7, 65536 * 2, 65536 * 2 + 1, 10 ** 6, 10 ** 6 + 1])
        return h, "huge"
    if c < 0.90:
        return -2 * r.randint(0, 3000), "pole"
    return r.choice([1, 2, 3, 4, -1, -3, 0, 5, 6, 7]), "tiny"


def gen_C18(r, quick):
    fn = r.choice(["gamma", "gamma", "rgamma", "rgamma", "loggamma", "factorial", "fac2", "binomial", "binomial",
                   "rf", "ff", "beta", "gammaprod", "harmonic", "superfac", "hyperfac", "barnesg"])
    ct = r.random() < 0.25
    if fn in ("gamma", "rgamma", "loggamma", "factorial"):
        h, cls = gen_half(r, quick)
        if fn == "factorial":
            h -= 2 if r.random() < 0.5 else 0
        if fn == "loggamma" and h <= 0 and cls != "pole":
            h = -h + 1
        p = pick_prec(r, quick, big=(cls == "huge"))
        return Case(fn, [half_arg(h, ct, r=r)], p, fn, [h], cls, ct)
    if fn == "fac2":
        n = r.choice([r.randint(0, 40), r.randint(0, 400), r.randint(400, 6000)])
        return Case(fn, [["mpc", n, 0] if ct else ["int", n]], pick_prec(r, quick), fn, [n], "n<=%d" % (40 if n <= 40 else 400 if n <= 400 else 6000), ct)
    if fn == "binomial":
        c = r.random()
        if c < 0.35:
            n = r.choice([r.randint(0, 30), r.randint(0, 300), r.randint(300, 20000)])
            k = r.choice([r.randint(0, n + 3), r.randint(0, min(n, 12)), max(0, n - r.randint(0, 5)), n // 2])
            return Case(fn, [["int", n], ["int", k]], pick_prec(r, quick), fn, [n, 1, k], "nat", False)
        if c < 0.55:
            n = -r.randint(1, 60)
            k = r.randint(0, 40)
            return Case(fn, [["int", n], ["int", k]], pick_prec(r, quick), fn, [n, 1, k], "negint", False)
        num, den = rand_dyadic(r, -30, 30)
        k = r.randint(0, 40)
        return Case(fn, [real_arg(num, den, ct), ["int", k]], pick_prec(r, quick), fn, [num, den, k], "dyadic", ct)
    if fn in ("rf", "ff"):
        c = r.random()
        if c < 0.35:
            num, den = r.randint(-40, 40), 1
            tag = "int"
        else:
            num, den = rand_dyadic(r, -30, 30)
            tag = "dyadic"
        n = r.choice([r.randint(0, 12), r.randint(0, 80)])
        a0 = ["int", num] if (den == 1 and not ct and r.random() < 0.5) else real_arg(num, den, ct)
        return Case(fn, [a0, ["int", n]], pick_prec(r, quick), fn, [num, den, n], tag, ct)
    if fn == "beta":
        h1 = r.randint(-40, 120)
        h2 = r.randint(-40, 120)
        if r.random() < 0.2:
            h1, h2 = r.randint(1, 20000), r.randint(1, 20000)
        tag = "pos" if h1 > 0 and h2 > 0 else "mixed"
        return Case(fn, [half_arg(h1, ct, r=r), half_arg(h2, ct, r=r)], pick_prec(r, quick), fn, [h1, h2], tag, ct)
    if fn == "gammaprod":
        na, nb = r.randint(0, 3), r.randint(0, 3)
        def hh():
            return r.choice([r.randint(-12, 30), r.randint(-12, 30), -2 * r.randint(0, 6), r.randint(1, 3000)])
        A = [hh() for _ in range(na)]
        B = [hh() for _ in range(nb)]
        return Case(fn, [["list", [half_arg(h, False, r=r) for h in A]], ["list", [half_arg(h, False, r=r) for h in B]]],
                    pick_prec(r, quick), fn, [na] + A + [nb] + B, "lists", False)
    if fn == "harmonic":
        n = r.choice([r.randint(0, 30), r.randint(0, 3000), r.randint(3000, 100000)])
        return Case(fn, [["mpc", n, 0] if ct else ["int", n]], pick_prec(r, quick), fn, [n], "n<=30" if n <= 30 else "n<=3000" if n <= 3000 else "n<=1e5", ct)
    if fn in ("superfac", "hyperfac"):
        n = r.choice([r.randint(0, 12), r.randint(0, 60), r.randint(60, 150)])
        return Case(fn, [["int", n]], pick_prec(r, quick, big=True), fn, [n], "n<=12" if n <= 12 else "n<=60" if n <= 60 else "n<=150", False, timeout=30)
    if fn == "barnesg":
        n = r.choice([r.randint(-5, 12), r.randint(0, 60), r.randint(60, 150)])
        return Case(fn, [["mpc", n, 0] if ct else ["int", n]], pick_prec(r, quick, big=True), fn, [n], "n<=12" if n <= 12 else "n<=60" if n <= 60 else "n<=150", ct, timeout=30)
    raise AssertionError(fn)


def gen_unit_dyadic(r):
    """a dyadic z with |z| < 1: ordinary, near ±1, near 0"""
    c = r.random()
    if c < 0.5:
        k = r.choice([1, 2, 3, 4, 6, 10])
        den = 1 << k
        return r.randint(-den + 1, den - 1), den
    if c < 0.75:
        k = r.choice([3, 8, 20, 40])
        den = 1 << k
        return r.choice([1, -1]) * (den - r.choice([1, 1, 3])), den
    k = r.choice([8, 30, 100])
    return r.choice([1, -1, 3]), 1 << k



# --------------------------------------------------------------------------------------
# C19: integer arguments at the precision-proportional switch-overs of mpf_zeta_int / mpf_zeta / mpc_zeta
# --------------------------------------------------------------------------------------
_ZETA_RATIOS = None


def zeta_switch_ratios():
    """the ratios c for which the zeta code of libmp/gammazeta.py switches algorithm at s ~ c*wp: every numeric literal
    in mpf_zeta_int, mpf_zeta, mpc_zeta that multiplies / divides / is compared with a precision-like quantity, read
    from the source of the tree under test with `ast` (c and 1/c, kept when in [0.03, 1.25]); plus c = 1 and c = 1/2 for
    the literal-free tests `s >= wp` and `wp - s*2`.  Returns a sorted list of Fractions."""
    global _ZETA_RATIOS
    if _ZETA_RATIOS is not None:
        return _ZETA_RATIOS
    import ast
    from fractions import Fraction
    from common import REPO
    src = open(os.path.join(REPO, "mpmath", "libmp", "gammazeta.py")).read()
    tree = ast.parse(src)
    lits = set()
    for node in tree.body:
        if isinstance(node, ast.FunctionDef) and node.name in ("mpf_zeta_int", "mpf_zeta", "mpc_zeta"):
            for sub in ast.walk(node):
                if isinstance(sub, (ast.BinOp, ast.Compare)):
                    sides = [sub.left, sub.right] if isinstance(sub, ast.BinOp) else [sub.left] + list(sub.comparators)
                    names = {x.id for sd in sides for x in ast.walk(sd) if isinstance(x, ast.Name)}
                    if not any(("prec" in x.lower() or x in ("wp", "s", "m", "n")) for x in names):
                        continue
                    for sd in sides:
                        if isinstance(sd, ast.Constant) and isinstance(sd.value, (int, float)) and not isinstance(sd.value, bool):
                            lits.add(Fraction(str(sd.value)))
    out = {Fraction(1), Fraction(1, 2)}
    for v in lits:
        for c in ([v, 1 / v] if v else []):
            if Fraction(3, 100) <= c <= Fraction(5, 4):
                out.add(c)
    _ZETA_RATIOS = sorted(out)
    return _ZETA_RATIOS


ZETA_SWITCH_PRECS = [100, 160, 250, 300, 333, 400, 500, 640, 800, 1000, 1200]


def zetasum_feasible(s, prec):
    """the direct-sum enclosure of MpModel/SpecRef2.lean (zetaEncl) needs at most 2^13 terms at the first working precision"""
    return s >= 2 and (prec + 32 + 2 + (s - 2)) // (s - 1) <= 13


def gen_zeta_switch(r, quick, ct):
    """zeta(n) / altzeta(n), integer n = c*wp + d for a switch-over ratio c of the code (wp = p + 20 and wp = p), small d
    of both signs, or n strictly between two consecutive switch-overs; p in 100..1200"""
    from fractions import Fraction
    ratios = zeta_switch_ratios()
    p = r.choice(ZETA_SWITCH_PRECS)
    fn = "altzeta" if r.random() < 0.25 else "zeta"
    i = r.randrange(len(ratios))
    c = ratios[i]
    wp = p + r.choice([20, 20, 20, 0, 40])
    if r.random() < 0.7:
        n = int(c * wp) + r.choice([-3, -2, -1, 0, 0, 1, 1, 2, 3, 5, 8])
        tag = "n~%.3f*wp" % float(c)
    else:
        c2 = ratios[i + 1] if i + 1 < len(ratios) else c * Fraction(5, 4)
        n = r.randint(int(c * wp), max(int(c * wp), int(c2 * wp)))
        tag = "n in (%.3f,%.3f)*wp" % (float(c), float(c2))
    if r.random() < 0.6:
        n += n & 1       # the closed form decides even n when the direct sum needs too many terms
    n = max(2, n)
    a = ["mpc", n, 0] if ct else (["int", n] if r.random() < 0.5 else ["mpf", n, 0])
    if zetasum_feasible(n, p):
        return Case(fn, [a], p, fn + "sum", [n], tag, ct, op2=True)
    return Case(fn, [a], p, fn, [n], tag + " (closed form)", ct)


def polyser_dargs(s, zn, zd):
    """Li_s(z) = z * (s+1)F(s)(1,..,1; 2,..,2; z)  [z^k/k^s = z * z^(k-1) (1)_(k-1)^(s+1) / ((2)_(k-1)^s (k-1)!)]:
    the driver arguments of the `hypser` reference of Li_s(z)/z"""
    return [s + 1] + [1, 1] * (s + 1) + [s] + [2, 1] * s + [zn, zd]


POLYSER_ZMAX = (13, 16)     # hypEncl's fuel (4 wp terms) reaches 2^-wp for |z| <= 2^(-1/4); 13/16 is inside, beyond polylog's 0.75


def gen_polyser(r, quick, ct):
    """polylog(s, z), integer s >= 2, dyadic 0 < |z| <= 13/16, decided against z * (s+1)F(s)(1..;2..;z) (SpecRef2.hypEncl):
    * z = +-2^-k, +-m 2^-k (m small odd) and full-length mantissas times 2^-k with k uniform in 1..2p+24: Li_s(z) ~ z is
      as small as one likes while polylog_series' stopping tolerance is the ABSOLUTE eps = 2^-(p+10) -- every position of
      the first neglected term z^j/j^s relative to eps and to eps*|z| is visited, down to |z| < eps;
    * ordinary z, and z at / on both sides of the switch |z| = 0.75 to polylog_unitcircle (p <= 333 there)."""
    from fractions import Fraction
    c = r.random()
    s = r.choice([2, 2, 3, 3, 4, 5, 6, 7, 9, r.randint(10, 60)])
    if c < 0.75:
        p = pick_prec(r, quick)
        k = r.randint(1, 2 * p + 24)
        c2 = r.random()
        if c2 < 0.5:
            m, tag = 1, "z=+-2^-k"
        elif c2 < 0.75:
            m, tag = r.choice([3, 5, 7, 11, 255, 257]), "z=+-m*2^-k"
        else:
            nb = r.choice([p, 53, 24])
            m, tag = (1 << (nb - 1)) | r.getrandbits(nb - 1) | 1, "z full mantissa*2^-k"
            k += nb
        z = Fraction(r.choice([1, -1]) * m, 1 << k)
        tag += " k<=p" if z.denominator <= m << p else (" p<k<=p+10" if z.denominator <= m << (p + 10) else " k>p+10")
    else:
        p = r.choice([10, 15, 24, 53, 53, 64, 100, 113, 200, 333])
        if r.random() < 0.5:
            j = r.choice([2, 3, 4, 6, 10, 20, 40])
            z = r.choice([1, -1]) * (Fraction(3, 4) + r.choice([0, 1, -1, 1, -1]) * Fraction(1, 1 << j))
            tag = "z~+-3/4"
        else:
            while True:
                z = Fraction(*gen_unit_dyadic(r))
                if z != 0 and abs(z) <= Fraction(*POLYSER_ZMAX):
                    break
            tag = "z ordinary"
        if abs(z) > Fraction(*POLYSER_ZMAX):
            z = Fraction(3, 4) * (1 if z > 0 else -1)
    zn, zd = z.numerator, z.denominator
    sa = ["int", s] if r.random() < 0.7 else ["mpf", s, 0]
    return Case("polylog", [sa, real_arg(zn, zd, ct)], p, "polyser", [s, zn, zd], tag, ct, op2=True,
                post={"mode": "scale", "z": (zn, zd), "fam": "hypser", "dargs": polyser_dargs(s, zn, zd)})


def gen_C19(r, quick):
    fn = r.choice(["zeta", "zeta", "altzeta", "hurwitz", "bernpoly", "bernpoly", "eulerpoly", "polylog", "polylog", "zeta-switch",
                   "polyser", "polyser"])
    ct = r.random() < 0.25
    if fn == "zeta-switch":
        return gen_zeta_switch(r, quick, ct)
    if fn == "polyser":
        return gen_polyser(r, quick, ct)
    if fn in ("zeta", "altzeta"):
        c = r.random()
        if c < 0.45:
            s = 2 * r.choice([r.randint(1, 12), r.randint(1, 60), r.randint(60, 160)])
            tag = "even"
        elif c < 0.9:
            s = -r.choice([r.randint(0, 12), r.randint(0, 80), r.randint(80, 260)])
            tag = "nonpos"
        elif c < 0.95:
            s, tag = 1, "pole"
        else:
            s, tag = 2 * r.randint(1, 30) + 1, "odd(outside)"
        a = ["mpc", s, 0] if ct else (["int", s] if r.random() < 0.5 else ["mpf", s, 0])
        return Case(fn, [a], pick_prec(r, quick), fn, [s], tag, ct)
    if fn == "hurwitz":
        s = 2 * r.choice([r.randint(1, 6), r.randint(1, 30)])
        a = r.choice([r.randint(1, 12), r.randint(1, 200), r.randint(200, 3000)])
        sa = ["mpc", s, 0] if ct else ["int", s]
        return Case("zeta", [sa, ["int", a]], pick_prec(r, quick), "hurwitz", [s, a], "a<=12" if a <= 12 else "a<=200" if a <= 200 else "a<=3000", ct)
    if fn in ("bernpoly", "eulerpoly"):
        n = r.choice([r.randint(0, 8), r.randint(0, 40), r.randint(40, 120)])
        c = r.random()
        if c < 0.5:
            num, den = rand_dyadic(r, -3, 3)
            tag = "x small"
        elif c < 0.7:
            num, den = r.choice([(0, 1), (1, 1), (1, 2), (-1, 1), (1, 4), (3, 4), (2, 1)])
            tag = "x special"
        else:
            num, den = rand_dyadic(r, -200, 200, 3)
            tag = "x large"
        return Case(fn, [["int", n], real_arg(num, den, ct)], pick_prec(r, quick), fn, [n, num, den], tag, ct)
    if fn == "polylog":
        c = r.random()
        if c < 0.3:
            num, den = gen_unit_dyadic(r)
            return Case(fn, [["int", 1], real_arg(num, den, ct)], pick_prec(r, quick), fn, [1, num, den], "s=1", ct)
        if c < 0.45:
            s = 2 * r.randint(1, 40)
            return Case(fn, [["int", s], ["mpc", 1, 0] if ct else ["int", 1]], pick_prec(r, quick), fn, [s, 1, 1], "s=2k,z=1", ct)
        if c < 0.92:
            n = r.choice([r.randint(0, 6), r.randint(0, 40), r.randint(40, 90)])
            num, den = gen_unit_dyadic(r)
            return Case(fn, [["int", -n], real_arg(num, den, ct)], pick_prec(r, quick), fn, [-n, num, den], "s<=0", ct)
        s = r.randint(2, 9)
        num, den = gen_unit_dyadic(r)
        return Case(fn, [["int", s], real_arg(num, den, ct)], pick_prec(r, quick), fn, [s, num, den], "generic(outside)", ct)
    raise AssertionError(fn)


def gen_z(r):
    """dyadic argument of a terminating series: inside, on and outside the unit disk"""
    c = r.random()
    if c < 0.35:
        return gen_unit_dyadic(r)
    if c < 0.5:
        return r.choice([(1, 1), (-1, 1), (1, 2), (2, 1), (-2, 1), (0, 1)])
    if c < 0.85:
        return rand_dyadic(r, -40, 40, 4)
    return rand_dyadic(r, -3000, 3000, 2)



# --------------------------------------------------------------------------------------
# C22: non-terminating series (decided by the exact partial sum + checked geometric tail bound of SpecRef2.hypEncl)
# --------------------------------------------------------------------------------------
LN2_NUM, LN2_DEN = 45426, 65536      # ~ ln 2 (only used to CHOOSE arguments)


def rand_param(r, lo=-6, hi=12, positive=False):
    """a rational parameter that is not a non-positive integer"""
    while True:
        pq = rand_rat(r, 0 if positive else lo, hi)
        if pq[0] % pq[1] == 0 and pq[0] <= 0:
            continue
        if positive and pq[0] <= 0:
            continue
        return pq


def rand_param_R(r, lo=-6, hi=12, positive=False):
    """a dyadic parameter odd/2^k, k >= 5: passed as an exact mpf it is classified 'R' by _convert_param (real, neither an
    integer nor a small-denominator rational), the type whose code lines in the generated summators the Z/Q parameters
    never reach; passed as a (p, q) tuple the same value is 'Q'"""
    k = r.choice([5, 5, 6, 8, 12])
    den = 1 << k
    num = r.randint((0 if positive else lo) * den // 2, hi * den // 2 - 1) * 2 + 1
    return num, den


def rand_param_t(r, positive=False, pR=0.4):
    return rand_param_R(r, positive=positive) if r.random() < pR else rand_param(r, positive=positive)


def gen_hypser(r, quick, ct):
    """pFq with no non-positive integer parameter (the series does not terminate):
    * 1F1(b+m; b; z), m = 0..4 (Kummer: e^z times a polynomial) and generic 1F1, 0F1, 1F2, 2F2, pFp at z < 0 of large
      magnitude: the sum is 2^-L times its largest term / its first term, L ('lost bits') uniform in 2..130, i.e. the whole
      range of hypsum's cancellation detection and retry loop (extraprec 50 -> 105 -> 215), up to and beyond the switch
      to the asymptotic expansion (|z| >= 64 for 1F1); also z > 0 and small |z|;
    * Gauss type 2F1, 1F0, 3F2 at dyadic |z| <= 3/4."""
    from fractions import Fraction
    shape = r.choice(["kummer", "kummer", "kummer", "1F1", "0F1", "1F2", "1F2", "2F2", "2F1", "2F1", "1F0", "3F2", "2F3", "2F3", "0F2", "1F3"])
    p = pick_prec(r, quick, big=True)
    # parameter TYPES: the summator is generated per type signature (Z / Q / R per parameter); with probability 1/3 every
    # parameter is R-typed (all counts of R upper vs R lower parameters: the 'cancellable' pairs and the unpaired rest)
    pR = r.choice([0.0, 0.4, 1.0])
    rp = lambda **kw: rand_param_t(r, pR=pR, **kw)
    if shape == "kummer":
        b = rp(positive=True)
        m = r.choice([0, 1, 1, 2, 2, 3, 4])
        A, B = [(b[0] + m * b[1], b[1])], [b]
    else:
        na_, nb_ = int(shape[0]), int(shape[2])
        A, B = [rp() for _ in range(na_)], [rp() for _ in range(nb_)]
    na, nb = len(A), len(B)
    if na == nb + 1:
        k = r.choice([1, 2, 3, 4, 6])
        den = 1 << k
        zn, zd = r.randint(-(3 * den) // 4, (3 * den) // 4), den
        ztag = "|z|<=3/4"
    else:
        c = r.random()
        L = r.randint(2, 130)
        if nb - na == 0:
            x8 = L * LN2_NUM * 8 // LN2_DEN                 # x = L ln 2: e^-x = 2^-L
        else:
            h = L * LN2_NUM * 8 // LN2_DEN                  # 2 sqrt(x) ~ L ln 2 (Bessel-type growth e^(2 sqrt x))
            x8 = h * h // 32
            x8 = min(x8, 8 * 4000)
        x8 = max(x8, 1)
        if r.random() < 0.5:
            x8 = (x8 // 8) * 8 or 8                          # integer argument
        if c < 0.7:
            zn, zd, ztag = -x8, 8, "z<0 lost bits %s" % ("<20" if L < 20 else "20-50" if L < 50 else "50-100" if L < 100 else ">=100")
        elif c < 0.85:
            zn, zd, ztag = x8, 8, "z>0"
        else:
            zn, zd = rand_dyadic(r, -2, 2, 6)
            ztag = "|z|<=2"
    fname = {(1, 1): "hyp1f1", (0, 1): "hyp0f1", (1, 2): "hyp1f2", (2, 2): "hyp2f2", (2, 1): "hyp2f1", (1, 0): "hyper",
             (3, 2): "hyp3f2", (2, 3): "hyp2f3", (0, 2): "hyper", (1, 3): "hyper"}[(na, nb)]
    fn = fname if r.random() < 0.75 else "hyper"
    dargs = [na]
    for (a, b) in A:
        f = Fraction(a, b); dargs += [f.numerator, f.denominator]
    dargs.append(nb)
    for (a, b) in B:
        f = Fraction(a, b); dargs += [f.numerator, f.denominator]
    f = Fraction(zn, zd)
    dargs += [f.numerator, f.denominator]
    Aa = [param_arg(a, b, r) for (a, b) in A]
    Ba = [param_arg(a, b, r) for (a, b) in B]
    za = real_arg(zn, zd, ct)
    args = [["list", Aa], ["list", Ba], za] if fn == "hyper" else Aa + Ba + [za]
    return Case(fn, args, p, "hypser", dargs, "%s %s" % (shape, ztag), ct, timeout=20, op2=True)


# --------------------------------------------------------------------------------------
# C22: complex arguments / complex parameters (decided by special_pyref: exact Gaussian-rational partial sums + tail bound)
# --------------------------------------------------------------------------------------
HYPCX_PRECS = [10, 15, 24, 53, 53, 64, 100, 113, 200, 333, 500]


def gen_typed_param(r, typ):
    """(re, im, arg) of a parameter of the given hypsum type Z / Q / R / C that is not a non-positive integer"""
    from fractions import Fraction
    if typ == "Z":
        n = r.randint(1, 12)
        return Fraction(n), Fraction(0), (["int", n] if r.random() < 0.7 else ["mpf", n, 0])
    if typ == "Q":
        while True:
            a, b = rand_rat(r, -6, 12)
            if a % b:
                break
        f = Fraction(a, b)
        if b in (2, 4) and r.random() < 0.5:
            return f, Fraction(0), ["mpf"] + list(dyadic(f.numerator, f.denominator))
        return f, Fraction(0), (["frac", a, b] if r.random() < 0.8 else ["fracstr", a, b])
    if typ == "R":
        num, den = rand_param_R(r)
        return Fraction(num, den), Fraction(0), ["mpf"] + list(dyadic(num, den))
    if typ == "C":
        k1, k2 = r.choice([0, 1, 2, 5, 6]), r.choice([0, 1, 2, 5])
        re = Fraction(r.randint(-4 << k1, 8 << k1), 1 << k1)
        im = Fraction(r.choice([1, -1]) * r.randint(1, 4 << k2), 1 << k2)
        return re, im, ["mpci", re.numerator, -(re.denominator.bit_length() - 1), im.numerator, -(im.denominator.bit_length() - 1)]
    raise AssertionError(typ)


def gen_hypcx(r, quick):
    """non-terminating pFq through the COMPLEX summators of libhyper.make_hyp_summator: complex z (both parts non-zero, purely
    imaginary) and / or complex parameters, every parameter of a drawn type Z / Q / R / C.  Type profiles: all-R (every count
    of real-typed upper vs lower parameters: 0F1 0F2 1F1 1F2 1F3 2F2 2F3 3F3 2F1 3F2), all-R with one parameter replaced,
    independent types, one complex parameter with real z.  |z| <= 1, <= 8, <= 40 (p <= q; beyond the switches to the
    asymptotic expansions), tiny, |z| <= 0.8 (p = q+1)."""
    from fractions import Fraction
    na, nb = r.choice([(0, 1), (1, 1), (1, 1), (1, 2), (1, 2), (1, 2), (2, 2), (2, 3), (2, 3), (0, 2), (1, 3), (3, 3), (2, 1), (2, 1), (3, 2)])
    prof = r.choice(["allR", "allR", "allR-1", "indep", "indep", "oneC"])
    n = na + nb
    if prof == "allR":
        types = ["R"] * n
    elif prof == "allR-1":
        types = ["R"] * n
        types[r.randrange(n)] = r.choice(["Z", "Q", "C"])
    elif prof == "indep":
        types = [r.choice(["Z", "Q", "Q", "R", "R", "R", "C"]) for _ in range(n)]
    else:
        types = [r.choice(["Z", "Q", "R", "R"]) for _ in range(n)]
        types[r.randrange(n)] = "C"
    P = [gen_typed_param(r, t) for t in types]
    A, B = P[:na], P[na:]
    has_c = "C" in types
    p = r.choice(HYPCX_PRECS)
    # argument
    def dyc(lim, k):
        return Fraction(r.randint(-lim << k, lim << k), 1 << k)
    if na == nb + 1:
        k = r.choice([2, 3, 4, 6])
        while True:
            zr, zi = dyc(1, k), dyc(1, k)
            if 0 < zr * zr + zi * zi <= Fraction(16, 25):
                break
        ztag = "|z|<=0.8"
        if zr * zr + zi * zi > Fraction(9, 25):
            p = min(p, 200)
    else:
        c = r.random()
        k = r.choice([0, 1, 3, 6])
        if c < 0.3:
            zr, zi, ztag = dyc(1, r.choice([2, 3, 6])), dyc(1, r.choice([2, 3, 6])), "|z|<=1"
        elif c < 0.65:
            zr, zi, ztag = dyc(6, k), dyc(6, k), "|z|<=8"
        elif c < 0.9:
            zr, zi, ztag = dyc(28, k), dyc(28, k), "|z|<=40"
        else:
            e = r.randint(10, p + 30)
            zr, zi, ztag = Fraction(r.choice([1, -1, 3, -5]), 1 << e), Fraction(r.choice([1, -1, 3, 7]), 1 << (e + r.randint(0, 3))), "z tiny"
    zc = r.random()
    if has_c and zc < 0.35:
        zi = Fraction(0)                     # real z: the complex-parameter / real-argument summator
        zkind = "z real" if r.random() < 0.6 else "z real(mpc)"
    elif zc < 0.5:
        zr = Fraction(0)
        zkind = "z imaginary"
    else:
        zkind = "z complex"
    if zr == 0 and zi == 0:
        zi = Fraction(1, 2)
        zkind = "z imaginary"
    if zi == 0 and zkind in ("z complex", "z imaginary"):
        zi = Fraction(1, 4)
    def de(f):
        return [f.numerator, -(f.denominator.bit_length() - 1)]
    if zkind == "z real":
        za = ["mpf"] + de(zr)
    elif zkind == "z real(mpc)":
        za = ["mpc"] + de(zr)
    else:
        za = ["mpci"] + de(zr) + de(zi)
    fname = {(1, 1): "hyp1f1", (0, 1): "hyp0f1", (1, 2): "hyp1f2", (2, 2): "hyp2f2", (2, 1): "hyp2f1", (3, 2): "hyp3f2",
             (2, 3): "hyp2f3"}.get((na, nb), "hyper")
    fn = fname if r.random() < 0.7 else "hyper"
    Aa, Ba = [x[2] for x in A], [x[2] for x in B]
    args = [["list", Aa], ["list", Ba], za] if fn == "hyper" else Aa + Ba + [za]
    dargs = [na]
    for (re, im, _) in A:
        dargs += [re.numerator, re.denominator, im.numerator, im.denominator]
    dargs.append(nb)
    for (re, im, _) in B:
        dargs += [re.numerator, re.denominator, im.numerator, im.denominator]
    dargs += [zr.numerator, zr.denominator, zi.numerator, zi.denominator]
    tag = "%dF%d %s %s %s" % (na, nb, prof, zkind, ztag)
    return Case(fn, args, p, "hypcx", dargs, tag, True, timeout=20, op2=True,
                post={"mode": "cx", "A": [(x[0], x[1]) for x in A], "B": [(x[0], x[1]) for x in B], "z": (zr, zi),
                      "types": "".join(types[:na]) + ";" + "".join(types[na:])})


def gen_small_x(r, p):
    """x = 0 exactly, or a tiny x with a full-length mantissa (between 2^-30 and far below 2^(-2p)), either sign"""
    c = r.random()
    if c < 0.4:
        return 0, 1, "x=0"
    nb = r.choice([p, 53, 24, 3])
    man = (1 << (nb - 1)) | r.getrandbits(nb - 1) | 1
    e = r.choice([r.randint(25, 60), r.randint(30, p + 40), r.randint(p + 12, 2 * p + 9), r.randint(2 * p + 12, 3 * p + 40)])
    return r.choice([1, -1]) * man, 1 << (e + nb), "x tiny"


def gen_C22(r, quick):
    fn = r.choice(["hyp2f1", "hyp2f1", "hyp1f1", "hyp1f1", "hyp2f0", "hyp3f2", "hyper", "hyper",
                   "legendre", "chebyt", "chebyu", "hermite", "laguerre", "gegenbauer", "jacobi",
                   "hypser", "hypser", "hypser", "legendre", "negdeg", "hypcx", "hypcx", "hypcx"])
    ct = r.random() < 0.2
    p = pick_prec(r, quick)
    if fn == "hypser":
        return gen_hypser(r, quick, ct)
    if fn == "hypcx":
        return gen_hypcx(r, quick)
    if fn in ("hyp2f1", "hyp1f1", "hyp2f0", "hyp3f2", "hyper"):
        n = r.choice([r.randint(0, 6), r.randint(0, 40), r.randint(40, 150)])
        if fn == "hyp2f1":
            na, nb = 2, 1
        elif fn == "hyp1f1":
            na, nb = 1, 1
        elif fn == "hyp2f0":
            na, nb = 2, 0
        elif fn == "hyp3f2":
            na, nb = 3, 2
        else:
            na, nb = r.choice([(1, 0), (1, 1), (1, 2), (2, 1), (2, 2), (2, 3), (3, 2), (3, 1), (4, 3), (2, 0), (3, 0)])
        A = [(-n, 1)]
        for _ in range(na - 1):
            if r.random() < 0.15:
                A.append((-r.randint(0, 160), 1))       # a second terminating parameter
            else:
                A.append(rand_rat(r, -6, 12))
        r.shuffle(A)
        B = []
        for _ in range(nb):
            c = r.random()
            if c < 0.12:
                B.append((-r.randint(0, n + 20), 1))    # non-positive integer denominator: pole or allowed
            elif c < 0.2:
                B.append((-n - r.randint(0, 2), 1))
            else:
                pq = rand_rat(r, -6, 12)
                B.append(pq)
        zn, zd = gen_z(r)
        if na > nb + 1 and abs(zn) > 4 * zd:
            zn, zd = gen_unit_dyadic(r)
        if na <= nb + 1 and r.random() < 0.25:
            # cancellation shape: many large terms of alternating sign (hypsum's magnitude / extraprec loop)
            n = r.randint(20, 150)
            A[[i for i, a in enumerate(A) if a[1] == 1 and a[0] <= 0][0]] = (-n, 1)
            zn, zd = r.randint(4 * 8, 64 * 8), 8
            if na == nb + 1:
                zn, zd = r.choice([(r.randint(5, 15), 16), (zn, zd)])
        from fractions import Fraction
        dargs = [na]
        for (a, b) in A:
            f = Fraction(a, b); dargs += [f.numerator, f.denominator]
        dargs.append(nb)
        for (a, b) in B:
            f = Fraction(a, b); dargs += [f.numerator, f.denominator]
        dargs += [zn, zd]
        Aa = [param_arg(a, b, r) for (a, b) in A]
        Ba = [param_arg(a, b, r) for (a, b) in B]
        za = real_arg(zn, zd, ct)
        if fn == "hyper":
            args = [["list", Aa], ["list", Ba], za]
        else:
            args = Aa + Ba + [za]
        tag = "|z|<1" if abs(zn) < zd else ("|z|=1" if abs(zn) == zd else ("|z|<=40" if abs(zn) <= 40 * zd else "|z|>40"))
        return Case(fn, args, p, "hyper", dargs, "%dF%d %s n%s" % (na, nb, tag, "<=40" if n <= 40 else ">40"), ct, timeout=20)
    n = r.choice([r.randint(0, 6), r.randint(0, 40), r.randint(40, 200)])
    c = r.random()
    if c < 0.45:
        xn, xd = gen_unit_dyadic(r)
        xt = "|x|<1"
    elif c < 0.6:
        xn, xd = r.choice([(1, 1), (-1, 1), (0, 1), (1, 2), (-1, 2)])
        xt = "x special"
    else:
        xn, xd = rand_dyadic(r, -30, 30, 4)
        xt = "|x| up to 30"
    negdeg = fn == "negdeg" or (fn in ("legendre", "chebyt", "chebyu") and r.random() < 0.35)
    if negdeg:
        # negative integer degree of the families whose representation has a reflection symmetry
        # (P_n = P_{-n-1}, T_{-n} = T_n, U_{-n-2} = -U_n), at x = 0 / tiny / ordinary
        if fn == "negdeg":
            fn = r.choice(["legendre", "legendre", "chebyt", "chebyu"])
        n = -r.choice([r.randint(1, 8), r.randint(1, 42), r.randint(42, 201)])
        if r.random() < 0.5:
            xn, xd, xt = gen_small_x(r, p)
        from fractions import Fraction
        fx = Fraction(xn, xd)
        xa = real_arg(xn, xd, ct)
        na = ["int", n] if r.random() < 0.7 else ["mpf", n, 0]
        return Case(fn, [na, xa], p, fn, [n, fx.numerator, fx.denominator], xt + " n<0", ct, timeout=20, op2=True)
    xa = real_arg(xn, xd, ct)
    nt = "n<=40" if n <= 40 else "n>40"
    if fn in ("legendre", "chebyt", "chebyu", "hermite"):
        return Case(fn, [["int", n], xa], p, fn, [n, xn, xd], xt + " " + nt, ct, timeout=20)
    if fn in ("laguerre", "gegenbauer"):
        an, ad = rand_dyadic(r, -3, 8, 3)
        return Case(fn, [["int", n], param_arg(an, ad, r, False), xa], p, fn, [n, an, ad, xn, xd], xt + " " + nt, ct, timeout=20)
    an, ad = rand_dyadic(r, -3, 8, 3)
    bn, bd = rand_dyadic(r, -3, 8, 3)
    return Case(fn, [["int", n], param_arg(an, ad, r, False), param_arg(bn, bd, r, False), xa], p, fn, [n, an, ad, bn, bd, xn, xd], xt + " " + nt, ct, timeout=20)


GENS = {"C18": gen_C18, "C19": gen_C19, "C22": gen_C22}


# --------------------------------------------------------------------------------------
# T2: values
# --------------------------------------------------------------------------------------

def _is_special(t):
    return t[1] == 0 and t[2] != 0     # inf / nan tuples: man == 0 and exp != 0


def _finite_out(res):
    """(yre, yim, is_complex) as exact Fractions when the call returned a finite mpf / mpc, else None"""
    from special_pyref import dy
    if res.get("status") != "ok":
        return None
    v = res["val"]
    if v["t"] == "mpf" and not _is_special(v["v"]):
        s, m, e, b = v["v"]
        return dy(-m if s else m, e), dy(0, 0), False
    if v["t"] == "mpc" and not _is_special(v["v"]) and not _is_special(v["w"]):
        s, m, e, b = v["v"]
        s2, m2, e2, b2 = v["w"]
        return dy(-m if s else m, e), dy(-m2 if s2 else m2, e2), True
    return None


POST_WP_EXTRA = 40      # enclosures used by the rational deciders: relative width 2^-(p+40)


def _post_line(c, res):
    """the driver request of a case whose reference is assembled outside the driver (Case.post)"""
    po = c.post
    if po["mode"] == "scale":
        da = " ".join(str(x) for x in po["dargs"])
        zn, zd = po["z"]
        if abs(zn) == 1 and res.get("status") == "ok" and res["val"]["t"] in ("mpf", "mpc"):
            # z = +-2^-k: y/z is a dyadic number, the driver decides y/z against the reference itself
            k = zd.bit_length() - 1
            v = res["val"]
            if v["t"] == "mpf" and not _is_special(v["v"]):
                s, m, e, b = v["v"]
                return "spec2 %s %s | %d %d %d %d" % (po["fam"], da, zn * (-m if s else m), e + k, c.prec, SLACK)
            if v["t"] == "mpc" and not _is_special(v["v"]) and not _is_special(v["w"]):
                s, m, e, b = v["v"]
                s2, m2, e2, b2 = v["w"]
                return "specc2 %s %s | %d %d %d %d %d %d" % (po["fam"], da, zn * (-m if s else m), e + k if m else 0,
                                                           zn * (-m2 if s2 else m2), e2 + k if m2 else 0, c.prec, SLACK)
        return "sref2 %s %s | %d" % (po["fam"], da, c.prec + POST_WP_EXTRA)
    if po["mode"] == "cx":
        return "sref2 chebyt 0 0 1 | 8"         # no driver reference: a constant request keeps the batch aligned
    raise AssertionError(po["mode"])


def _parse_P(ans):
    from special_pyref import dy
    lo_m, lo_e, hi_m, hi_e = [int(t) for t in ans[2:].split(",")]
    return dy(lo_m, lo_e), dy(hi_m, hi_e)


def _post_answer(c, res, ans):
    """final verdict of a Case.post case: 'ok' | 'violates' | 'borderline' | 'outside' | 'finite' (reference finite, the
    call gave no finite number) | the driver's own answer"""
    import special_pyref as PR
    from fractions import Fraction
    po = c.post
    y = _finite_out(res)
    if po["mode"] == "scale":
        if ans in ("ok", "violates", "borderline", "undecided", "outside", "pole") or ans.startswith("?"):
            return ans
        if not ans.startswith("P:"):
            return "outside"
        if y is None:
            return ans                      # P:...: reference finite (reported with the enclosure of value/z)
        lo, hi = _parse_P(ans)
        return PR.decide_scaled(y[0], y[1], Fraction(*po["z"]), lo, hi, c.prec, SLACK)
    if po["mode"] == "cx":
        if res.get("status") in ("timeout", "crash", "not-run"):
            return "finite"
        d = PR.hyp_series_disc(po["A"], po["B"], po["z"], c.prec + POST_WP_EXTRA)
        if d is None:
            return "outside"
        sc = c.prec + POST_WP_EXTRA + 8
        po["ref"] = {"what": "exact partial sum of the defining series (special_pyref.hyp_series_disc), value = (re + i im) * 2^-scale "
                             "up to 2^-(p+40) relative", "parameter_types": po.get("types"), "scale": sc,
                     "re": str(int(d[0] * (1 << sc))), "im": str(int(d[1] * (1 << sc))), "approx": [float(d[0]), float(d[1])]}
        if y is None:
            return "finite"
        return PR.decide_disc(y[0], y[1], d[0], d[1], d[2], c.prec, SLACK)
    raise AssertionError(po["mode"])


def run_values(pid, n, seed, quick, nworkers=6, budget=None):
    """returns (stats, failing_inputs, disagreements, samples)"""
    r = random.Random((seed, pid, "values").__repr__())
    gen = GENS[pid]
    cases = [gen(r, quick) for _ in range(n)]
    tasks = []
    for i, c in enumerate(cases):
        t = {"id": i, "fn": c.fn, "args": c.args, "prec": c.prec}
        if c.timeout:
            t["timeout"] = c.timeout
        tasks.append(t)
    results = run_pool(tasks, nworkers=nworkers, timeout=10.0 if quick else 60.0, budget=budget)
    lines, post_cases = [], []
    for i, c in enumerate(cases):
        res = results.get(i, {"status": "not-run"})
        if c.post is not None:
            lines.append(_post_line(c, res))
            post_cases.append(i)
            continue
        da = " ".join(str(x) for x in c.dargs)
        o2 = "2" if c.op2 else ""
        if res["status"] == "ok" and res["val"]["t"] == "mpf" and not _is_special(res["val"]["v"]):
            s, m, e, b = res["val"]["v"]
            lines.append("spec%s %s %s | %d %d %d %d" % (o2, c.fam, da, -m if s else m, e, c.prec, SLACK))
        elif res["status"] == "ok" and res["val"]["t"] == "mpc" and not _is_special(res["val"]["v"]) and not _is_special(res["val"]["w"]):
            s, m, e, b = res["val"]["v"]
            s2, m2, e2, b2 = res["val"]["w"]
            lines.append("specc%s %s %s | %d %d %d %d %d %d" % (o2, c.fam, da, -m if s else m, e, -m2 if s2 else m2, e2, c.prec, SLACK))
        else:
            lines.append("sref%s %s %s | 8" % (o2, c.fam, da))    # only to learn pole / outside / value
    answers = ask_driver(lines)
    # the property says "relative error below 2^(8-p)":  `ok` at slack 7 proves it;  only `violates` at slack 8
    # (|y - v| > 2^(8-p)|v|) refutes it;  anything in between is counted as undecided (borderline)
    again = [i for i in range(len(lines)) if answers[i] in ("violates", "undecided") and lines[i].startswith("spec")]
    if again:
        a2 = ask_driver([lines[i][:lines[i].rindex(" ")] + " %d" % (SLACK + 1) for i in again])
        for i, a in zip(again, a2):
            answers[i] = "violates" if a == "violates" else "borderline"
    for i in post_cases:
        answers[i] = _post_answer(cases[i], results.get(i, {"status": "not-run"}), answers[i])
    st = {"per_family": {}, "hist": {}, "evaluations": 0, "decided_ok": 0, "outside": 0, "undecided": 0, "borderline": 0,
          "timeouts": 0, "poles_agree": 0, "not_run": 0, "distinct": set()}
    fails, disagreements, samples = [], [], []
    for i, c in enumerate(cases):
        res = results.get(i, {"status": "not-run"})
        ans = answers[i]
        fam = c.fam if c.fn == c.fam or c.fam not in ("hyper", "hypser", "hypcx") else c.fam + ":" + c.fn
        pf = st["per_family"].setdefault(fam, {"calls": 0, "ok": 0, "outside": 0, "undecided": 0, "pole": 0, "timeout": 0, "violates": 0, "complex_typed": 0})
        pf["calls"] += 1
        if c.ctype:
            pf["complex_typed"] += 1
        hk = "%s|%s|p%s" % (fam, c.tag, "<=64" if c.prec <= 64 else "<=333" if c.prec <= 333 else ">333")
        st["hist"][hk] = st["hist"].get(hk, 0) + 1
        st["evaluations"] += 1
        inp = {"fn": c.fn, "args": c.args, "prec": c.prec, "family": c.fam, "driver_args": c.dargs}
        if res["status"] in ("timeout", "crash"):
            pf["timeout"] += 1; st["timeouts"] += 1
            continue
        if res["status"] == "not-run":
            st["not_run"] += 1
            continue
        if ans.startswith("?"):
            disagreements.append({"name": "driver-bad-request:" + fam, "op": fam, "line": lines[i][:300]})
            continue
        if ans == "outside":
            pf["outside"] += 1; st["outside"] += 1
            continue
        if c.fam == "hyper" and ans != "outside" and _hyper_cancels(c.dargs):
            # hyper() first removes parameters common to numerator and denominator, which for non-positive integers is a
            # different function (limit) from the terminating sum: not decided
            pf["outside"] += 1; st["outside"] += 1
            continue
        if ans == "pole" and c.fam == "hyper" and c.dargs[-2] == 0:
            pf["outside"] += 1; st["outside"] += 1     # z = 0: pFq = 1 by convention, parameters are not inspected
            continue
        if ans == "pole":
            pf["pole"] += 1
            # gamma must raise at its poles (property text); elsewhere an exception or an infinity is the agreed outcome
            if res["status"] == "exc":
                st["poles_agree"] += 1
            elif res["val"]["t"] in ("mpf", "mpc") and _is_special(res["val"]["v"]) and c.fn not in ("gamma", "factorial"):
                st["poles_agree"] += 1
            else:
                site = site_of(c) + ":pole"
                fails.append({"site": site, "what": "%s returned %s at a pole (expected an error%s)" %
                              (c.fn, json.dumps(res.get("val"))[:120], "" if c.fn in ("gamma", "factorial") else " or an infinity"),
                              "input": inp})
            continue
        # the reference is a finite value
        if ans.startswith("P:"):
            lo_m, lo_e, hi_m, hi_e = [int(t) for t in ans[2:].split(",")]
            inp["reference_enclosure_wp8"] = [lo_m, lo_e, hi_m, hi_e]
            inp["reference_is_zero"] = (lo_m == 0 and hi_m == 0)
        if res["status"] == "exc":
            fails.append({"site": site_of(c) + ":raises", "what": "%s raised %s(%s) where the function value is finite" %
                          (c.fn, res["exc"], res.get("msg", "")), "input": inp})
            continue
        v = res["val"]
        if v["t"] not in ("mpf", "mpc") or _is_special(v["v"]) or (v["t"] == "mpc" and _is_special(v["w"])):
            fails.append({"site": site_of(c) + ":nonfinite", "what": "%s returned %s where the function value is finite" %
                          (c.fn, json.dumps(v)[:120]), "input": inp})
            continue
        if res.get("prec_after") != c.prec:
            fails.append({"site": site_of(c) + ":prec", "what": "working precision changed from %d to %s" % (c.prec, res.get("prec_after")), "input": inp})
        if ans == "ok":
            pf["ok"] += 1; st["decided_ok"] += 1
            st["distinct"].add((c.fn, tuple(c.dargs), c.prec, c.ctype))
            if len(samples) < 12 and i % 37 == 0:
                samples.append({"fn": c.fn, "driver_args": c.dargs, "prec": c.prec, "complex_typed": c.ctype, "verdict": "ok"})
        elif ans in ("undecided", "borderline"):
            pf["undecided"] += 1; st["undecided"] += 1
            if ans == "borderline":
                st["borderline"] += 1
        elif ans == "violates":
            pf["violates"] += 1
            inp["output"] = v
            inp["driver_line"] = lines[i][:2000]
            if c.post is not None and c.post.get("ref"):
                inp["reference"] = c.post["ref"]
                del inp["driver_line"]
            fails.append({"site": site_of(c), "what": "%s: relative error exceeds 2^(8-p) at p=%d (decided against the exact value)" % (c.fn, c.prec),
                          "input": inp})
        else:
            disagreements.append({"name": "driver-answer:" + fam, "op": fam, "line": lines[i][:300], "model": ans})
    st["distinct"] = len(st["distinct"])
    return st, fails, disagreements, samples


SITES = {
    "gamma": "gammazeta.mpf_gamma", "rgamma": "gammazeta.mpf_gamma", "loggamma": "gammazeta.mpf_loggamma",
    "factorial": "gammazeta.mpf_gamma", "fac2": "factorials.fac2", "binomial": "factorials.binomial", "rf": "factorials.rf",
    "ff": "factorials.ff", "beta": "factorials.beta", "gammaprod": "factorials.gammaprod", "harmonic": "gammazeta.mpf_harmonic",
    "superfac": "factorials.superfac", "hyperfac": "factorials.hyperfac", "barnesg": "factorials.barnesg",
    "zeta": "zeta.zeta", "altzeta": "zeta.altzeta", "bernpoly": "zeta.bernpoly", "eulerpoly": "zeta.eulerpoly",
    "polylog": "zeta.polylog", "hyp2f1": "hypergeometric.hyp2f1", "hyp1f1": "hypergeometric.hyp1f1",
    "hyp2f0": "hypergeometric.hyp2f0", "hyp3f2": "hypergeometric.hyper", "hyper": "hypergeometric.hyper",
    "hyp0f1": "hypergeometric.hyp0f1", "hyp1f2": "hypergeometric.hyp1f2", "hyp2f2": "hypergeometric.hyp2f2",
    "hyp2f3": "hypergeometric.hyp2f3",

    "legendre": "orthogonal.legendre", "chebyt": "orthogonal.chebyt", "chebyu": "orthogonal.chebyu",
    "hermite": "orthogonal.hermite", "laguerre": "orthogonal.laguerre", "gegenbauer": "orthogonal.gegenbauer",
    "jacobi": "orthogonal.jacobi",
}


def _hyper_cancels(d):
    from fractions import Fraction
    na = d[0]
    A = [Fraction(d[1 + 2 * i], d[2 + 2 * i]) for i in range(na)]
    nb = d[1 + 2 * na]
    o = 2 + 2 * na
    B = [Fraction(d[o + 2 * i], d[o + 1 + 2 * i]) for i in range(nb)]
    return any(b in A for b in B)


def site_of(c):
    """stable site string of a case: <module>.<function>[<sub-family>]"""
    base = SITES.get(c.fn, c.fn)
    if c.fam == "hurwitz":
        return "zeta.zeta[hurwitz,a%s]" % (">1" if c.dargs[1] > 1 else "=1")
    if c.fam == "polyser":
        s_, zn, zd = c.dargs
        return "zeta.polylog[s>=2,|z|%s]" % ("<=0.75" if 4 * abs(zn) <= 3 * zd else ">0.75")
    if c.fam == "hypcx":
        return base + "[non-terminating,complex]"
    if c.fam == "polylog":
        s_, zn, zd = c.dargs
        if s_ == 1:
            return "zeta.polylog[s=1]"
        if s_ <= 0:
            return "zeta.polylog[s<=0,|z|%s]" % ("<=0.75" if 4 * abs(zn) <= 3 * zd else ">0.75")
        return "zeta.polylog[s=2k,z=1]"
    def npint(num, den, strict):
        return num % den == 0 and (num < 0 or (num == 0 and not strict))
    if c.fam == "gegenbauer" and npint(c.dargs[1], c.dargs[2], False):
        return base + "[a<=0,integer]"
    if c.fam == "jacobi" and (npint(c.dargs[1], c.dargs[2], True) or npint(c.dargs[3], c.dargs[4], True)):
        return base + "[negative-integer-parameter]"
    if c.fam == "laguerre" and npint(c.dargs[1], c.dargs[2], True):
        return base + "[negative-integer-parameter]"
    if c.fam == "hypser":
        return base + "[non-terminating]"
    if c.fam == "legendre" and c.dargs[0] < 0:
        return base + "[n<0]"
    return base


# --------------------------------------------------------------------------------------
# T1: decision logic
# --------------------------------------------------------------------------------------

def run_gpdec(n, seed, nworkers=4):
    """gammaprod pole counting, bit-exact outcome class"""
    r = random.Random((seed, "gpdec").__repr__())
    tasks, lines = [], []
    for i in range(n):
        na, nb = r.randint(0, 4), r.randint(0, 4)
        def hh():
            return r.choice([r.randint(-10, 12), -2 * r.randint(0, 5), 2 * r.randint(-6, 6), r.randint(1, 9)])
        A = [hh() for _ in range(na)]
        B = [hh() for _ in range(nb)]
        tasks.append({"id": i, "fn": "gammaprod", "prec": r.choice([15, 53, 200]),
                      "args": [["list", [half_arg(h, False, r=r) for h in A]], ["list", [half_arg(h, False, r=r) for h in B]]]})
        lines.append("gpdec %d %s %d %s" % (na, " ".join(map(str, A)), nb, " ".join(map(str, B))))
    results = run_pool(tasks, nworkers=nworkers, timeout=10.0)
    answers = ask_driver([" ".join(l.split()) for l in lines], nproc=1)
    dis, hist, skipped = [], {}, 0
    for i in range(n):
        res = results[i]
        if res["status"] in ("timeout", "crash", "not-run"):
            skipped += 1
            continue
        if res["status"] != "ok":
            impl = "exc:" + res.get("exc", res["status"])
        else:
            v = res["val"]
            if v["t"] == "mpf" and v["v"] == [0, 0, 0, 0]:
                impl = "zero"
            elif v["t"] == "mpf" and _is_special(v["v"]):
                impl = "inf" if v["v"][2] == -456 and v["v"][0] == 0 else "special"
            else:
                impl = "finite"
        hist[answers[i]] = hist.get(answers[i], 0) + 1
        if impl != answers[i]:
            dis.append({"name": "T1:gammaprod_poles", "op": "gpdec", "line": lines[i], "impl": impl, "model": answers[i]})
    return {"cases": n - skipped, "skipped_no_result": skipped, "hist": hist}, dis


def run_hyppole(n, seed, nworkers=4):
    """hypsum's pole test through direct calls of mp.hypsum"""
    r = random.Random((seed, "hyppole").__repr__())
    tasks, lines = [], []
    for i in range(n):
        p = r.randint(1, 3)
        q = r.randint(0, min(3, p + 1)) if r.random() < 0.8 else r.randint(max(0, p - 1), 3)
        if q < p - 1:
            q = p - 1
        flags, coeffs, pairs = [], [], []
        must_term = r.random() < 0.7
        for j in range(p + q):
            c = r.random()
            if c < 0.6 or (j == 0 and must_term):
                v = -r.randint(0, 8) if (r.random() < 0.6 or (j == 0 and must_term)) else r.randint(1, 6)
                flags.append("Z"); coeffs.append(["int", v]); pairs.append((1, v))
            elif c < 0.8:
                num = 2 * r.randint(-8, 8) + 1
                flags.append("Q"); coeffs.append(["mpq", num, 2]); pairs.append((0, 0))
            else:
                num = 2 * r.randint(-80, 80) + 1
                flags.append("R"); coeffs.append(["mpf", num, -5]); pairs.append((0, 0))
        z = ["mpf", r.choice([1, -1, 3]), -3]
        tasks.append({"id": i, "fn": "hypsum", "prec": 53, "timeout": 10,
                      "args": [["int", p], ["int", q], ["tuple", [["str", f] for f in flags]], ["list", coeffs], z]})
        lines.append("hyppole %d %d %s" % (p, p + q, " ".join("%d %d" % pr for pr in pairs)))
    results = run_pool(tasks, nworkers=nworkers, timeout=10.0)
    answers = ask_driver(lines, nproc=1)
    dis, hist, skipped = [], {}, 0
    for i in range(n):
        res = results[i]
        if res["status"] in ("timeout", "crash", "not-run"):
            skipped += 1
            continue
        impl = "B:1" if (res["status"] == "exc" and res["exc"] == "ZeroDivisionError" and "pole in hypergeometric" in res.get("msg", "")) else "B:0"
        hist[answers[i]] = hist.get(answers[i], 0) + 1
        if impl != answers[i]:
            dis.append({"name": "T1:hypsum_pole_logic", "op": "hyppole", "line": lines[i], "impl": impl + ":" + res["status"] + ":" + res.get("exc", ""), "model": answers[i]})
    return {"cases": n - skipped, "skipped": skipped, "hist": hist}, dis


def run_cvtparam(n, seed, nworkers=4):
    """_convert_param classification, bit-exact (tag and exact value)"""
    r = random.Random((seed, "cvtparam").__repr__())
    tasks, lines = [], []
    for i in range(n):
        c = r.random()
        if c < 0.12:
            v = r.choice([0, 1, -1, r.randint(-100, 100), r.getrandbits(80) - (1 << 79)])
            arg = ["int", v]; line = "cvtparam int %d" % v
        elif c < 0.40:
            p = r.choice([0, r.randint(-40, 40), r.getrandbits(70) - (1 << 69)])
            q = r.choice([0, 1, -1, 2, -2, 3, 4, -4, 6, 8, 16, 32, r.randint(-20, 20), r.randint(1, 1000)])
            kind = r.choice(["frac", "frac", "fracstr", "mpq"])
            if q == 0 and kind == "mpq":
                kind = "frac"
            if kind == "fracstr" and q < 0:
                kind = "frac"
            arg = [kind, p, q]; line = "cvtparam frac %d %d" % (p, q)
        elif c < 0.85:
            cc = r.random()
            if cc < 0.12:
                sp = r.choice(["inf", "ninf", "nan", "zero"])
                ctyp = r.random() < 0.3
                arg = ["specialc" if ctyp else "special", sp]
                t = {"inf": (0, 0, -456), "ninf": (1, 0, -789), "nan": (0, 0, -123), "zero": (0, 0, 0)}[sp]
                line = ("cvtparam mpc %d %d %d 1" % t) if ctyp else ("cvtparam mpf %d %d %d" % t)
            else:
                nb = r.choice([1, 1, 2, 3, 5, 20, 53, 100])
                man = ((1 << (nb - 1)) | r.getrandbits(nb - 1) | 1) if nb > 1 else 1
                exp = r.choice([-6, -5, -4, -4, -3, -2, -1, 0, 0, 1, 2, 5, 40, -30, r.randint(-70, 70)])
                sg = r.random() < 0.4
                ctyp = r.random() < 0.25
                arg = ["mpc" if ctyp else "mpf", -man if sg else man, exp]
                line = ("cvtparam mpc %d %d %d 1" % (1 if sg else 0, man, exp)) if ctyp else ("cvtparam mpf %d %d %d" % (1 if sg else 0, man, exp))
        else:
            man = 2 * r.randint(-50, 50) + 1
            exp = r.randint(-6, 3)
            arg = ["mpci", man, exp, r.choice([1, -3, 5]), r.randint(-70, 3)]
            line = "cvtparam mpc %d %d %d 0" % (1 if man < 0 else 0, abs(man), exp)
        tasks.append({"id": i, "fn": "_convert_param", "prec": r.choice([10, 53, 200]), "args": [arg]})
        lines.append(line)
    results = run_pool(tasks, nworkers=nworkers, timeout=10.0)
    answers = ask_driver(lines, nproc=1)
    dis, hist, skipped = [], {}, 0
    for i in range(n):
        res = results[i]
        if res["status"] in ("timeout", "crash", "not-run"):
            skipped += 1
            continue
        if res["status"] == "exc":
            impl = "E:" + res["exc"]
        elif res["status"] != "ok":
            impl = res["status"]
        else:
            v = res["val"]
            val, tag = v["v"][0], v["v"][1]["v"]
            if tag == "Z":
                impl = "Z:%d" % val["v"] if val["t"] == "int" else "Z:?" + json.dumps(val)
            elif tag == "Q":
                impl = "Q:%d,%d" % (val["v"][0], val["v"][1]) if val["t"] == "mpq" else "Q:?" + json.dumps(val)
            else:
                impl = tag
                # 'R', 'C', 'U' return the value unchanged: check it
                a = tasks[i]["args"][0]
                if tag == "R" and not (val["t"] == "mpf"):
                    impl = "R:?" + json.dumps(val)
        hist[answers[i].split(":")[0]] = hist.get(answers[i].split(":")[0], 0) + 1
        if impl != answers[i]:
            dis.append({"name": "T1:convert_param", "op": "cvtparam", "line": lines[i], "impl": impl, "model": answers[i], "arg": tasks[i]["args"][0]})
    return {"cases": n - skipped, "skipped_no_result": skipped, "hist": hist}, dis


def run_pyref_tie(n, seed):
    """tie between the exact Gaussian-rational series evaluator of special_pyref.py (the reference of the `hypcx` cases) and
    the verified enclosure Mp.SpecRef.hypEncl (`mpdrv sref2 hypser`), without mpmath:
    * real z: the disc must meet the driver's enclosure of the same series and have zero imaginary centre;
    * z = i y: real and imaginary part must meet the driver's enclosures of the even / odd part, which are real series
      2pF(2q+1) in -y^2 4^(p-q-1) (special_pyref.imag_axis_split) -- this exercises the complex arithmetic of the evaluator."""
    import special_pyref as PR
    from fractions import Fraction
    r = random.Random((seed, "pyref-tie").__repr__())

    def dline(A, B, z, wp):
        d = [len(A)]
        for a in A: d += [a.numerator, a.denominator]
        d.append(len(B))
        for b in B: d += [b.numerator, b.denominator]
        d += [z.numerator, z.denominator]
        return "sref2 hypser %s | %d" % (" ".join(map(str, d)), wp)

    lines, metas = [], []
    for i in range(n):
        na, nb = r.choice([(0, 1), (1, 1), (1, 2), (2, 2), (2, 3), (0, 2), (2, 1), (3, 2)])
        A = [Fraction(*rand_param_t(r)) for _ in range(na)]
        B = [Fraction(*rand_param_t(r)) for _ in range(nb)]
        wp = r.choice([40, 90, 200])
        if na == nb + 1:
            t = Fraction(r.randint(-12, 12), 16)
        else:
            t = Fraction(*rand_dyadic(r, -12, 12, 4))
        t = t or Fraction(1, 2)
        if i % 2 == 0:
            metas.append(("real", A, B, t, wp, len(lines)))
            lines.append(dline(A, B, t, wp))
        else:
            Ae, Be, Ao, Bo, w, fac = PR.imag_axis_split(A, B, t)
            metas.append(("imag", A, B, t, wp, len(lines), fac))
            lines.append(dline(Ae, Be, w, wp))
            lines.append(dline(Ao, Bo, w, wp))
    answers = ask_driver(lines, nproc=2)
    dis, done, skipped = [], 0, 0
    for m in metas:
        kind, A, B, t, wp, li = m[:6]
        z = (t, Fraction(0)) if kind == "real" else (Fraction(0), t)
        d = PR.hyp_series_disc([(a, 0) for a in A], [(b, 0) for b in B], z, wp)
        need = answers[li:li + (1 if kind == "real" else 2)]
        if d is None or not all(a.startswith("P:") for a in need):
            skipped += 1
            continue
        cre, cim, rad = d
        if kind == "real":
            lo, hi = _parse_P(need[0])
            ok = lo <= cre + rad and cre - rad <= hi and abs(cim) <= rad
            # (vacuity guard: at least ONE of the two enclosures must be narrow; a cancellation-heavy series widens the verified
            #  enclosure at working precision wp while the exact-arithmetic disc stays narrow -- containing it is agreement)
            narrow = min(hi - lo, 2 * rad) <= abs(cre) * Fraction(1, 1 << (wp - 12)) or abs(cre) < Fraction(1, 1 << 20)
        else:
            lo, hi = _parse_P(need[0])
            lo2, hi2 = _parse_P(need[1])
            fac = m[6]
            i1, i2 = sorted([fac * lo2, fac * hi2])
            ok = lo <= cre + rad and cre - rad <= hi and i1 <= cim + rad and cim - rad <= i2
            big = max(abs(cre), abs(cim))
            narrow = min(max(hi - lo, i2 - i1), 2 * rad) <= big * Fraction(1, 1 << (wp - 12)) or big < Fraction(1, 1 << 20)
        done += 1
        if not (ok and narrow):
            dis.append({"name": "T1:pyref_vs_hypEncl", "op": "sref2 hypser", "line": lines[li][:300], "kind": kind,
                        "impl": "disc centre (%r, %r) radius %r" % (float(cre), float(cim), float(rad)), "model": " ".join(need)[:300],
                        "meets": ok, "narrow": narrow})
    return {"cases": done, "skipped": skipped}, dis


# --------------------------------------------------------------------------------------
# check entry used by props/C18.py, C19.py, C22.py
# --------------------------------------------------------------------------------------

RULES = {
    "C18": "seeded structured generator over gamma, rgamma, loggamma, factorial (integers and half-integers of both signs: |x| <= 40, <= 2000, "
           "<= 2*10^4, 10^5 / 10^5+1/2 / 5*10^5 (Stirling path), poles), fac2, binomial (naturals up to 2*10^4 incl. k > n, negative "
           "integers, dyadic rationals), rf, ff (incl. cancelling poles), beta, gammaprod (lists of up to 3 integer/half-integer "
           "arguments), harmonic (n <= 10^5), superfac, hyperfac, barnesg (n <= 150); precisions 10..2000 (thorough: ..3000); 25% of the "
           "calls with complex-typed arguments (zero imaginary part). A case is non-trivial (counted in distinct_nontrivial) when the "
           "driver DECIDED it against the exact closed form; arguments outside the closed-form sub-family are counted in `outside`.",
    "C19": "seeded structured generator over zeta (even s <= 320, s = 0, negative integers >= -260, the pole s = 1, odd s as `outside`), "
           "altzeta at the same points, Hurwitz zeta(2k, a) at integers a <= 3000, bernpoly/eulerpoly (n <= 120, dyadic x small, special, "
           "large), polylog (s = 1 and s = -n <= 0 at dyadic |z| < 1 incl. z near 0 and near +-1; s = 2k at z = 1; generic s as `outside`); "
           "precisions 10..2000; 25% complex-typed. Non-trivial = decided by the driver against the exact value. "
           "Switch-over class (10% of the cases): zeta(n)/altzeta(n) at integers n = c*wp + d, wp in {p, p+20, p+40}, d in -3..8, and n "
           "between consecutive switch-overs, for every ratio c (and 1/c) that occurs as a numeric literal next to a precision-like "
           "name in mpf_zeta_int / mpf_zeta / mpc_zeta (read from the tree under test with ast: 1/30, 1/20, 0.1, 0.2, 1/2.54, 0.431, "
           "plus 1/2 and 1), p in 100..1200, even and odd n, decided against the direct-sum enclosure of zeta(n) (<= 2^13 terms) "
           "or, when that needs more terms, the closed form for even n. "
           "Small-argument class (17%): polylog(s, z), integer s in 2..60, z = +-2^-k, +-m*2^-k (m small odd) and full-length "
           "mantissas times 2^-k with k uniform in 1..2p+24 (Li_s(z) ~ z arbitrarily small against polylog_series' absolute stopping "
           "tolerance eps = 2^-(p+10): every position of the first neglected term relative to eps and to eps*|z|, down to |z| < eps), "
           "ordinary dyadic |z| <= 13/16 and z = +-(3/4 +- 2^-j) on both sides of the switch to polylog_unitcircle; decided against "
           "z * (s+1)F(s)(1,..,1; 2,..,2; z) with the verified series enclosure hypEncl: for z = +-2^-k the driver decides the exactly "
           "rescaled output y/z, otherwise the enclosure of Li_s(z)/z at p+40 bits is multiplied by z and compared in exact rational "
           "arithmetic (special_pyref.decide_scaled).",
    "C22": "seeded structured generator over terminating hyp2f1, hyp1f1, hyp2f0, hyp3f2 and hyper() with (p,q) up to (4,3): -n <= 150, "
           "rational parameters as int / exact mpf / (p,q) tuples / 'p/q' strings, non-positive integer denominators on both sides of the "
           "termination index (poles), dyadic z inside, on and outside the unit disk up to |z| = 3000; legendre, chebyt, chebyu, hermite, "
           "laguerre, gegenbauer, jacobi with degree <= 200 at dyadic x in (-1,1), at +-1, 0, and up to |x| = 30, dyadic a, b in [-3, 8]; "
           "precisions 10..2000; 20% complex-typed arguments. Non-trivial = decided by the driver against the exact rational value. "
           "Non-terminating class (15% of the cases): 1F1(b+m; b; z) (m = 0..4, Kummer: e^z times a polynomial), generic 1F1, 0F1, 1F2, "
           "2F2 at rational parameters (no non-positive integer) and dyadic z < 0 chosen so that the sum is 2^-L times its first "
           "term, L uniform in 2..130 (hypsum's cancellation test and its retries at extraprec 50/105/215, |z| up to and beyond the "
           "switch to the asymptotic expansion), z > 0, small |z|; 2F1, 1F0, 3F2 at dyadic |z| <= 3/4; precisions 10..1000; decided "
           "against the exact rational partial sum with a checked geometric tail bound. Negative-degree class (8%): legendre, "
           "chebyt, chebyu at integer degree -201..-1 with x = 0, tiny x with a full-length mantissa (2^-25 .. 2^(-3p-40)), ordinary x. "
           "Parameter types: hypsum generates one summator per type signature (Z integer / Q small-denominator rational / R other "
           "real / C complex, per parameter, times real / complex z); the non-terminating class draws every parameter as Z, Q or R "
           "(R = odd/2^k, k in 5..12, passed as an exact mpf; one third of the cases all-R) and adds the shapes 2F3, 0F2, 1F3. "
           "Complex class (13%): 0F1, 1F1, 1F2, 1F3, 0F2, 2F2, 2F3, 3F3, 2F1, 3F2 with complex z (both parts non-zero or purely "
           "imaginary; |z| <= 1, <= 8, <= 40, tiny; |z| <= 0.8 for p = q+1) and / or complex parameters, type profiles all-R, all-R with "
           "one parameter replaced by Z/Q/C, independent types, one C parameter with real z (mpf and mpc-typed); precisions 10..500; "
           "decided in exact rational arithmetic against the defining series summed exactly over Q(i) with a checked geometric tail "
           "bound (special_pyref.py); that evaluator is compared in every run with the verified enclosure hypEncl on real z and, through "
           "the even/odd split of the series, on purely imaginary z (decision_logic_T1.pyref_vs_hypEncl).",
}


ASSUMPTIONS = {
    "C18": [
        "PARTIAL: only integer and half-integer arguments (and dyadic-rational x for rf/ff/binomial) are decided; generic real/complex "
        "arguments, arguments near poles or near the minimum of gamma, digamma/polygamma are NOT decided (no Mathlib closed form)",
        "hyperfac and barnesg have no Mathlib definition: their references are the integer products prod k^k and prod k! (definitions)",
        "a sampled (seeded, structured) set of arguments and precisions is validated, not all of them; no theorem about mpmath's series code",
        "calls that exceed the per-call timeout give no result (counted in timeouts_no_result)",
    ],
    "C19": [
        "PARTIAL: zeta at s <= 0 and even s >= 2 (integers), zeta/altzeta at odd and even integers n >= 2 with n >= ~(p+34)/13 (direct "
        "sum of at most 2^13 terms, Props/C19b.lean), Hurwitz zeta(2k, a) at integers a >= 1, bernpoly/eulerpoly at dyadic x, "
        "polylog(1, z), polylog(-n, z) for |z| < 1, polylog(2k, 1) and polylog(s, z) for integer s >= 2 at dyadic |z| <= 13/16 are "
        "decided; everything else (small odd s, non-integer or complex s, "
        "derivatives, dirichlet, lerchphi, stieltjes, primezeta, siegeltheta, siegelz, riemannr, polylog with |z| >= 1) is NOT decided",
        "polylog(s, z), s >= 2: the value is DEFINED as z times the sum of the series (s+1)F(s)(1,..,1; 2,..,2; z) = sum_k z^(k-1)/k^s "
        "(enclosed by Mp.SpecRef.hypEncl, sound by Props/C22b.lean); the multiplication by the dyadic z and the comparison with the "
        "output are done in exact rational arithmetic in the harness (special_pyref.decide_scaled), inside the driver when z = +-2^-k",
        "altzeta(s) := (1 - 2^(1-s)) zeta(s) and the Euler polynomials E_n(x) := 2/(n+1) (B_{n+1}(x) - 2^(n+1) B_{n+1}(x/2)) are "
        "definitions in terms of Mathlib's riemannZeta / Polynomial.bernoulli (Mathlib defines neither)",
        "a sampled (seeded, structured) set of arguments and precisions is validated; no theorem about mpmath's series code",
    ],
    "C22": [
        "PARTIAL: terminating pFq series at rational parameters / dyadic arguments, the seven polynomial families at natural degree "
        "(legendre, chebyt, chebyu at every integer degree), and NON-terminating pFq series with p <= q (any dyadic z) or p = q+1 "
        "(|z| <= 3/4) at rational parameters none of which is a non-positive integer are decided; analytic continuation of "
        "p = q+1 series beyond the disk, hyperu, Whittaker, Meijer G, Appell, hyper2d, legenp/legenq, "
        "spherharm, parabolic cylinder functions are NOT decided",
        "non-terminating pFq at complex (Gaussian-rational) arguments / parameters: the reference is NOT produced by the Lean driver "
        "but by harness/special_pyref.py (exact integer arithmetic: partial sum of the defining series over Q(i) plus the geometric "
        "tail bound |t_K| rho/(1-rho) with a monotone ratio bound, same scheme as hypEncl); it is trusted as Python code and tied to "
        "hypEncl in every run on real and purely imaginary arguments (pyref_vs_hypEncl)",
        "the value of a non-terminating pFq is DEFINED as the sum of its series (Props/C22b.lean: hypSeries; convergence is proved "
        "for every decided case); no closed form or transformation formula is trusted (1F1(1;1;z) = e^z is proved as a sanity link)",
        "legendre at negative integer degree is DEFINED by P_n := P_(-n-1) (Props/C22b.lean: legendrePZ, legendrePZ_reflect); chebyt/chebyu "
        "at negative degree are Mathlib's integer-indexed Polynomial.Chebyshev.T/U",
        "chebyt/chebyu are Mathlib's Polynomial.Chebyshev.T/U; legendre, hermite, laguerre, gegenbauer, jacobi are DEFINED in "
        "Props/C22.lean by their three-term recurrences (Mathlib has none of them in this normalisation)",
        "at a pole of a terminating series (a denominator parameter -m with m below the termination index) an exception or an infinity "
        "is the accepted outcome; at z = 0 the functions return 1 without inspecting the parameters (not decided)",
        "a sampled (seeded, structured) set of arguments and precisions is validated; no theorem about hypsum/hypercomb code",
    ],
}


def check(pid, ctx):
    quick = ctx.quick
    n = {"C18": 1200, "C19": 1120, "C22": 1300}[pid] if quick else {"C18": 40000, "C19": 33000, "C22": 39000}[pid]
    st, fails, dis, samples = run_values(pid, n, ctx.seed, quick, nworkers=6, budget=60 if quick else 1500)
    cov = {
        "evaluations": st["evaluations"],
        "distinct_nontrivial": st["distinct"],
        "rule": RULES[pid],
        "samples": samples,
        "programs": len(st["per_family"]),
        "decided_ok": st["decided_ok"],
        "undecided": st["undecided"],
        "undecided_between_2^(7-p)_and_2^(8-p)": st["borderline"],
        "outside_subfamily_not_decided": st["outside"],
        "timeouts_no_result": st["timeouts"],
        "not_run_budget": st["not_run"],
        "poles_agreeing": st["poles_agree"],
        "per_family": st["per_family"],
        "input_distribution": st["hist"],
        "tolerance": "ok: |y - v| <= 2^(7-p)|v| decided by interval arithmetic (=> relative error < 2^(8-p), exactly 0 where v = 0); "
                     "failing input: |y - v| > 2^(8-p)|v| decided by interval arithmetic; in between: undecided",
    }
    t1 = {}
    if pid == "C18":
        s1, d1 = run_gpdec(300 if quick else 6000, ctx.seed)
        t1["gammaprod_poles"] = s1; dis += d1
    if pid == "C22":
        s1, d1 = run_hyppole(250 if quick else 6000, ctx.seed)
        t1["hypsum_pole_logic"] = s1; dis += d1
        s2, d2 = run_cvtparam(800 if quick else 30000, ctx.seed)
        t1["convert_param"] = s2; dis += d2
        s3, d3 = run_pyref_tie(60 if quick else 1500, ctx.seed)
        t1["pyref_vs_hypEncl"] = s3; dis += d3
    cov["decision_logic_T1"] = t1
    cov["evaluations"] += sum(v["cases"] for v in t1.values())
    cov["programs"] += len(t1)
    cov["disagreements_checked"] = st["decided_ok"] + sum(v["cases"] for v in t1.values())
    # T1 disagreements of pure decision logic are property failures only if the implementation contradicts the stated
    # logic; they are reported as disagreements (model/implementation difference) for triage.
    return {"coverage": cov, "failing_inputs": fails, "disagreements": dis}


class _Ctx:
    def __init__(self, seed, quick=True):
        self.seed, self.quick, self.replay = seed, quick, None


if __name__ == "__main__":
    if len(sys.argv) > 1 and sys.argv[1] == "--worker":
        worker_main()
        sys.exit(0)
    which = sys.argv[1] if len(sys.argv) > 1 else "all"
    n = int(sys.argv[2]) if len(sys.argv) > 2 else 600
    seed = int(sys.argv[3]) if len(sys.argv) > 3 else 0
    tot = 0
    for pid in (["C18", "C19", "C22"] if which == "all" else [which]):
        t0 = time.time()
        st, fails, dis, samples = run_values(pid, n, seed, True)
        print("%s: %d cases, decided ok %d, outside %d, undecided %d, timeouts %d, poles agreeing %d, failing %d, disagreements %d  (%.1fs)" %
              (pid, st["evaluations"], st["decided_ok"], st["outside"], st["undecided"], st["timeouts"], st["poles_agree"], len(fails), len(dis), time.time() - t0))
        for k, v in sorted(st["per_family"].items()):
            print("   %-18s %s" % (k, v))
        bysite = {}
        for f in fails:
            bysite.setdefault(f["site"], []).append(f)
        for k, fl in sorted(bysite.items()):
            print("   FAIL site=%s count=%d" % (k, len(fl)))
            for f in fl[:int(os.environ.get("NSHOW", "3"))]:
                print("        ", f["what"][:150], json.dumps({k2: v for k2, v in f["input"].items() if k2 in ("fn", "args", "prec")})[:300])
        tot += len(fails) + len(dis)
    if which in ("all", "C18"):
        s, d = run_gpdec(300, seed); print("gpdec", s, len(d), d[:3]); tot += len(d)
    if which in ("all", "C22"):
        s, d = run_hyppole(300, seed); print("hyppole", s, len(d), d[:3]); tot += len(d)
        s, d = run_cvtparam(800, seed); print("cvtparam", s, len(d), d[:3]); tot += len(d)
        s, d = run_pyref_tie(60, seed); print("pyref-tie", s, len(d), d[:3]); tot += len(d)
    print("total failing/disagreeing:", tot)
