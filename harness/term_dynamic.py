"""term_dynamic.py — dynamic confirmation for property C24 ("function evaluations terminate").

Every call into mpmath runs in a worker subprocess under a STEP budget measured with `sys.settrace` line events in
mpmath frames (not wall-clock; a generous hard wall timeout only guards against steps that never end and counts as
"no result", never as pass or fail).

 phase 1  every grid case with the budget  B1 = min(ABS1, max(200 * median lines of that function's grid, FLOOR))
          (the median is taken over the cases that returned within ABS1)
 phase 2  every case that did not return within B1 is re-run with 10 * B1
 verdict  not returning within 10 * B1  AND  the same loop of an OPEN class (tol / unknown in Gen/loop_skel.json) is
          on the call stack at both cut-off points  ->  failing input (site = that loop's host function);
          not returning within 10 * B1 without such a loop -> `undecided` (reported, neither pass nor fail).

A case is replayable JSON: {"fn": "digamma", "args": ["mpc('1','0.001')"], "kwargs": {}, "prec": 2989, "ctx": "mp"};
args are evaluated in the namespace of `from mpmath import *` (plus `fp`, `iv`).
Precisions never exceed 4000 bits (property text: "up to a few thousand bits").

CLI:   python term_dynamic.py --replay '<case json>' [--budget N]
       python term_dynamic.py --tier quick|thorough [--seed N]
"""
import sys, os, json, time, random, subprocess, statistics, threading
from concurrent.futures import ThreadPoolExecutor

HERE = os.path.dirname(os.path.abspath(__file__))
VERIF = os.path.dirname(HERE)
REPO = os.environ.get("MPMATH_REPO", "/repo")
PY = sys.executable
MAXPREC = 4000

TIERS = {
    # ABS1: absolute cap of phase 1 (lines); FLOOR: smallest budget; wall: hard wall timeout per case in phase 1
    # wall3: phase 3, an UNTRACED re-run of a case that exceeded 10x the budget inside an open-class loop: a call that returns
    # within wall3 seconds is slow, not non-terminating (a 4000-bit polylog_general needs ~1500 expensive iterations)
    "quick": dict(ABS1=6_000_000, FLOOR=400_000, wall1=30, wall2=180, wall3=60, workers=10, batch=6),
    "thorough": dict(ABS1=60_000_000, FLOOR=400_000, wall1=300, wall2=3000, wall3=1800, workers=10, batch=4),
}


# --------------------------------------------------------------------------------------------------
# worker
# --------------------------------------------------------------------------------------------------

def _load_loops():
    p = os.path.join(VERIF, "lean", "Gen", "loop_skel.json")
    try:
        d = json.load(open(p))
    except Exception:
        return []
    out = []
    for s in d["sites"]:
        if s.get("kind", "").startswith("generated") or not s.get("line"):
            continue
        out.append((os.path.join(REPO, "mpmath", s["file"]), s["line"], s.get("end_line", s["line"]),
                    s.get("body_line", s["line"]), s["cls"], s["key"], s["file"], s["func"]))
    return out


def worker_main():
    """reads one JSON case per line on stdin; prints one JSON result per line; exits with code 3 right after
    reporting a case that exceeded its budget (the parent restarts a worker for the remaining cases)."""
    os.environ.setdefault("MPMATH_NOGMPY", "1")
    if REPO not in sys.path:
        sys.path.insert(0, REPO)
    import mpmath
    ns = {}
    exec("from mpmath import *", ns)
    ns["mpmath"] = mpmath
    mpdir = os.path.dirname(os.path.realpath(mpmath.__file__)) + os.sep
    loops = _load_loops()
    by_file = {}
    body_lines = {}
    for (path, l0, l1, bl, cls, key, rel, func) in loops:
        rp = os.path.realpath(path)
        by_file.setdefault(rp, []).append((l0, l1, cls, key, rel, func))
        if cls in ("tol", "unknown"):
            body_lines[(rp, bl)] = key
    for line in sys.stdin:
        line = line.strip()
        if not line:
            continue
        case = json.loads(line)
        budget = int(case["budget"])
        count = [0]
        iters = {}
        t0 = time.time()

        def report(status, frame=None, exc=None):
            stack = []
            f = frame
            while f is not None:
                fn = os.path.realpath(f.f_code.co_filename)
                for (l0, l1, cls, key, rel, func) in by_file.get(fn, ()):
                    if l0 <= f.f_lineno <= l1:
                        stack.append({"key": key, "cls": cls, "at": "%s:%d" % (rel, l0), "func": func,
                                      "iterations": iters.get(key)})
                f = f.f_back
            out = {"id": case["id"], "status": status, "lines": count[0], "wall": round(time.time() - t0, 3),
                   "loops_on_stack": stack, "open_loop_iterations": {k: v for k, v in iters.items()}}
            if exc is not None:
                out["exc"] = type(exc).__name__
                out["msg"] = str(exc)[:200]
            sys.stdout.write(json.dumps(out) + "\n")
            sys.stdout.flush()

        def local(frame, event, arg):
            if event == "line":
                c = count[0] + 1
                count[0] = c
                k = body_lines.get((frame.f_code.co_filename, frame.f_lineno))
                if k is not None:
                    iters[k] = iters.get(k, 0) + 1
                if c > budget:
                    sys.settrace(None)
                    report("budget", frame)
                    os._exit(3)
            return local

        def glob(frame, event, arg):
            if frame.f_code.co_filename.startswith(mpdir):
                return local
            return None

        try:
            ctxname = case.get("ctx", "mp")
            ctx = getattr(mpmath, ctxname)
            mpmath.mp.prec = min(int(case.get("prec", 53)), MAXPREC)
            fn = eval(case["fn"], ns) if not hasattr(ctx, case["fn"]) else getattr(ctx, case["fn"])
            args = [eval(a, ns) for a in case.get("args", [])]
            kwargs = {k: eval(v, ns) for k, v in case.get("kwargs", {}).items()}
            post = case.get("post")
            if not case.get("untraced"):
                sys.settrace(glob)
            try:
                v = fn(*args, **kwargs)
                if post:
                    ns["_v"] = v
                    v = eval(post, ns)
            finally:
                sys.settrace(None)
            report("ok")
        except BaseException as e:
            sys.settrace(None)
            if isinstance(e, (KeyboardInterrupt, SystemExit)):
                raise
            report("exc", exc=e)
        finally:
            mpmath.mp.prec = 53


# --------------------------------------------------------------------------------------------------
# parent: run batches of cases through workers
# --------------------------------------------------------------------------------------------------

def run_cases(cases, wall, workers, batch):
    """cases: list of dicts with id, budget. returns {id: result}.  status in ok | exc | budget | wall-timeout | crash"""
    results = {}
    lock = threading.Lock()

    def run_batch(bt):
        todo = list(bt)
        while todo:
            data = "".join(json.dumps(c) + "\n" for c in todo)
            env = dict(os.environ, MPMATH_NOGMPY="1", MPMATH_REPO=REPO)
            try:
                p = subprocess.run([PY, os.path.abspath(__file__), "--worker"], input=data, stdout=subprocess.PIPE,
                                   stderr=subprocess.PIPE, text=True, timeout=wall * len(todo), env=env)
                out, timed = p.stdout, False
            except subprocess.TimeoutExpired as e:
                out = e.stdout if isinstance(e.stdout, str) else (e.stdout or b"").decode("utf8", "replace")
                timed = True
            done = []
            for ln in out.split("\n"):
                ln = ln.strip()
                if ln.startswith("{"):
                    try:
                        r = json.loads(ln)
                    except ValueError:
                        continue
                    done.append(r["id"])
                    with lock:
                        results[r["id"]] = r
            rest = [c for c in todo if c["id"] not in done]
            if rest:
                if timed or p.returncode not in (0, 3) or not done:
                    # the first unfinished case is the one that hung / crashed the worker
                    c = rest.pop(0)
                    with lock:
                        results[c["id"]] = {"id": c["id"], "status": "wall-timeout" if timed else "crash", "lines": None,
                                            "loops_on_stack": [], "open_loop_iterations": {},
                                            "msg": "" if timed else (p.stderr or "")[-300:]}
            todo = rest

    batches = [cases[i:i + batch] for i in range(0, len(cases), batch)]
    with ThreadPoolExecutor(max_workers=workers) as ex:
        list(ex.map(run_batch, batches))
    return results


# --------------------------------------------------------------------------------------------------
# grids
# --------------------------------------------------------------------------------------------------

def C(fn, args, prec=53, kwargs=None, ctx="mp", post=None, group=None):
    d = {"fn": fn, "args": list(args), "prec": prec, "ctx": ctx, "group": group or fn}
    if kwargs:
        d["kwargs"] = kwargs
    if post:
        d["post"] = post
    return d


def psi_target(prec):
    """the recurrence target of mpc_psi0 / mpf_psi0: n = int(0.11*wp) + 2 with wp = prec + 20"""
    return int(0.11 * (prec + 20)) + 2


def grids(tier, rng):
    q = tier == "quick"
    G = []
    # ---- digamma / polygamma: Re z just below the recurrence target, small |Im z|, precisions 53 .. 4000 ---------
    precs = [53, 200, 989, 1689, 1989, 2989, 3000, 3500] if q else \
        sorted(set([53, 100, 200, 500, 989, 1000, 1289, 1489, 1589, 1689, 1789, 1889, 1989, 2000, 2189, 2489, 2500, 2789, 2989,
                    3000, 3189, 3489, 3500, 3789, 3989, 4000] + [rng.randrange(1000, 4001) for _ in range(12)] +
                   [100 * rng.randrange(10, 40) + 89 - 20 * rng.randrange(0, 2) for _ in range(6)]))
    for p in precs:
        n = psi_target(p)
        zs = ["mpc('1','0.001')", "mpc('%d.99','0.01')" % (n - 1)]
        if not q or p in (53, 1989, 2989):
            zs += ["mpc('0.5','1')", "mpc('%d.5','1e-10')" % (n - 3), "mpc('-10.5','0.125')", "mpc('%d','3')" % n]
        for z in zs:
            G.append(C("digamma", [z], p))
        if p <= 1000 or not q:
            G.append(C("psi", ["1", "mpc('1','0.001')"], min(p, 2000), group="psi"))
            G.append(C("psi", ["3", "mpc('%d.99','0.01')" % (n - 1)], min(p, 2000), group="psi"))
        if not q or p in (53, 1989):
            G.append(C("digamma", ["mpf('%d.999')" % (n - 1)], p, group="digamma_real"))
            G.append(C("digamma", ["mpf('-%d.5')" % n], p, group="digamma_real"))
    # harmonic / loggamma / gamma ride on the same code
    for p in ([53, 1000] if q else [53, 500, 1000, 2000, 4000]):
        G.append(C("harmonic", ["mpc('10.5','0.01')"], p))
        G.append(C("loggamma", ["mpc('-1000.5','0.5')"], p))
        G.append(C("gamma", ["mpc('0.5','1e4')"], p))
        G.append(C("gamma", ["mpf('1e6') + 0.5"], p))
        G.append(C("rgamma", ["mpc('-50.5','1e-20')"], p))
    # ---- zeta near the critical strip at large height; Hurwitz; polylog; other zeta.py loops ---------------------
    heights = ["10", "100", "1000", "1e4"] + ([] if q else ["1e5", "1e6"])
    for t in heights:
        for p in ([53] if q else [53, 200]) + ([200] if t in ("10", "100") else []):
            G.append(C("zeta", ["mpc('0.5','%s')" % t], p))
            G.append(C("zeta", ["mpc('1.0000001','%s')" % t], p))
    for p in ([53, 400] if q else [53, 400, 2000, 4000]):
        G.append(C("zeta", ["mpf('1') + mpf(2)**(-%d)" % (p // 2)], p))
        G.append(C("zeta", ["mpf('-1000.5')"], p))
        G.append(C("zeta", ["mpc('0.5','14.134725')", "mpf('0.3')"], p, group="hurwitz"))
        G.append(C("zeta", ["mpf('2.5')", "mpf('1e6')"], p, group="hurwitz"))
        G.append(C("zeta", ["mpc('3','4')", "(3,7)", "2"], p, group="hurwitz"))
        G.append(C("altzeta", ["mpc('0.5','50')"], p))
        G.append(C("polylog", ["2", "mpf('0.999')"], p))
        G.append(C("polylog", ["mpf('2.5')", "exp(j*pi/3)"], p))
        G.append(C("polylog", ["mpc('0.5','3')", "mpf('-0.9')"], p))
        G.append(C("polylog", ["-3", "mpf('0.999')"], p))
        G.append(C("bernpoly", ["50", "mpf('0.25')"], p))
        G.append(C("eulerpoly", ["40", "mpf('3.5')"], p))
        G.append(C("riemannr", ["mpf('1e6')"], p))
        G.append(C("primezeta", ["mpf('2')"], min(p, 400)))
        G.append(C("lerchphi", ["mpf('0.5')", "2", "mpf('1.5')"], min(p, 400)))
        G.append(C("stieltjes", ["3"], min(p, 200)))
    G.append(C("secondzeta", ["mpf('2')"], 53))
    G.append(C("siegelz", ["mpf('1e4')"], 53))
    G.append(C("zetazero", ["20"], 53))
    G.append(C("nzeros", ["mpf('100')"], 53))
    # ---- hypergeometric with large parameters, transition regions ------------------------------------------------
    hp = [53, 300] if q else [53, 300, 1000, 3000]
    for p in hp:
        G.append(C("hyp1f1", ["1000", "mpf('0.5')", "mpf('-500')"], p))
        G.append(C("hyp1f1", ["mpf('-1000.5')", "mpf('0.25')", "mpf('1e4')"], p))
        G.append(C("hyp1f1", ["mpc('3','1e5')", "mpf('1.5')", "mpf('30')"], p))
        G.append(C("hyp2f1", ["100", "200", "mpf('300.5')", "mpf('0.99')"], p))
        G.append(C("hyp2f1", ["mpf('1.5')", "2", "mpf('3.25')", "exp(j*pi/3)"], p))
        G.append(C("hyp2f1", ["3", "4", "8", "mpf('1')"], p))
        G.append(C("hyp2f1", ["-1000", "mpf('0.5')", "mpf('-999.5')", "mpf('-1e6')"], p))
        G.append(C("hyp0f1", ["1000", "mpf('1e5')"], p))
        G.append(C("hyp2f2", ["2", "3", "mpf('4.5')", "5", "mpf('-1e4')"], p))
        G.append(C("hyp1f2", ["2", "mpf('3.5')", "4", "mpf('-1e6')"], p))
        G.append(C("hyp2f3", ["2", "3", "mpf('3.5')", "4", "5", "mpf('-1e6')"], p))
        G.append(C("hyp2f0", ["2", "3", "mpf('-0.001')"], p))
        G.append(C("hyperu", ["mpf('1e3')", "mpf('0.5')", "mpf('1e3')"], p))
        G.append(C("besselj", ["1000", "mpf('1000')"], p))
        G.append(C("besselj", ["mpf('0.5')", "mpc('1e5','1')"], p))
        G.append(C("besselj", ["0", "mpf('1e6')"], p))
        G.append(C("bessely", ["mpf('50.5')", "mpf('1e-3')"], p))
        G.append(C("besseli", ["mpc('0','1e3')", "mpf('50')"], p))
        G.append(C("besselk", ["mpc('0.5','100')", "mpf('50')"], p))
        G.append(C("struveh", ["2", "mpf('1e4')"], p))
        G.append(C("airyai", ["mpf('-1e4')"], p))
        G.append(C("erf", ["mpf('30')"], p))
        G.append(C("erfc", ["mpf('%s')" % x], p) if False else C("erfc", ["mpf('30')"], p))
        G.append(C("erfc", ["mpf('-30')"], p))
        G.append(C("erfc", ["mpf('%d')" % max(2, int((p * 0.7) ** 0.5))], p))
        G.append(C("erf", ["mpc('5','5')"], p))
        G.append(C("ei", ["mpf('-40')"], p))
        G.append(C("ei", ["mpf('%d')" % int(p * 0.693 + 10)], p))
        G.append(C("ei", ["mpf('%d')" % int(p * 0.693 + 11)], p))
        G.append(C("e1", ["mpc('40','1')"], p))
        G.append(C("e1", ["mpc('-%d','1e-5')" % int(p * 0.693 + 10)], p))
        G.append(C("expint", ["3", "mpf('%d')" % int(p * 0.7)], p))
        G.append(C("expint", ["mpf('-2.5')", "mpf('50')"], p))
        G.append(C("ci", ["mpf('1e5')"], p))
        G.append(C("si", ["mpf('%d')" % int(p * 0.7)], p))
        G.append(C("ci", ["mpc('%d','0.5')" % int(p * 0.7)], p))
        G.append(C("gammainc", ["100", "mpf('100')"], p))
        G.append(C("gammainc", ["mpf('1000.5')", "mpf('1000')"], p))
        G.append(C("gammainc", ["mpf('-5.5')", "mpf('0.01')"], p))
        G.append(C("gammainc", ["mpc('100','100')", "mpf('100')"], p))
        G.append(C("gammainc", ["mpf('1e-20')", "mpf('1e-20')", "mpf('1e5')"], p))
        G.append(C("gammainc", ["-3", "mpf('20')"], p))
        G.append(C("betainc", ["mpf('100.5')", "mpf('200.25')", "0", "mpf('0.33')"], p))
        G.append(C("legenp", ["mpf('100.5')", "2", "mpf('0.999')"], p))
        G.append(C("ellipk", ["1 - mpf(2)**(-%d)" % (p // 2)], p))
        G.append(C("ellipe", ["mpc('1e6','1')"], p))
        G.append(C("elliprj", ["1", "2", "3", "mpf('1e-30')"], p))
        G.append(C("elliprf", ["mpf('1e-300')", "1", "mpf('1e6')"], p))
        G.append(C("agm", ["1", "mpf('1e-300')"], p))
        G.append(C("agm", ["mpc('1','1')", "mpc('-1','-1')"], p))
        G.append(C("agm", ["mpc('1','1e-30')", "mpc('-1','1e-30')"], p))
        G.append(C("jtheta", ["3", "mpf('0.5')", "mpf('0.99')"], p))
        G.append(C("jtheta", ["2", "mpc('10','10')", "mpc('0','0.9')"], p))
        G.append(C("jtheta", ["1", "mpf('1e6')", "mpf('-0.5')", "2"], p))
        G.append(C("jtheta", ["4", "mpc('0','5')", "mpc('0.3','0.3')"], p))
        G.append(C("qp", ["mpf('0.5')", "mpf('0.99')"], p))
        G.append(C("lambertw", ["-exp(-1) + mpf(2)**(-%d)" % (p // 2)], p))
        G.append(C("barnesg", ["mpf('30.5')"], p))
        G.append(C("besseljzero", ["0", "50"], min(p, 300)))
    # ---- elementary functions -------------------------------------------------------------------------------------
    for p in ([10, 53, 1000, 4000] if q else [10, 24, 53, 100, 333, 1000, 2000, 3000, 4000]):  # elementary: cheap even at 4000
        for fn, a in (("exp", "mpf('-1e6')"), ("exp", "mpc('1e-300','1e6')"), ("log", "1 + mpf(2)**(-%d)" % p), ("log", "mpc('-1e6','1e-300')"),
                      ("sin", "mpf('1e6')"), ("cos", "mpf('1e6') * pi / 2"), ("tan", "mpc('1e6','1')"), ("atan", "mpf('1e6')"),
                      ("atan", "mpc('0','1') * (1 - mpf(2)**(-%d))" % p), ("asin", "1 - mpf(2)**(-%d)" % p), ("acosh", "mpf('1') + mpf('1e-300')"),
                      ("sinh", "mpf('-1e-300')"), ("sqrt", "mpc('-1e6','-1e-300')"), ("cbrt", "mpf('1e6')"), ("expm1", "mpf('1e-300')"),
                      ("sinpi", "mpf('1e6') + 0.5"), ("gamma", "mpf('170.6')"), ("factorial", "mpf('1e6')"), ("fib", "mpf('1e4')"),
                      ("bernoulli", "200")):
            G.append(C(fn, [a], p, group="elementary"))
        G.append(C("power", ["mpf('-1e6')", "mpf('1e6') + 0.5"], p, group="elementary"))
        G.append(C("power", ["mpc('1','1')", "1000003"], p, group="elementary"))
        G.append(C("root", ["mpc('2','3')", "1001"], p, group="elementary"))
        G.append(C("nthroot", ["mpf('1e6')", "999"], p, group="elementary"))
        G.append(C("atan2", ["mpf('1e-300')", "mpf('-1e6')"], p, group="elementary"))
    # ---- nsum / nprod ----------------------------------------------------------------------------------------------
    for p in ([53] if q else [53, 200]):
        G.append(C("nsum", ["lambda k: 1/k**2", "[1, inf]"], p))
        G.append(C("nsum", ["lambda k: (-1)**k/k", "[1, inf]"], p))
        G.append(C("nsum", ["lambda k: 1/k", "[1, inf]"], p))
        G.append(C("nsum", ["lambda k: 1/k**mpf('1.01')", "[1, inf]"], p))
        G.append(C("nsum", ["lambda k: k", "[1, inf]"], p))
        G.append(C("nsum", ["lambda k: sin(k)", "[1, inf]"], p))
        G.append(C("nsum", ["lambda k: 1/k**2", "[1, inf]"], p, kwargs={"method": "'e'"}))
        G.append(C("nsum", ["lambda k: (-1)**k/k", "[1, inf]"], p, kwargs={"method": "'l'"}))
        G.append(C("nsum", ["lambda k: 1/(k*log(k)**2)", "[2, inf]"], p, kwargs={"method": "'d'"}))
        G.append(C("nsum", ["lambda j, k: 1/(j*j+k*k)**2", "[1, inf]", "[1, inf]"], p))
        G.append(C("nprod", ["lambda k: 1 + 1/k**2", "[1, inf]"], p))
        G.append(C("nprod", ["lambda k: 1 + 1/k", "[1, inf]"], p))
        G.append(C("nprod", ["lambda k: (-1)**k", "[1, inf]"], p))
        G.append(C("sumem", ["lambda k: 1/k**2", "[1, inf]"], p))
        G.append(C("limit", ["lambda n: (1 + 1/n)**n", "inf"], p))
        G.append(C("limit", ["lambda n: sin(n)", "inf"], p))
        G.append(C("quad", ["lambda x: sin(1/x)", "[0, 1]"], p))
        G.append(C("quadosc", ["lambda x: sin(x)/x", "[0, inf]"], p, kwargs={"omega": "1"}))
        G.append(C("diff", ["lambda x: exp(x)", "1", "25"], p))
        G.append(C("taylor", ["sin", "0", "40"], p))
    # ---- findroot: every solver, with and without a root -----------------------------------------------------------
    for solver, x0 in (("secant", "3"), ("mnewton", "3"), ("halley", "3"), ("muller", "3"), ("illinois", "(3, 4)"), ("pegasus", "(3, 4)"),
                       ("anderson", "(3, 4)"), ("ridder", "(3, 4)"), ("anewton", "3"), ("bisect", "(3, 4)"), ("newton", "3")):
        kw = {"solver": "'%s'" % solver}
        if solver == "newton":
            kw["df"] = "cos"
        elif solver in ("halley", "mnewton"):
            kw = dict(kw)
        G.append(C("findroot", ["sin", x0], 53, kwargs=kw, group="findroot"))
        G.append(C("findroot", ["lambda x: x*x + 1" if solver != "newton" else "lambda x: x*x + 1", x0 if "(" not in x0 else "(-1, 2)"], 53,
                   kwargs=dict(kw, **({"df": "lambda x: 2*x"} if solver == "newton" else {})), group="findroot"))
        G.append(C("findroot", ["lambda x: 1/x", x0], 53, kwargs=dict(kw, **({"df": "lambda x: -1/x**2"} if solver == "newton" else {})),
                   group="findroot"))
        if not q:
            G.append(C("findroot", ["lambda x: exp(-x*x)", x0], 200, kwargs=dict(kw, **({"df": "lambda x: -2*x*exp(-x*x)"} if solver == "newton" else {})),
                       group="findroot"))
            G.append(C("findroot", ["lambda x: abs(x) + 1e-30", x0 if "(" not in x0 else "(-1, 2)"], 53,
                       kwargs=dict(kw, **({"df": "lambda x: sign(x)"} if solver == "newton" else {})), group="findroot"))
    G.append(C("findroot", ["lambda x, y: [x*x + y*y - 1, x - y]", "(1, 1)"], 53, group="findroot"))
    G.append(C("findroot", ["lambda x, y: [x*x + y*y + 1, x - y]", "(1, 1)"], 53, group="findroot"))
    G.append(C("findroot", ["lambda x, y: [exp(x) , y]", "(1, 1)"], 53, group="findroot"))
    G.append(C("polyroots", ["[1, 0, 0, 0, 0, -1e-30, 1]"], 53))
    G.append(C("polyroots", ["[1, -4, 6, -4, 1]"], 53, kwargs={"maxsteps": "50", "error": "True"}))
    # ---- odefun -----------------------------------------------------------------------------------------------------
    G.append(C("odefun", ["lambda x, y: y", "0", "1"], 53, post="_v(10)", group="odefun"))
    G.append(C("odefun", ["lambda x, y: [y[1], -y[0]]", "0", "[1, 0]"], 53, post="_v(50)", group="odefun"))
    G.append(C("odefun", ["lambda x, y: y*y", "0", "1"], 53, post="_v(0.9)", group="odefun"))
    G.append(C("odefun", ["lambda x, y: y*y", "0", "1"], 53, post="_v(1.5)", group="odefun"))
    G.append(C("odefun", ["lambda x, y: 1/(1-x)", "0", "0"], 53, post="_v(2)", group="odefun"))
    G.append(C("odefun", ["lambda x, y: -1000*y", "0", "1"], 53, post="_v(5)", group="odefun"))
    if not q:
        G.append(C("odefun", ["lambda x, y: y", "0", "1"], 400, post="_v(10)", group="odefun"))
        G.append(C("odefun", ["lambda x, y: sqrt(abs(y))", "0", "0"], 53, post="_v(3)", group="odefun"))
    # ---- matrices (calculus.py loops) --------------------------------------------------------------------------------
    G.append(C("expm", ["matrix([[1, 2], [3, 4]]) * 100"], 53, group="matrix"))
    G.append(C("sqrtm", ["matrix([[1, 2], [3, 4]])"], 53, group="matrix"))
    G.append(C("sqrtm", ["matrix([[0, 1], [0, 0]])"], 53, group="matrix"))
    G.append(C("logm", ["matrix([[1, 2], [3, 4]])"], 53, group="matrix"))
    G.append(C("logm", ["matrix([[0, 0], [0, 0]])"], 53, group="matrix"))
    G.append(C("logm", ["matrix([[1, 1], [0, 1]]) * 1e-8"], 53, group="matrix"))
    G.append(C("eig", ["matrix([[0, 1, 0], [0, 0, 1], [1, 0, 0]])"], 53, group="matrix"))
    G.append(C("svd", ["matrix([[1, 2], [3, 4], [5, 6]])"], 53, group="matrix"))
    G.append(C("eigsy", ["matrix([[2, 1], [1, 2]])"], 53, group="matrix"))
    # ---- fp context (math2.py loops) ----------------------------------------------------------------------------------
    for fn, a in (("digamma", "-1e6 + 0.5"), ("digamma", "complex(-1e6, 1e-3)"), ("loggamma", "complex(-1e5, 1.0)"), ("erf", "5.5"),
                  ("ei", "-40.0"), ("ei", "complex(40.0, 1e-3)"), ("e1", "complex(-39.9, 0.0)"), ("zeta", "complex(0.5, 1e4)"),
                  ("gamma", "-170.5"), ("besselj", "0"), ("hyp1f1", "1000")):
        if fn == "besselj":
            G.append(C(fn, ["0", "1e6"], 53, ctx="fp", group="fp"))
        elif fn == "hyp1f1":
            G.append(C(fn, ["1000", "0.5", "-500.0"], 53, ctx="fp", group="fp"))
        else:
            G.append(C(fn, [a], 53, ctx="fp", group="fp"))
    # de-duplicate, stable ids
    seen = set()
    out = []
    for c in G:
        k = json.dumps(c, sort_keys=True)
        if k in seen:
            continue
        seen.add(k)
        out.append(c)
    if q:
        # seeded subsample of the big hypergeometric block keeps the quick tier inside its wall budget
        keep = []
        for c in out:
            g = c["group"]
            if g in ("digamma", "psi", "digamma_real", "findroot", "odefun", "nsum", "nprod", "matrix", "fp", "zeta", "hurwitz"):
                keep.append(c)
            elif rng.random() < 0.55:
                keep.append(c)
        out = keep
    for i, c in enumerate(out):
        c["id"] = i
    return out


# --------------------------------------------------------------------------------------------------
# the search
# --------------------------------------------------------------------------------------------------

def strip(c):
    return {k: v for k, v in c.items() if k in ("fn", "args", "kwargs", "prec", "ctx", "post")}


def site_of(stack_entry):
    mod = stack_entry["at"].split(":")[0].replace(".py", "").replace("/", ".")
    return "%s.%s" % (mod, stack_entry["func"].split(".")[0] if stack_entry["func"].split(".")[0] != "MPContext" else stack_entry["func"])


def search(cases, tier, log=None):
    T = TIERS[tier]
    t0 = time.time()
    for c in cases:
        c["budget"] = T["ABS1"]
    r1 = run_cases(cases, T["wall1"], T["workers"], T["batch"])
    # per-group medians over the cases that returned
    groups = {}
    for c in cases:
        r = r1.get(c["id"])
        if r and r["status"] in ("ok", "exc") and r.get("lines") is not None:
            groups.setdefault(c["group"], []).append(r["lines"])
    med = {g: statistics.median(v) for g, v in groups.items()}
    budget1 = {}
    cands = []
    for c in cases:
        r = r1.get(c["id"], {"status": "missing"})
        b = int(min(T["ABS1"], max(200 * med.get(c["group"], 0), T["FLOOR"])))
        budget1[c["id"]] = b
        if r["status"] == "budget" or (r["status"] in ("ok", "exc") and (r.get("lines") or 0) > b):
            # (returned above 200x median but inside the absolute cap: it returned -> not a candidate)
            if r["status"] == "budget":
                cands.append(c)
    # phase 2: 10x
    c2 = []
    for c in cands:
        d = dict(c)
        d["budget"] = 10 * T["ABS1"]
        c2.append(d)
    r2 = run_cases(c2, T["wall2"], T["workers"], 1) if c2 else {}
    # phase 3: the cases still over budget are run once more without tracing, against the wall clock only
    c3 = []
    for c in cands:
        if r2.get(c["id"], {}).get("status") == "budget":
            d = dict(c)
            d["budget"] = 10 ** 18
            d["untraced"] = True
            c3.append(d)
    r3 = run_cases(c3, T["wall3"], T["workers"], 1) if c3 else {}
    failing, undecided, slow = [], [], []
    for c in cands:
        a, b = r1[c["id"]], r2.get(c["id"], {"status": "missing"})
        if b["status"] in ("ok", "exc"):
            slow.append({"case": strip(c), "lines": b.get("lines"), "status": b["status"], "exc": b.get("exc")})
            continue
        if r3.get(c["id"], {}).get("status") in ("ok", "exc"):
            slow.append({"case": strip(c), "lines": b.get("lines"), "status": "returned untraced after %.1f s" % r3[c["id"]].get("wall", -1),
                         "exc": r3[c["id"]].get("exc")})
            continue
        if b["status"] != "budget":
            undecided.append({"case": strip(c), "why": b["status"]})
            continue
        open1 = {e["key"]: e for e in a.get("loops_on_stack", []) if e["cls"] in ("tol", "unknown")}
        open2 = {e["key"]: e for e in b.get("loops_on_stack", []) if e["cls"] in ("tol", "unknown")}
        common = [k for k in open2 if k in open1]
        if common and (open2[common[-1]].get("iterations") or 0) < 10 * max(53, int(c.get("prec", 53))):
            # evidence rule: a tolerance loop that converges geometrically (ratio up to 2^-0.1) needs up to ~10*prec iterations; a
            # loop that was cut off before that many iterations (each one expensive) is slow, not shown to be non-terminating
            e = open2[common[-1]]
            undecided.append({"case": strip(c), "why": "exceeds 10x budget after only %s iterations (< 10*prec) of the %s-class loop at %s: "
                              "slow iterations, non-termination not shown" % (e.get("iterations"), e["cls"], e["at"])})
        elif common:
            # outermost common open loop = the one that does not exit
            k = common[-1]
            e = open2[k]
            failing.append({
                "site": site_of(e),
                "what": "%s(%s) at %d bits does not return within %d traced lines (10x the budget) nor untraced within %d s; stuck in the %s-class loop at %s "
                        "(%s iterations of that loop so far)" % (c["fn"], ", ".join(c["args"]), c["prec"], b["lines"], T["wall3"], e["cls"], e["at"],
                                                                   e.get("iterations")),
                "input": dict(strip(c), loop=e["at"], loop_class=e["cls"], loop_key=k, lines_phase1=a["lines"], lines_phase2=b["lines"],
                              loop_iterations=e.get("iterations"), group_median_lines=med.get(c["group"])),
            })
        else:
            undecided.append({"case": strip(c), "why": "exceeds 10x budget, no open-class loop on the stack at both cut-offs",
                              "stack": [e["at"] + ":" + e["cls"] for e in b.get("loops_on_stack", [])]})
    # wall timeouts / crashes of phase 1 are "no result"
    for c in cases:
        r = r1.get(c["id"], {"status": "missing"})
        if r["status"] in ("wall-timeout", "crash", "missing"):
            undecided.append({"case": strip(c), "why": r["status"], "msg": r.get("msg", "")[:200]})
    executed_open = {}
    for r in list(r1.values()) + list(r2.values()):
        for k, v in (r.get("open_loop_iterations") or {}).items():
            executed_open[k] = max(executed_open.get(k, 0), v)
    return {"r1": r1, "r2": r2, "median_lines": med, "failing": failing, "undecided": undecided, "slow": slow,
            "candidates": len(cands), "executed_open_loops": executed_open, "wall": time.time() - t0}


def main():
    import argparse
    ap = argparse.ArgumentParser()
    ap.add_argument("--worker", action="store_true")
    ap.add_argument("--tier", default="quick")
    ap.add_argument("--seed", type=int, default=0)
    ap.add_argument("--replay", default=None)
    ap.add_argument("--budget", type=int, default=TIERS["quick"]["ABS1"] * 10)
    ap.add_argument("--only", default=None, help="comma separated groups")
    a = ap.parse_args()
    if a.worker:
        worker_main()
        return
    if a.replay:
        c = json.loads(a.replay)
        c.setdefault("id", 0)
        c.setdefault("group", c["fn"])
        c["budget"] = a.budget
        r = run_cases([c], 3600, 1, 1)
        print(json.dumps(r[0], indent=1))
        return
    rng = random.Random(a.seed)
    cases = grids(a.tier, rng)
    if a.only:
        cases = [c for c in cases if c["group"] in a.only.split(",")]
    res = search(cases, a.tier)
    st = {}
    for r in res["r1"].values():
        st[r["status"]] = st.get(r["status"], 0) + 1
    print("cases", len(cases), "phase1", st, "candidates", res["candidates"], "wall %.1fs" % res["wall"])
    print("failing", json.dumps(res["failing"], indent=1))
    print("undecided", json.dumps(res["undecided"], indent=1)[:3000])
    print("slow", json.dumps(res["slow"])[:2000])
    print("open loops executed", len(res["executed_open_loops"]))


if __name__ == "__main__":
    main()
