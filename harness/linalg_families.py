"""Structured matrix families for the linear-algebra checks C30 / C31 (exact entries, internal scalars of linalg_ops).

The uniform generators of linalg_ops.MGen draw entries of comparable magnitude and (almost surely) full rank.  Branches of the
decompositions that are selected by the SHAPE of the data are then never taken:

  * sign / cancellation choices of Householder reflectors (qr, householder, bidiagonalisation, tridiagonalisation, hessenberg):
    only visible when one entry of a column dominates the rest by many bits  -> graded rows / columns, dominant diagonal,
    nearly triangular input;
  * deflation / splitting / cancellation branches of the QR-type iterations (svd: negligible diagonal or super-diagonal entry of
    the bidiagonal form; eigsy/eighe: negligible off-diagonal of the tridiagonal form; eig/schur: negligible sub-diagonal of the
    Hessenberg form, active window not starting at row 0)  -> exact or tiny (2^-g) zeros INSIDE a bidiagonal / tridiagonal /
    Hessenberg matrix, zero columns and rows at the first / interior / last position, repeated rows, low rank, block
    triangular and block diagonal input, sparse small-integer matrices;
  * absolute thresholds (|s| > eps) -> uniformly scaled input.

Every family multiplies by powers of two (always exact) or by 10^k with small-integer entries (kept only when the entries still
fit the working precision), so "entries exactly representable" of the property texts holds.  All random choices come from the
MGen's PRNG.
"""
from linalg_ops import MGen, S, fits

Z = S(0)


# ---- exact scalings -------------------------------------------------------------------------------------------------

def s_scale(x, sc):
    """x * (mant * 2^exp), sc = (mant, exp), mant a positive integer"""
    mant, e = sc
    mr, er, mi, ei = x
    return S(mr * mant, (er + e) if mr else 0, mi * mant, (ei + e) if mi else 0)


def _gap(g, prec):
    """an exponent gap in bits: from a few bits (no visible effect) through ~prec/2 (where a cancellation eats the guard digits)
    to beyond the working precision (where the small part vanishes in a sum)"""
    gap = g.r.choice([3, 8, 16, 22, 26, 30, 36, 45, 60, prec // 2, prec // 2 + 8, prec - 4, prec + 12, prec + 40, 2 * prec + 10])
    g.note("gap", "<20" if gap < 20 else "<prec" if gap < prec else ">=prec")
    return gap


def scales(g, n, prec, ten_ok):
    """n multipliers (mant, exp) forming a grading; powers of two, or powers of ten when ten_ok (never below 1 then)"""
    r = g.r
    gap = _gap(g, prec)
    shape = r.choice(["down", "up", "one_big", "one_small", "two_level", "shuffled", "uniform_small", "uniform_big"])
    g.note("grading", shape)
    if shape == "down":
        ks = [-gap * i for i in range(n)]
    elif shape == "up":
        ks = [gap * i for i in range(n)]
    elif shape == "one_big":
        ks = [0] * n
        ks[r.randrange(n)] = gap
    elif shape == "one_small":
        ks = [0] * n
        ks[r.randrange(n)] = -gap
    elif shape == "two_level":
        ks = [r.choice([0, gap]) for _ in range(n)]
    elif shape == "shuffled":
        ks = [gap * i for i in range(n)]
        r.shuffle(ks)
    elif shape == "uniform_small":
        ks = [-gap] * n
    else:
        ks = [gap] * n
    if ten_ok and r.random() < 0.4:
        lo = min(ks)
        return [(5 ** d, d) for d in [int(round((k - lo) / 3.3219)) for k in ks]]
    return [(1, k) for k in ks]


def apply_scales(A, rows=None, cols=None):
    out = []
    for i, row in enumerate(A):
        o = []
        for j, x in enumerate(row):
            if rows:
                x = s_scale(x, rows[i])
            if cols:
                x = s_scale(x, cols[j])
            o.append(x)
        out.append(o)
    return out


def _graded(g, A, prec, kind, rows, cols, same=False):
    m, n = len(A), len(A[0])
    ten_ok = kind in ("int", "dyadic", "bigint")
    for attempt in (0, 1):
        rs = scales(g, m, prec, ten_ok and attempt == 0) if rows else None
        cs = (rs if same else scales(g, n, prec, ten_ok and attempt == 0)) if cols else None
        B = apply_scales(A, rs, cs)
        if fits(B, prec):
            return B
    return B if fits(B, prec) else A


def _nonzero_entry(g, kind, prec, cplx):
    for _ in range(20):
        x = g.entry(kind, prec, cplx)
        if x[0] != 0:
            return x
    return S(1)


# ---- rectangular families (qr, svd, lu, solve, eig ...) -------------------------------------------------------------

RECT_FAMILIES = ["graded_rows", "graded_cols", "graded_both", "diagdom", "near_upper", "near_lower", "zero_cols", "zero_rows",
                 "dup", "lowrank", "bidiag", "block_tri", "block_diag", "sparse", "zero_diag"]


def imag_mod(g, A, prec, herm=False):
    """complex input whose imaginary parts are all zero (real data on the complex code path: the task still builds mpc entries),
    tiny (2^-gap), or zero except in one entry: the complex reflectors then see a diagonal entry dominated by its real part"""
    r = g.r
    how = r.choice(["zero", "zero", "tiny", "one"])
    if herm and how == "one":
        how = "tiny"
    g.note("imag", how)
    if how == "tiny":
        gap = _gap(g, prec)
        return [[S(x[0], x[1], x[2], (x[3] - gap) if x[2] else 0) for x in row] for row in A]
    keep = (r.randrange(len(A)), r.randrange(len(A[0]))) if how == "one" else None
    return [[x if (i, j) == keep else S(x[0], x[1]) for j, x in enumerate(row)] for i, row in enumerate(A)]


P_IMAG_MOD = 0.5


def rect_family(g, fam, m, n, prec, cplx, kind=None):
    """exact m x n matrix of the structured family `fam`; complex ones get `imag_mod` with probability P_IMAG_MOD"""
    A = _rect_family(g, fam, m, n, prec, cplx, kind)
    if cplx and g.r.random() < P_IMAG_MOD:
        A = imag_mod(g, A, prec)
    return A


def _rect_family(g, fam, m, n, prec, cplx, kind=None):
    r = g.r
    kind = kind or g.kind()
    A = g.rect(m, n, kind, prec, cplx)
    k = min(m, n)
    if fam == "graded_rows":
        return _graded(g, A, prec, kind, True, False)
    if fam == "graded_cols":
        return _graded(g, A, prec, kind, False, True)
    if fam == "graded_both":
        return _graded(g, A, prec, kind, True, True, same=(m == n and r.random() < 0.5))
    if fam == "diagdom":
        # dominant diagonal of either sign (complex: dominant real part, dominant imaginary part, or both), small everything else
        ten_ok = kind in ("int", "dyadic", "bigint")
        gap = _gap(g, prec)
        for attempt in (0, 1):
            B = [list(row) for row in A]
            for i in range(k):
                sc = (5 ** int(round(gap / 3.3219)), int(round(gap / 3.3219))) if (ten_ok and attempt == 0 and r.random() < 0.5) \
                    else (1, gap + r.choice([0, 0, 1, -1, 2]))
                d = _nonzero_entry(g, kind if kind != "decimal" else "int", prec, False)
                big = s_scale(d, sc)
                if cplx:
                    how = r.choice(["re", "im", "both"])
                    small = g.entry(kind, prec, False)
                    if how == "re":
                        big = S(big[0], big[1], small[0], small[1])
                    elif how == "im":
                        big = S(small[0], small[1], big[0], big[1])
                    else:
                        big = S(big[0], big[1], big[0] * r.choice([1, -1]), big[1])
                B[i][i] = big
            if fits(B, prec):
                return B
        return B if fits(B, prec) else A
    if fam in ("near_upper", "near_lower"):
        gap = _gap(g, prec)
        lower = fam == "near_upper"
        return [[s_scale(A[i][j], (1, -gap)) if ((i > j) if lower else (i < j)) else A[i][j] for j in range(n)] for i in range(m)]
    if fam == "zero_cols":
        how = r.choice(["first", "first", "last", "interior", "random", "several"])
        g.note("zero_cols", how)
        js = {"first": [0], "last": [n - 1], "interior": [r.randrange(1, n - 1)] if n > 2 else [0],
              "random": [r.randrange(n)], "several": r.sample(range(n), r.randint(1, max(1, n - 1)))}[how]
        return [[Z if j in js else A[i][j] for j in range(n)] for i in range(m)]
    if fam == "zero_rows":
        how = r.choice(["first", "last", "interior", "several"])
        is_ = {"first": [0], "last": [m - 1], "interior": [r.randrange(1, m - 1)] if m > 2 else [0],
               "several": r.sample(range(m), r.randint(1, max(1, m - 1)))}[how]
        return [[Z if i in is_ else A[i][j] for j in range(n)] for i in range(m)]
    if fam == "dup":
        # repeated rows / columns, exactly or up to a sign and a power of two
        B = [list(row) for row in A]
        for _ in range(r.choice([1, 1, 2])):
            sc = r.choice([(1, 0), (1, 0), (1, 1), (1, -3)])
            sg = r.choice([1, 1, -1])
            if r.random() < 0.5 and m >= 2:
                i, j = r.sample(range(m), 2)
                B[i] = [s_scale(MGen.s_mul(S(sg), x), sc) for x in B[j]]
            elif n >= 2:
                i, j = r.sample(range(n), 2)
                for t in range(m):
                    B[t][i] = s_scale(MGen.s_mul(S(sg), B[t][j]), sc)
        return B
    if fam == "lowrank":
        rk = r.randint(1, max(1, k - 1))
        kk = "int" if kind in ("bigint", "decimal") else kind
        return MGen.m_mul(g.rect(m, rk, kk, prec, cplx), g.rect(rk, n, kk, prec, cplx))
    if fam == "bidiag":
        return bidiagonal(g, m, n, prec, cplx, kind)
    if fam in ("block_tri", "block_diag"):
        # blocks along the diagonal of the leading k x k part; zero lower-left blocks (block_tri) or all off-diagonal blocks;
        # sometimes one diagonal block is zero or of rank one
        cuts = sorted(set(r.sample(range(1, k), r.randint(1, min(3, k - 1))))) if k >= 2 else []
        blk = lambda t: sum(1 for c in cuts if t >= c)
        B = [[A[i][j] if (blk(min(i, k - 1)) == blk(min(j, k - 1)) or (fam == "block_tri" and blk(min(i, k - 1)) < blk(min(j, k - 1))))
              else Z for j in range(n)] for i in range(m)]
        if r.random() < 0.3 and cuts:
            b0 = r.randint(0, len(cuts))
            for i in range(m):
                for j in range(n):
                    if blk(min(i, k - 1)) == b0 and blk(min(j, k - 1)) == b0:
                        B[i][j] = Z
        return B
    if fam == "sparse":
        dens = r.choice([0.25, 0.4, 0.55])
        kk = "int" if r.random() < 0.7 else kind
        return [[(g.entry(kk, prec, cplx) if r.random() < dens else Z) for _ in range(n)] for _ in range(m)]
    if fam == "zero_diag":
        B = [list(row) for row in A]
        for i in range(k):
            if r.random() < 0.6:
                B[i][i] = Z
        return B
    raise ValueError(fam)


def bidiagonal(g, m, n, prec, cplx, kind):
    """upper (or lower) bidiagonal k x k block, k = min(m, n), embedded in an m x n zero matrix, with exact zeros or tiny entries
    2^-gap at chosen positions of the diagonal and of the second diagonal (first / interior / last)"""
    r = g.r
    k = min(m, n)
    d = [_nonzero_entry(g, kind, prec, cplx) for _ in range(k)]
    e = [_nonzero_entry(g, kind, prec, cplx) for _ in range(max(0, k - 1))]

    def hit(v, npos):
        for _ in range(npos):
            if not v:
                return
            how = r.choice(["first", "interior", "interior", "interior", "last"])
            i = {"first": 0, "last": len(v) - 1}.get(how, r.randrange(len(v)))
            if how == "interior" and len(v) > 2:
                i = r.randrange(1, len(v) - 1)
            if r.random() < 0.65:
                v[i] = Z
            else:
                v[i] = s_scale(v[i], (1, -r.choice([prec + 20, 2 * prec + 40, 400, prec // 2 + 5, prec - 2])))
    what = r.choice(["diag", "diag", "diag", "super", "both", "none"])
    g.note("bidiag_zero", what)
    if what in ("diag", "both"):
        hit(d, r.choice([1, 1, 2]))
    if what in ("super", "both"):
        hit(e, r.choice([1, 1, 2]))
    lower = r.random() < 0.25
    B = [[Z] * n for _ in range(m)]
    for i in range(k):
        B[i][i] = d[i]
        if i + 1 < k:
            if lower:
                B[i + 1][i] = e[i]
            else:
                B[i][i + 1] = e[i]
    if n > m and not lower and r.random() < 0.5:      # the super-diagonal continues into the extra columns
        B[k - 1][k] = _nonzero_entry(g, kind, prec, cplx)
    return B


# ---- square families with prescribed zero pattern of the condensed form (eig / schur / hessenberg) ------------------

def hessenberg_zeros(g, n, prec, cplx, kind=None):
    """upper Hessenberg matrix whose sub-diagonal has exact zeros / tiny entries at chosen (interior) positions: the QR iteration
    deflates there from the start and works on windows that do not begin at row 0"""
    r = g.r
    kind = kind or g.kind()
    A = g.rect(n, n, kind, prec, cplx)
    for i in range(n):
        for j in range(n):
            if i > j + 1:
                A[i][j] = Z
    for _ in range(r.choice([1, 1, 2])):
        if n >= 2:
            i = r.randrange(1, n)
            A[i][i - 1] = Z if r.random() < 0.7 else s_scale(_nonzero_entry(g, kind, prec, cplx), (1, -r.choice([prec + 20, 2 * prec + 40, prec - 2])))
    return A


SYM_FAMILIES = ["graded_sym", "tridiag_zeros", "block_diag_sym", "arrow", "lowrank_sym", "bigdiag_sym", "sparse_sym", "scaled_sym"]


def sym_family(g, fam, n, prec, herm, kind=None):
    """exact real symmetric (herm=False) or complex Hermitian n x n matrix of the structured family `fam`"""
    A = _sym_family(g, fam, n, prec, herm, kind)
    if herm and g.r.random() < P_IMAG_MOD:
        A = imag_mod(g, A, prec, herm=True)
    return A


def _sym_family(g, fam, n, prec, herm, kind=None):
    r = g.r
    kind = kind or g.kind()
    A = g.matrix("hermitian" if herm else "symmetric", n, prec, herm, kind)
    if fam == "graded_sym":          # D A D, D = diag(2^k_i): symmetric grading
        sc = scales(g, n, prec, False)
        return apply_scales(A, sc, sc)
    if fam == "scaled_sym":
        gap = _gap(g, prec) * r.choice([1, -1])
        return apply_scales(A, [(1, gap)] * n, None)
    if fam == "tridiag_zeros":       # tridiagonal with zero / tiny off-diagonal entries (first / interior / last) and repeated diagonal
        B = [[A[i][j] if abs(i - j) <= 1 else Z for j in range(n)] for i in range(n)]
        if r.random() < 0.3:
            for i in range(n):
                B[i][i] = B[0][0]
        for _ in range(r.choice([0, 1, 1, 2])):
            if n >= 2:
                i = r.randrange(1, n)
                v = Z if r.random() < 0.7 else s_scale(_nonzero_entry(g, kind, prec, herm), (1, -r.choice([prec + 20, 2 * prec + 40, prec - 2, prec // 2])))
                B[i][i - 1] = v
                B[i - 1][i] = MGen.s_conj(v)
        return B
    if fam == "block_diag_sym":
        cuts = sorted(set(r.sample(range(1, n), r.randint(1, min(3, n - 1))))) if n >= 2 else []
        blk = lambda t: sum(1 for c in cuts if t >= c)
        B = [[A[i][j] if blk(i) == blk(j) else Z for j in range(n)] for i in range(n)]
        if r.random() < 0.3 and cuts:
            b0 = r.randint(0, len(cuts))
            B = [[Z if (blk(i) == b0 and blk(j) == b0) else B[i][j] for j in range(n)] for i in range(n)]
        return B
    if fam == "arrow":               # arrowhead: diagonal + first (or last) row and column
        t = r.choice([0, n - 1])
        return [[A[i][j] if (i == j or i == t or j == t) else Z for j in range(n)] for i in range(n)]
    if fam == "lowrank_sym":
        rk = r.randint(1, max(1, n - 1))
        kk = "int" if kind in ("bigint", "decimal") else kind
        B = g.rect(rk, n, kk, prec, herm)
        return MGen.m_mul(MGen.m_H(B), B)
    if fam == "bigdiag_sym":         # dominant diagonal (either sign), tiny coupling
        gap = _gap(g, prec)
        B = [list(row) for row in A]
        for i in range(n):
            d = _nonzero_entry(g, "int", prec, False)
            B[i][i] = s_scale(d, (1, gap + r.choice([0, 0, 1, -1])))
        return B
    if fam == "sparse_sym":
        dens = r.choice([0.25, 0.4, 0.55])
        B = [[Z] * n for _ in range(n)]
        for i in range(n):
            for j in range(i + 1):
                if r.random() < dens:
                    B[i][j] = A[i][j]
                    B[j][i] = A[j][i]
        return B
    raise ValueError(fam)


def spd_family(g, n, prec, cplx):
    """exact symmetric / Hermitian POSITIVE DEFINITE matrices with structure: D (B^H B + s I) D with D a grading by powers of two
    >= 1 (the pivots stay >= 1: cholesky's documented absolute tolerance `tol = eps` is not what is probed here), a dominant
    diagonal, or a direct sum; returns (class name, matrix)"""
    r = g.r
    fam = r.choice(["spd_graded", "spd_graded", "spd_bigdiag", "spd_blockdiag"])
    kind = r.choice(["int", "dyadic"])
    B = g.rect(n, n, kind, prec, cplx)
    A = MGen.m_mul(MGen.m_H(B), B)
    sh = r.choice([1, 1, 2, 5])
    for i in range(n):
        A[i][i] = MGen.s_add(A[i][i], S(sh))
    if fam == "spd_graded":
        sc = scales(g, n, prec, False)
        lo = min(e for _, e in sc)
        sc = [(1, e - lo) for _, e in sc]
        A = apply_scales(A, sc, sc)
    elif fam == "spd_bigdiag":
        gap = _gap(g, prec)
        for i in range(n):
            A[i][i] = MGen.s_add(A[i][i], S(r.randint(1, 9), gap))
    else:
        cuts = sorted(set(r.sample(range(1, n), r.randint(1, min(2, n - 1))))) if n >= 2 else []
        blk = lambda t: sum(1 for c in cuts if t >= c)
        A = [[A[i][j] if blk(i) == blk(j) else Z for j in range(n)] for i in range(n)]
    if not fits(A, prec):
        return "spd", g.matrix("spd", n, prec, cplx)
    return fam, A
