"""Proposed registry entries for C26 C27 C28 C34 C36 (to be merged into harness/registry.py: CHECKS.update(CHECKS_CALC))."""
TB_CALC = ("Trusted base: Lean 4.33 kernel; axioms propext/Classical.choice/Quot.sound only (audited on every run); Mathlib v4.33; the verified "
           "interval evaluator Mp.Encl (soundness theorems against Mathlib's real functions); the Python transcription of each integrand / summand "
           "/ right-hand side from the family description (cross-checked exactly against the Lean term function for series); the Python harness. ")

CHECKS_CALC = {
    "C26": dict(category="translation_validation",
                technique="closed-form references proved in Lean (FTC with antiderivative differentiated in Lean, Gamma(n+1)=n!, Gaussian integral, separable iterated integrals) "
                          "+ Lean-verified enclosure/comparison checker + proved driver logic (limit reversal, split points, node cache) + sampled runs of quad/quadts/quadgl",
                text="Theorems: for every member of the integrand families (polynomials, exp(cx), sin/cos(cx), x exp(cx), exp(ax)cos/sin(bx), 1/(1+x^2), 1/(x+c); products in 2-3 dimensions; "
                     "x^n e^-x, e^-cx, Gaussians on infinite ranges) the closed form equals the integral; a verdict of the checker is a theorem |y - I| < 2^(10-p) max(|I|,1) or its negation; "
                     "the summation driver over an additive rule negates under reversal and is invariant under split points. The real routines are run on generated members "
                     "(forward/reversed/split, 1-3 dimensions, infinite ranges, precisions 30-500) and each output, read exactly, is decided.",
                note=TB_CALC + "The quantifier over integrands is sampled; no theorem about convergence of tanh-sinh / Gauss-Legendre; complex paths not covered."),
    "C27": dict(category="translation_validation",
                technique="closed-form sums/products/limits proved in Lean (geometric, zeta(2), zeta(4), exp/sin/cos/log series, Leibniz, telescoping, Euler limit) + Lean-verified checker "
                          "+ proofs of nsum's index standardisation, shell folding, finite folding, and exactness of the rational model of richardson + sampled runs",
                text="Theorems: partial sums/products of every family tend to the closed form; finite ranges equal the exact rational sum; the standardised ranges enumerate exactly the original "
                     "index set; richardson returns L exactly on L + sum c_j/k^j; checker verdict = |y - S| <= 2^(10-p)|S|. nsum (all methods on the series shapes they are documented for, "
                     "1-3 dimensions, finite/half-infinite/doubly infinite ranges), nprod, limit, sumem, sumap are run and decided; mp.richardson is compared with the exact model.",
                note=TB_CALC + "Sampled; acceleration methods are only requested where mpmath documents them; levin/cohen_alt/shanks tables are not modelled."),
    "C28": dict(category="translation_validation",
                technique="n-th derivatives of the families proved in Lean (iteratedDeriv), exact rational Pade validator proved against polynomial coefficients, differint closed form, "
                          "difference = n-th forward difference (proved, bit-exact T1) + sampled runs of diff/diffs/diffun/taylor/pade/differint",
                text="Theorems: iteratedDeriv n f x equals the closed form for polynomials, exp(cx), sin(cx), cos(cx), x exp(cx); partial derivatives of separable products; padeCheck accepts iff the "
                     "coefficients of A*Q-P up to degree L+M are within tolerance (exact version: X^(L+M+1) divides A*Q-P); difference(s,n) = sum (-1)^(n-k) C(n,k) s_k. "
                     "Outputs of the real routines (all options, orders 0-10, precisions 30-300) are decided by the Lean checker.",
                note=TB_CALC + "Sampled; differint only for integer orders n >= 0 and n = -1."),
    "C34": dict(category="translation_validation",
                technique="exact solutions proved in Lean (satisfy the ODE and initial condition; uniqueness by Gronwall) + proofs about the model of odefun's segment store "
                          "(prefix property, unique segment off boundaries, termination, VALUE independence of history; segment choice at boundaries refuted) + sampled runs with closure inspection",
                text="Theorems: solRef denotes THE solution of y'=ay, the harmonic oscillator and y'=-y^2; the store after any query history is a prefix of one fixed segment sequence; the interpolant "
                     "value is history independent given exact continuity at the knots (which the code has: ser[0] = y0), although the answering segment at a boundary point is history dependent "
                     "(counterexample). odefun is run with random query orders, exact boundary points, repeats and caller-precision changes; values must be bit-identical across histories and "
                     "within 2^10*tol of the exact solution.",
                note=TB_CALC + "Sampled; ode_taylor is abstract in the model."),
    "C36": dict(category="translation_validation",
                technique="Lean-verified comparison checkers (coefficient-norm bound of the sup distance of two polynomials, scaled closeness, fourierval's defining sum with verified cos/sin/pi enclosures) + sampled runs",
                text="Theorems: sum|d_j-c_j|M^j bounds |fit(x)-P(x)| on [-M,M]; fourierRef is the defining sum of fourierval; checker verdicts are theorems. chebyfit of polynomials of degree < N "
                     "(reproduction, reported error), chebyfit error bound at the code's rational sample point x=b, fourier of planted trigonometric polynomials, fourierval on dyadic data are decided.",
                note=TB_CALC + "Sampled; orthogonality (that planted coefficients are the Fourier coefficients) is the property's premise and is not proved; cases where the coefficient-norm bound is "
                     "inconclusive are counted as undecided after 9 exact sample points."),
}
