"""C33, odefun segment cache (`series_boundaries` / `series_data`, mpmath/calculus/odes.py:244-287).

Drives the REAL `mp.odefun` objects through random query histories and checks, after EVERY call,

 (model)   the closure state and the selected segment against the Lean model `Mp.OdeSeg`
           (driver ops `odeseg_hist`, `odeseg_sel`, `odeseg_bisect` of MpModel/DrvOdeSeg.lean).  The model's
           step function is the canonical boundary table of a REFERENCE object of the same ODE that was
           extended once, in one call, beyond every abscissa of the history.  Compared per request:
           outcome kind (cache hit / extension / ValueError / aborted), index of the segment returned by
           `get_series` (recorded by a wrapper put into interpolant's closure cell), `len(series_data)`,
           `series_boundaries` == prefix of the reference boundaries (bit for bit, x0 included),
           `series_data[k]` == reference segment k (coefficients bit for bit), `len(boundaries) == len(data)+1`,
           and the returned value == `mpolyval(ser_k, x - xa_k)` recomputed from the reference segment the
           MODEL selected (bit for bit);
 (property) the history-independence clause itself, decided on the real code alone: the outcome of `f(x)`
           after the history versus the outcome of a FRESH `odefun` object of the same ODE queried only at
           `x` (same creation precision, same call precision).  Values must agree within
           2^-(min(prec, p0)-12) * max(1, |y|); one raising and the other not, or different exception types,
           is a failure.  `mp.prec` must be what it was before the call, also after an aborted call.

Histories: x = x0 exactly, boundary points read back from the closure (cached ones and not yet cached ones),
points 2^-k left / right of boundaries, interior points, far points forcing several extensions, repeated
points, x < x0 (ValueError), ints / floats / strings as x, calls aborted by an exception raised by F at a
chosen call (the j-th ode_taylor of the request, any of its `degree` F-calls), precision switches between
calls.  Orders: random, ascending, descending, far-first-then-x0, boundaries, abort-then-retry; the deterministic
histories `FIXED` run first on every seed (a not yet cached boundary point as the right end of a fresh segment and then
from the cache; 120 extensions followed by x0; aborted far extension and retry).  Every real call has a hard time
limit (a timeout is a disagreement, never a pass).  x = nan / +inf are not queried: the real loop does not terminate.

usage:  python odeseg_ops.py [histories_per_ode] [seed]
"""
from common import *  # noqa
import bisect as _bisect, signal, json

SITE = "odefun.segment_cache"
CALL_TIMEOUT = 10.0
HISTORY_TIMEOUT = 25.0


class Injected(Exception):
    pass


class CallTimeout(Exception):
    pass


def _alarm(signum, frame):
    raise CallTimeout()


class timed:
    """hard per-call limit (pure Python code under MPMATH_NOGMPY=1: SIGALRM is delivered promptly)"""

    def __init__(self, seconds=CALL_TIMEOUT):
        self.s = seconds

    def __enter__(self):
        self.old = signal.signal(signal.SIGALRM, _alarm)
        signal.setitimer(signal.ITIMER_REAL, self.s)

    def __exit__(self, *a):
        signal.setitimer(signal.ITIMER_REAL, 0)
        signal.signal(signal.SIGALRM, self.old)
        return False


class FWrap:
    """F with a call counter; raises Injected at call number `arm` (0-based, counted from the last reset)"""

    def __init__(self, F):
        self.F, self.count, self.arm, self.fired = F, 0, None, False

    def reset(self, arm=None):
        self.count, self.arm, self.fired = 0, arm, False

    def __call__(self, x, y):
        c = self.count
        self.count += 1
        if self.arm is not None and c == self.arm:
            self.fired = True
            raise Injected()
        return self.F(x, y)


def ode_table(mp):
    """name -> (F, x0, y0); x0 / y0 are built at the creation precision by the caller"""
    return {
        "exp": (lambda x, y: y, lambda: 0, lambda: 1),                              # x0 is a Python int
        "osc": (lambda x, y: [-y[1], y[0]], lambda: 0, lambda: [1, 0]),             # vector valued
        "ric": (lambda x, y: -2 * x * y ** 2, lambda: mp.mpf(1) / 2, lambda: 4),   # y = 1/x^2 from x0 = 1/2
        "lin": (lambda x, y: [y[1], -y[0] / 4 + x], lambda: mp.mpf(-3) / 8, lambda: [mp.mpf(1) / 3, 2]),
    }


def cells(fn):
    return dict(zip(fn.__code__.co_freevars, fn.__closure__ or ()))


class Obj:
    """an odefun object plus access to its closure state"""

    def __init__(self, mp, F, x0, y0, instrument=False):
        self.mp = mp
        self.f = mp.odefun(F, x0, y0)
        ic = cells(self.f)
        self.ic = ic
        self.gs = ic["get_series"].cell_contents
        gc = cells(self.gs)
        self.bounds = gc["series_boundaries"].cell_contents
        self.data = gc["series_data"].cell_contents
        self.degree = gc["degree"].cell_contents
        self.workprec = ic["workprec"].cell_contents
        self.vector = ic["return_vector"].cell_contents
        self.rec = {}
        if instrument:
            gs, rec = self.gs, self.rec

            def get_series(x):
                seg = gs(x)
                rec["seg"] = seg
                return seg
            ic["get_series"].cell_contents = get_series

    def used_index(self):
        seg = self.rec.get("seg")
        if seg is None:
            return None
        for k, s in enumerate(self.data):
            if s is seg:
                return k
        return -1


def dy(v):
    """exact (man, exp) of an abscissa: Python int or finite mpf"""
    if isinstance(v, int):
        return (v, 0)
    s, m, e, b = v._mpf_
    if not m:
        if e:
            raise ValueError("special abscissa")
        return (0, 0)
    return (-m if s else m, e)


def scale(vals):
    """dyadic (man, exp) pairs -> integers on one common grid (strictly order preserving)"""
    E = min(e for _, e in vals)
    return [m << (e - E) for m, e in vals], E


def enc_x(v):
    m, e = dy(v)
    return "%d:%d" % (m, e)


def dec_x(mp, s):
    m, e = s.split(":")
    return mp.mpf((int(m), int(e)))


def seg_equal(a, b):
    return a[1] == b[1] and a[2] == b[2] and dy_eq(a[1], b[1]) and \
        [[c._mpf_ for c in s] for s in a[0]] == [[c._mpf_ for c in s] for s in b[0]]


def dy_eq(a, b):
    return type(a) is type(b) and (a == b if isinstance(a, int) else a._mpf_ == b._mpf_)


def val_key(v):
    if isinstance(v, list):
        return tuple(x._mpf_ for x in v)
    return (v._mpf_,)


def eval_seg(mp, seg, x, workprec, p, vector):
    """what interpolant computes from segment `seg` for abscissa x at call precision p"""
    ser, xa, xb = seg
    try:
        mp.prec = workprec
        y = [mp.polyval(s[::-1], x - xa) for s in ser]
    finally:
        mp.prec = p
    return [+yk for yk in y] if vector else +y[0]


def close_enough(mp, a, b, prec):
    la = a if isinstance(a, list) else [a]
    lb = b if isinstance(b, list) else [b]
    if len(la) != len(lb):
        return False
    save = mp.prec
    try:
        mp.prec = max(prec, 53) + 60
        tol = mp.ldexp(1, -(prec - 12))
        for u, v in zip(la, lb):
            if not (mp.isfinite(u) and mp.isfinite(v)):
                if u._mpf_ != v._mpf_:
                    return False
                continue
            if abs(u - v) > tol * max(1, abs(v)):
                return False
        return True
    finally:
        mp.prec = save


def outcome(fn, x):
    """('v', value) | ('E', exception name) | ('T', None)"""
    try:
        with timed():
            return ("v", fn(x))
    except CallTimeout:
        return ("T", None)
    except Exception as e:  # noqa
        return ("E", type(e).__name__)


# deterministic histories run first on every seed: a far point (many extensions), then x0, points of the first segments,
# an aborted far extension and its retry.  Entries: [x, fault, call precision, kind]
FIXED = [
    ("exp", 53, [["B:5", -1, 53, "boundary"], ["B:5", -1, 53, "repeat"], ["B:9", 1, 53, "boundary"], ["B:9", -1, 53, "boundary"],
                 ["B:1", -1, 53, "boundary"], ["B:0", -1, 53, "x0"]]),
    ("osc", 100, [["B:3", -1, 100, "boundary"], ["B:4", -1, 100, "boundary"], ["B:3", -1, 30, "boundary"], ["B:1", -1, 100, "boundary"]]),
    ("ric", 30, [["B:6", -1, 30, "boundary"], ["B:2", -1, 30, "boundary"], ["B:7", 0, 30, "boundary"], ["B:7", -1, 30, "boundary"]]),
    ("exp", 53, [[60, -1, 53, "far"], [0, -1, 53, "x0"], [0.001, -1, 53, "interior"], [0.25, -1, 53, "interior"],
                 [75, 20, 53, "far"], [0, -1, 53, "x0"], [75, -1, 53, "repeat"], [0, -1, 30, "x0"], [-1, -1, 53, "below_x0"]]),
    ("osc", 53, [[30, -1, 53, "far"], [0, -1, 53, "x0"], [0.5, -1, 53, "interior"], [40, 3, 100, "far"], [0, -1, 100, "x0"],
                 [40, -1, 53, "repeat"]]),
    ("ric", 53, [[12, -1, 53, "far"], [0.5, -1, 53, "x0"], [0.5009765625, -1, 53, "interior"], [0.25, -1, 53, "below_x0"],
                 [14, 0, 53, "far"], [0.5, -1, 53, "x0"]]),
    ("lin", 100, [[9, -1, 100, "far"], [-0.375, -1, 100, "x0"], [-0.25, -1, 100, "interior"], [11, 1, 15, "far"],
                  [-0.375, -1, 100, "x0"]]),
]


def async_witness(mp):
    """Outside the property's crash points (documented next to Mp.odeSeg_async_counterexample): an asynchronous
    exception delivered between `series_boundaries.append(xb)` and `series_data.append(...)`, simulated with a trace
    function that raises when get_series reaches the second append.  Returns what the real object does afterwards."""
    import inspect
    save = mp.prec
    out = {}
    try:
        mp.prec = 53
        o = Obj(mp, lambda x, y: y, 0, 1)
        src, first = inspect.getsourcelines(o.gs)
        target = [first + i for i, l in enumerate(src) if "series_data.append" in l]
        if len(target) != 1:
            return {"skipped": "second append not found"}
        code = o.gs.__code__

        class Async(Exception):
            pass

        def tracer(frame, event, arg):
            if frame.f_code is code:
                def local(frame, event, arg):
                    if event == "line" and frame.f_lineno == target[0]:
                        raise Async()
                    return local
                return local
            return None
        sys.settrace(tracer)
        try:
            o.f(1)
            out["interrupt"] = "not delivered"
        except Async:
            out["interrupt"] = "delivered"
        finally:
            sys.settrace(None)
        out["len_boundaries"], out["len_data"] = len(o.bounds), len(o.data)
        out["prec_restored"] = mp.prec == 53
        if len(o.bounds) == len(o.data) + 2:
            mid = (o.bounds[-2] + o.bounds[-1]) / 2
            oc = outcome(o.f, mid)
            out["f(inside the orphan interval)"] = oc[1] if oc[0] == "E" else str(oc[1])
            oc = outcome(o.f, o.bounds[-1])
            out["f(last boundary)"] = oc[1] if oc[0] == "E" else str(oc[1])
            out["boundaries_still_strictly_increasing"] = all(o.bounds[i] < o.bounds[i + 1] for i in range(len(o.bounds) - 1))
    except Exception as e:  # noqa
        out["error"] = type(e).__name__
    finally:
        sys.settrace(None)
        mp.prec = save
    return out


class OdeSegHarness:
    def __init__(self, seed):
        self.g = Gen(seed)
        self.r = self.g.r
        self.mpmath = import_repo()
        self.mp = self.mpmath.mp
        self.dis = []            # model / implementation differences
        self.fails = []          # property failures decided on the real code
        self.count = {}
        self.lines = []          # driver requests
        self.expect = []         # (check function, context) per driver line
        self.nontrivial = set()
        self.samples = []
        self.identical = 0
        self.tolerance_level = 0

    def bump(self, k, n=1):
        self.count[k] = self.count.get(k, 0) + n

    # ---------------------------------------------------------------------------------------
    def gen_history(self, ref, p0, nreq):
        """list of (x, fault, prec, kind); x is whatever the user would pass (mpf / int / float / str)"""
        mp, r = self.mp, self.r
        B = ref.bounds
        K = len(B)
        x0 = B[0]
        shape = r.choice(["random", "random", "ascending", "descending", "far_first_then_x0", "boundaries", "abort_then_retry"])
        self.g.note("history_shape", shape)
        save = mp.prec
        mp.prec = 600          # abscissa arithmetic below is exact
        try:
            top = B[K - 2]       # every query is < the last reference boundary
            lo = mp.mpf(x0)

            def pick():
                k = r.random()
                if k < 0.14:
                    return "x0", x0
                if k < 0.32:
                    return "boundary", B[r.randrange(1, K - 1)]
                if k < 0.44:
                    j = r.randrange(1, K - 1)
                    return "left_of_boundary", B[j] - mp.ldexp(1, -r.choice([10, 30, 70, ref.workprec + 3, 300]))
                if k < 0.56:
                    j = r.randrange(0, K - 2)
                    return "right_of_boundary", B[j] + mp.ldexp(1, -r.choice([10, 30, 70, ref.workprec + 3, 300]))
                if k < 0.76:
                    return "interior", lo + (top - lo) * mp.mpf(r.getrandbits(40)) / (1 << 40)
                if k < 0.86:
                    return "far", top - (top - lo) * mp.mpf(r.getrandbits(20)) / (1 << 26)
                if k < 0.93:
                    return "below_x0", lo - r.choice([mp.ldexp(1, -300), mp.ldexp(1, -20), 1, 1000])
                return "literal", None
            reqs = []
            for i in range(nreq):
                kind, x = pick()
                if kind == "literal":
                    # non-mpf arguments: interpolant converts them with ctx.convert at the CALL precision
                    x = r.choice([int(mp.floor(lo)) + r.randint(0, max(1, int(top - lo))), float(lo + (top - lo) / 3), "%s" % mp.nstr(lo + (top - lo) / 7, 12)])
                    if mp.mpf(x) >= top:
                        x = x0
                if reqs and r.random() < 0.12:
                    kind, x = "repeat", r.choice(reqs)[0]
                reqs.append([x, -1, None, kind])
            if shape in ("ascending", "descending"):
                reqs.sort(key=lambda q: mp.mpf(q[0]), reverse=(shape == "descending"))
            elif shape == "far_first_then_x0":
                reqs[0] = r.choice([[top, -1, None, "boundary"], [top - mp.ldexp(1, -r.choice([2, 40])), -1, None, "far"]])
                reqs[1] = [x0, -1, None, "x0"]
                if nreq > 3:
                    reqs[2] = [B[1], -1, None, "boundary"]
            elif shape == "boundaries":
                for q in reqs[::2]:
                    q[0], q[3] = B[r.randrange(0, K - 1)], "boundary"
            elif shape == "abort_then_retry":
                # aborted extension, the same abscissa again, x0, then a point inside the partially extended cache
                for i in range(0, nreq - 3, 4):
                    xf = lo + (top - lo) * (i + 4) / (nreq + 1)
                    reqs[i] = [xf, r.choice([0, 1, 2, K // 2]), None, "far"]
                    reqs[i + 1] = [xf, -1, None, "repeat"]
                    reqs[i + 2] = [x0, -1, None, "x0"]
        finally:
            mp.prec = save
        p = p0
        for q in reqs:
            if r.random() < 0.2:
                p = r.choice([p0, max(8, p0 - 20), p0 + 47, 15, 200])
            q[2] = p
            if q[1] < 0 and r.random() < (0.35 if q[3] in ("far", "interior", "boundary") else 0.1):
                q[1] = r.choice([0, 0, 1, 1, 2, 3, 6])
        return reqs

    # ---------------------------------------------------------------------------------------
    def run_history(self, name, p0, nreq=14, reqs=None, record=True):
        """one reference object, one object under test, one history; returns the replayable description"""
        mp, r = self.mp, self.r
        F, mk_x0, mk_y0 = ode_table(mp)[name]
        mp.prec = p0
        x0, y0 = mk_x0(), mk_y0()
        FW = FWrap(F)
        # reference: ONE uninterrupted extension
        ref = Obj(mp, FW, x0, y0)
        span = r.choice([1, 2, 3, 6, 10]) if reqs is None else None
        if reqs is None:
            st = outcome(ref.f, mp.mpf(x0) + span)
        else:
            mp.prec = 600
            xs = [mp.mpf(dec_x(mp, q[0]) if isinstance(q[0], str) and ":" in q[0] else q[0]) for q in reqs
                  if not (isinstance(q[0], str) and q[0].startswith("B:"))]
            mp.prec = p0
            st = outcome(ref.f, max([mp.mpf(x0)] + xs) + 1)
        if st[0] != "v":
            self.dis.append({"name": "odeseg:reference", "op": "odeseg", "line": "%s p0=%d" % (name, p0), "impl": str(st), "model": "", "note": "reference object could not be extended"})
            return None
        # two more segments so that every generated abscissa is strictly inside the table
        mp.prec = p0
        outcome(ref.f, ref.bounds[-1])
        outcome(ref.f, ref.bounds[-1])
        B = list(ref.bounds)
        if any(not (B[i] < B[i + 1]) for i in range(len(B) - 1)):
            self.dis.append({"name": "odeseg:incr", "op": "odeseg", "line": "%s p0=%d" % (name, p0), "impl": str(B[:6]), "model": "strictly increasing", "note": "hypothesis Incr fails on the real ode_taylor"})
            return None
        if reqs is None:
            reqs = self.gen_history(ref, p0, nreq)
        else:
            def dec(v):
                if isinstance(v, str) and v.startswith("B:"):       # k-th boundary of the reference object
                    return B[min(int(v[2:]), len(B) - 2)]
                return dec_x(mp, v) if isinstance(v, str) and ":" in v else v
            reqs = [[dec(q[0]), q[1], q[2], q[3] if len(q) > 3 else "replay"] for q in reqs]
        desc = {"kind": "odeseg-history", "ode": name, "p0": p0,
                "history": [[enc_x(q[0]) if not isinstance(q[0], (int, float, str)) else q[0], q[1], q[2], q[3]] for q in reqs]}
        # object under test
        mp.prec = p0
        obj = Obj(mp, FW, x0, y0, instrument=True)
        obs = []
        hist_tokens = []
        first_fail = None
        t_hist = time.time()
        for i, (xraw, fault, p, kind) in enumerate(reqs):
            if time.time() - t_hist > HISTORY_TIMEOUT:
                self.dis.append({"name": "odeseg:timeout", "op": "odeseg", "line": json.dumps(desc)[:400], "impl": "history abandoned after %.0f s" % HISTORY_TIMEOUT, "model": "", "note": "request %d" % i})
                return desc
            mp.prec = p
            x = mp.convert(xraw)
            try:
                xd = dy(x)
            except ValueError:
                continue
            bounds_before = list(obj.bounds)
            len_before = len(obj.data)
            obj.rec.clear()
            arm = None
            if fault >= 0:
                arm = fault * obj.degree + r.randrange(obj.degree)
            FW.reset(arm)
            oc = outcome(obj.f, xraw)
            fired = FW.fired
            FW.reset(None)
            prec_after = mp.prec
            mp.prec = p
            self.bump("calls")
            self.g.note("query_kind", kind)
            self.g.note("call_prec_vs_p0", "same" if p == p0 else ("lower" if p < p0 else "higher"))
            if oc[0] == "T":
                self.dis.append({"name": "odeseg:timeout", "op": "odeseg", "line": json.dumps(desc)[:400], "impl": "timeout", "model": "", "note": "request %d" % i})
                return desc
            # ---- property, decided on the real code: mp.prec restored
            if prec_after != p and first_fail is None:
                first_fail = {"site": SITE, "what": "mp.prec is %d instead of %d after f(x)%s" % (prec_after, p, " aborted by an exception" if oc[0] == "E" else ""),
                              "input": dict(desc, upto=i)}
            # ---- property: after the history versus a fresh object queried only at x
            mp.prec = p0
            fresh = Obj(mp, FW, x0, y0)
            mp.prec = p
            of = outcome(fresh.f, xraw)
            mp.prec = p
            self.bump("fresh_compared")
            if of[0] == "T":
                self.dis.append({"name": "odeseg:timeout", "op": "odeseg", "line": json.dumps(desc)[:400], "impl": "timeout (fresh object)", "model": "", "note": "request %d" % i})
                return desc
            injected = (oc == ("E", "Injected"))
            if not injected and first_fail is None:
                bad = None
                if oc[0] != of[0] or (oc[0] == "E" and oc[1] != of[1]):
                    bad = "f(x) after the history: %s; fresh object: %s" % (self.show(oc), self.show(of))
                elif oc[0] == "v":
                    if val_key(oc[1]) == val_key(of[1]):
                        self.identical += 1
                    elif close_enough(mp, oc[1], of[1], min(p, p0)):
                        self.tolerance_level += 1
                    else:
                        bad = "f(x) after the history = %s, fresh object gives %s" % (self.show(oc), self.show(of))
                if bad:
                    first_fail = {"site": SITE, "what": bad, "input": dict(desc, upto=i, x=enc_x(x))}
            # ---- observation for the model comparison
            if oc[0] == "v":
                rk = "c" if len(obj.data) == len_before else "e"
            elif oc == ("E", "ValueError"):
                rk = "V"
            elif injected:
                rk = "x"
            else:
                rk = "O:" + str(oc[1])
            # a fault armed beyond the F-calls of the request never fires: the model handles that by itself
            obs.append({"i": i, "x": x, "p": p, "kind": rk, "idx": obj.used_index() if oc[0] == "v" else None,
                        "len": len(obj.data), "nb": len(obj.bounds), "value": oc[1] if oc[0] == "v" else None,
                        "bounds_before": bounds_before, "fault": fault, "fired": fired,
                        "bounds_ok": len(obj.bounds) <= len(B) and all(dy_eq(a, b) for a, b in zip(obj.bounds, B)),
                        "data_ok": len(obj.data) <= len(ref.data) and all(seg_equal(a, b) for a, b in zip(obj.data, ref.data))})
            hist_tokens.append((xd, fault))
            key = (name, p0, len_before, xd, fault)
            if len_before > 1 or rk in ("e", "x", "V"):
                self.nontrivial.add(key)
            self.g.note("outcome", rk)
        if first_fail is not None:
            self.fails.append(first_fail)
        if record:
            self.emit(name, p0, desc, ref, B, obs, hist_tokens)
        if len(self.samples) < 4:
            self.samples.append(json.dumps(desc)[:300])
        return desc

    def show(self, oc):
        if oc[0] == "v":
            return self.mp.nstr(oc[1], 25) if not isinstance(oc[1], list) else str([self.mp.nstr(v, 25) for v in oc[1]])
        return "%s raised" % oc[1] if oc[0] == "E" else "timeout"

    # ---------------------------------------------------------------------------------------
    def emit(self, name, p0, desc, ref, B, obs, hist_tokens):
        """driver lines for one history"""
        if not obs:
            return
        vals = [dy(b) for b in B] + [t[0] for t in hist_tokens]
        for o in obs:
            vals += [dy(b) for b in o["bounds_before"]]
        ints, E = scale(vals)
        nB = len(B)
        Bi = ints[:nB]
        xi = ints[nB:nB + len(hist_tokens)]
        line = "odeseg_hist %d %d %s %s" % (Bi[0], nB - 1, " ".join(map(str, Bi[1:])),
                                            " ".join("%d %d" % (xi[k], hist_tokens[k][1]) for k in range(len(obs))))
        self.lines.append(line)
        self.expect.append(("hist", (name, p0, desc, ref, obs)))
        pos = nB + len(hist_tokens)
        for k, o in enumerate(obs):
            nb = len(o["bounds_before"])
            bi = ints[pos:pos + nb]
            pos += nb
            self.lines.append("odeseg_sel %d %d %s %d" % (Bi[0], nb, " ".join(map(str, bi)), xi[k]))
            self.expect.append(("sel", (name, p0, desc, o)))

    def gen_bisect(self, n):
        r = self.r
        for _ in range(n):
            k = r.randint(0, 12)
            a = [r.randint(-20, 20) for _ in range(k)]
            shape = r.choice(["sorted", "sorted", "strict", "unsorted"])
            if shape == "sorted":
                a.sort()
            elif shape == "strict":
                a = sorted(set(a))
            x = r.choice(a) if a and r.random() < 0.6 else r.randint(-25, 25)
            side = r.choice("rl")
            self.g.note("bisect_shape", shape)
            self.lines.append("odeseg_bisect %s %d %s %d" % (side, len(a), " ".join(map(str, a)), x) if a else
                              "odeseg_bisect %s 0 %d" % (side, x))
            want = _bisect.bisect_right(a, x) if side == "r" else _bisect.bisect_left(a, x)
            self.expect.append(("bisect", "I:%d" % want))
            self.bump("bisect_cases")

    def check_answers(self):
        if not self.lines:
            return
        ans = Driver().ask(self.lines)
        mp = self.mp
        for line, (kind, ctxt), a in zip(self.lines, self.expect, ans):
            if kind == "bisect":
                if a != ctxt:
                    self.dis.append({"name": "odeseg:bisect", "op": "odeseg_bisect", "line": line[:300], "impl": ctxt, "model": a, "note": "CPython bisect vs model"})
                continue
            if kind == "sel":
                name, p0, desc, o = ctxt
                if o["kind"] == "c":
                    impl = "I:%s" % o["idx"]
                elif o["kind"] in ("e", "x"):
                    impl = "X"
                elif o["kind"] == "V":
                    impl = "E:ValueError"
                else:
                    impl = "E:" + o["kind"][2:]
                self.bump("sel_compared")
                if impl != a:
                    self.dis.append({"name": "odeseg:select", "op": "odeseg_sel", "line": line[:300], "impl": impl, "model": a,
                                     "note": "lookup on the real closure state, request %d of %s" % (o["i"], json.dumps(desc)[:300])})
                continue
            name, p0, desc, ref, obs = ctxt
            if not a.startswith("L:"):
                self.dis.append({"name": "odeseg:history", "op": "odeseg_hist", "line": line[:300], "impl": "", "model": a, "note": "driver"})
                continue
            items = a[2:].split(";")
            for o, it in zip(obs, items):
                mk, midx, mlen = it.split(",")
                impl = "%s,%s,%d" % (o["kind"], "-" if o["idx"] is None else o["idx"], o["len"])
                why = None
                if impl != it:
                    why = "outcome/segment/len"
                elif o["nb"] != o["len"] + 1:
                    why = "len(series_boundaries) = %d, len(series_data) = %d" % (o["nb"], o["len"])
                elif not o["bounds_ok"]:
                    why = "series_boundaries is not a prefix of the reference boundaries"
                elif not o["data_ok"]:
                    why = "series_data differs from the reference segments"
                elif mk in ("c", "e"):
                    want = eval_seg(mp, ref.data[int(midx)], o["x"], ref.workprec, o["p"], ref.vector)
                    if val_key(want) != val_key(o["value"]):
                        why = "value is not mpolyval(ser_k, x - xa_k) of the model's segment k=%s" % midx
                self.bump("requests_compared")
                if why:
                    self.dis.append({"name": "odeseg:history", "op": "odeseg_hist", "line": line[:300], "impl": impl, "model": it,
                                     "note": "%s; request %d of %s" % (why, o["i"], json.dumps(desc)[:400])})
                    break
        self.lines, self.expect = [], []

    # ---------------------------------------------------------------------------------------
    def run(self, per_ode, precs=(53, 30, 100), nreq=14, time_budget=None):
        mp = self.mp
        save = mp.prec
        t0 = time.time()
        try:
            self.gen_bisect(60 * max(1, per_ode // 4))
            names = sorted(ode_table(mp))
            for name, p0, hist in FIXED:
                self.g.note("ode", name)
                self.g.note("history_shape", "fixed")
                self.run_history(name, p0, reqs=[list(q) for q in hist])
                self.bump("histories")
            self.async_witness = async_witness(mp)
            for h in range(per_ode):
                for name in names:
                    if time_budget and time.time() - t0 > time_budget:
                        self.bump("histories_skipped_time_budget")
                        continue
                    p0 = precs[h % len(precs)] if h < len(precs) else self.r.choice(list(precs) + [self.r.randint(20, 160)])
                    self.g.note("ode", name)
                    self.g.note("creation_prec", p0)
                    self.run_history(name, p0, nreq)
                    self.bump("histories")
            self.check_answers()
        finally:
            mp.prec = save


def replay(inp):
    """re-run a recorded failing history; True when the property still fails on the real code"""
    H = OdeSegHarness(0)
    save = H.mp.prec
    try:
        H.run_history(inp["ode"], inp["p0"], reqs=[list(q) for q in inp["history"]], record=False)
    finally:
        H.mp.prec = save
    return bool(H.fails)


def run_odeseg(ctx):
    """-> (coverage dict, failing_inputs list, disagreements list) for harness/props/C33.py"""
    t0 = time.time()
    H = OdeSegHarness(ctx.seed)
    H.run(8 if ctx.quick else 60, time_budget=45 if ctx.quick else 1500)
    cov = {
        "evaluations": H.count.get("calls", 0) + H.count.get("fresh_compared", 0) + H.count.get("bisect_cases", 0),
        "distinct_nontrivial": len(H.nontrivial),
        "rule": "per ODE (exp: y'=y, x0 a Python int; osc: harmonic oscillator, vector valued; ric: y'=-2xy^2 from x0=1/2; lin: "
                "non-autonomous 2-vector from a negative x0) and creation precision, a seeded history of calls f(x): x0 exactly, cached "
                "and not yet cached boundary points, points 2^-k left/right of boundaries, interior, far (several extensions), repeated, "
                "x < x0, int/float/str arguments, calls aborted by an exception raised by F at a chosen call of the j-th ode_taylor, "
                "call-precision switches; after EVERY call the closure state and the selected segment are compared with the Lean model "
                "and the outcome with a fresh object queried only at x; non-trivial = the cache had been extended before the call, or the "
                "call extends it, is aborted or raises ValueError (distinct (ode, p0, cache length, x, fault) counted)",
        "samples": H.samples,
        "histories": H.count.get("histories", 0),
        "calls_on_real_objects": H.count.get("calls", 0),
        "requests_compared_with_model": H.count.get("requests_compared", 0),
        "lookups_compared_on_real_state": H.count.get("sel_compared", 0),
        "bisect_cases_vs_cpython": H.count.get("bisect_cases", 0),
        "fresh_object_comparisons": H.count.get("fresh_compared", 0),
        "history_vs_fresh_bit_identical": H.identical,
        "history_vs_fresh_tolerance_level": H.tolerance_level,
        "input_distribution": {k: {str(a): b for a, b in v.items()} for k, v in H.g.hist.items()},
        "skipped_for_time": H.count.get("histories_skipped_time_budget", 0),
        "async_interrupt_between_the_two_appends_(outside_the_quantifier)": getattr(H, "async_witness", None),
        "time_s": round(time.time() - t0, 1),
    }
    return cov, H.fails, H.dis


if __name__ == "__main__":
    n = int(sys.argv[1]) if len(sys.argv) > 1 else 4
    seed = int(sys.argv[2]) if len(sys.argv) > 2 else 0
    t = time.time()
    H = OdeSegHarness(seed)
    H.run(n)
    print("seed", seed, "counts", json.dumps(H.count, sort_keys=True), "nontrivial", len(H.nontrivial))
    print("history vs fresh: bit-identical %d, tolerance-level %d" % (H.identical, H.tolerance_level))
    print("histogram:", json.dumps({k: {str(a): b for a, b in v.items()} for k, v in H.g.hist.items()}, sort_keys=True))
    print("async witness (outside the quantifier):", getattr(H, "async_witness", None))
    print("disagreements", len(H.dis), "failing inputs", len(H.fails), "time %.1f" % (time.time() - t))
    for d in H.dis[:6]:
        print("DIS", str(d)[:700])
    for f in H.fails[:6]:
        print("FAIL", str(f)[:900])
    sys.exit(1 if (H.dis or H.fails) else 0)
