"""C37 — pure-Python vs GMP backend.

gmpy2 is not installed: no differential run.  This module
  1. enumerates with `ast` every backend-dependent site of /repo/mpmath (conditionals on BACKEND, uses of the names
     gmpy / sage / sage_utils, modules constructing MPZ values) — `sites()`; the committed classification is
     harness/backend_sites.json (key -> what is substituted, what covers the pure-Python side);
  2. T1 streams for the pure-Python implementations that a GMP routine replaces (`gen_*`), against the Lean model
     through mpdrv, with structured inputs (2^k, 2^k±1, k^2±1, the 300-bit bisect / math.log boundary, byte-aligned
     trailing zeros, ...).
"""
import os, sys, ast, json, math, random

HERE = os.path.dirname(os.path.abspath(__file__))
sys.path.insert(0, HERE)
from common import REPO, Driver, InfraError, enc_mpf, enc_result, enc_exc, Gen  # noqa

sys.set_int_max_str_digits(0)
BACKEND_NAMES = ("gmpy", "sage", "sage_utils", "BACKEND")


def _src(node):
    try:
        return ast.unparse(node)
    except Exception:
        return "?"


def _assigned(stmts):
    out = []
    for s in stmts:
        for n in ast.walk(s):
            if isinstance(n, ast.Assign):
                for t in n.targets:
                    for m in ast.walk(t):
                        if isinstance(m, ast.Name):
                            out.append(m.id)
                        elif isinstance(m, ast.Attribute):
                            out.append(_src(m))
            elif isinstance(n, (ast.FunctionDef, ast.ClassDef)):
                out.append(n.name)
            elif isinstance(n, (ast.Import, ast.ImportFrom)):
                for a in n.names:
                    out.append("import:" + (a.asname or a.name))
    seen, res = set(), []
    for x in out:
        if x not in seen:
            seen.add(x); res.append(x)
    return res


class _Visitor(ast.NodeVisitor):
    def __init__(self, rel):
        self.rel = rel
        self.scope = []
        self.sites = []
        self.in_backend_if = 0
        self.mpz = 0

    def _where(self):
        return ".".join(self.scope) or "<module>"

    def visit_FunctionDef(self, node):
        self.scope.append(node.name)
        self.generic_visit(node)
        self.scope.pop()

    visit_ClassDef = visit_FunctionDef

    def visit_If(self, node):
        names = {n.id for n in ast.walk(node.test) if isinstance(n, ast.Name)}
        if "BACKEND" in names or (names & {"gmpy", "sage"}):
            key = "%s::%s::if %s" % (self.rel, self._where(), _src(node.test))
            self.sites.append({"key": key, "file": self.rel, "line": node.lineno, "kind": "conditional",
                               "test": _src(node.test), "then_binds": _assigned(node.body), "else_binds": _assigned(node.orelse)})
            self.in_backend_if += 1
            self.generic_visit(node)
            self.in_backend_if -= 1
        else:
            self.generic_visit(node)

    def visit_Attribute(self, node):
        if isinstance(node.value, ast.Name) and node.value.id in ("gmpy", "sage", "sage_utils") and not self.in_backend_if:
            key = "%s::%s::use %s" % (self.rel, self._where(), _src(node))
            self.sites.append({"key": key, "file": self.rel, "line": node.lineno, "kind": "use", "expr": _src(node)})
        self.generic_visit(node)

    def visit_Call(self, node):
        if isinstance(node.func, ast.Name) and node.func.id == "MPZ":
            self.mpz += 1
        # getattr(obj, "_sage_xxx", default): a string-keyed backend hook
        if isinstance(node.func, ast.Name) and node.func.id == "getattr" and len(node.args) >= 2 \
                and isinstance(node.args[1], ast.Constant) and isinstance(node.args[1].value, str) \
                and ("sage" in node.args[1].value or "gmpy" in node.args[1].value):
            key = "%s::%s::hook %s" % (self.rel, self._where(), node.args[1].value)
            self.sites.append({"key": key, "file": self.rel, "line": node.lineno, "kind": "hook", "expr": _src(node)})
        self.generic_visit(node)


def sites(repo=REPO):
    """all backend-dependent sites of the package (tests excluded), with stable keys (no line numbers in keys)"""
    out = []
    base = os.path.join(repo, "mpmath")
    for root, dirs, files in os.walk(base):
        dirs[:] = [d for d in dirs if d != "tests"]
        for fn in sorted(files):
            if not fn.endswith(".py"):
                continue
            p = os.path.join(root, fn)
            rel = os.path.relpath(p, base)
            tree = ast.parse(open(p).read())
            v = _Visitor(rel)
            v.visit(tree)
            # de-duplicate keys inside a file (the same test may occur twice in one scope: number them)
            cnt = {}
            for s in v.sites:
                k = s["key"]
                cnt[k] = cnt.get(k, 0) + 1
                if cnt[k] > 1:
                    s["key"] = "%s #%d" % (k, cnt[k])
            out += v.sites
            if v.mpz:
                out.append({"key": "%s::<module>::MPZ-typed integers" % rel, "file": rel, "line": 0, "kind": "mpz", "count": v.mpz})
    return out


if __name__ == "__main__":
    ss = sites()
    if len(sys.argv) > 1 and sys.argv[1] == "--dump":
        for s in ss:
            print(json.dumps(s))
    else:
        print(len(ss), "sites")


# ------------------------------------------------------------------------------------------------
# T1 streams for the pure-Python side of the substituted routines
# ------------------------------------------------------------------------------------------------

class BackendOps:
    def __init__(self):
        import mpmath.libmp.libintmath as LI
        import mpmath.libmp.libmpf as L
        self.LI, self.L = LI, L

    def structured_int(self, g, lo_bits=1, hi_bits=2500):
        """2^k, 2^k±1, k^2, k^2±1, all-ones, byte-aligned zeros, random; extra weight on the 290..310-bit window"""
        r = g.r
        c = r.random()
        if lo_bits > 80:
            bnd = r.choice([400, 600, 800, 1600])          # the cut-offs of the square-root code
            nb = r.choice([bnd - 1, bnd, bnd + 1, bnd + 2]) if c < 0.4 else r.randint(lo_bits, hi_bits)
            nb = max(lo_bits, nb)
            win = "sqrt-cutoffs" if c < 0.4 else "large"
        elif c < 0.30:
            nb = r.choice([298, 299, 300, 301, 302]) if r.random() < 0.7 else r.randint(290, 310)
            win = "bisect-boundary"
        elif c < 0.55:
            nb = r.randint(lo_bits, max(lo_bits, 80))
            win = "small"
        elif c < 0.85:
            nb = r.randint(max(lo_bits, 80), 1200)
            win = "medium"
        else:
            nb = r.randint(1200, hi_bits) if r.random() < 0.9 else r.randint(10 ** 4, 10 ** 5)
            win = "large"
        g.note("window", win)
        k = r.random()
        top = 1 << (nb - 1)
        if k < 0.2:
            n, shape = top, "2^k"
        elif k < 0.3:
            n, shape = top + 1, "2^k+1"
        elif k < 0.4:
            n, shape = max(1, top - 1), "2^k-1"
        elif k < 0.5:
            n, shape = (1 << nb) - 1, "all-ones"
        elif k < 0.7:
            h = max(1, nb // 2)
            q = (1 << (h - 1)) | r.getrandbits(max(1, h - 1))
            n, shape = q * q + r.choice([-1, 0, 1, 2 * q, 2 * q + 1]), "k^2+-"
            n = max(1, n)
        elif k < 0.8:
            z = r.choice([7, 8, 9, 15, 16, 17, 24, 64, 256])
            n, shape = ((top | r.getrandbits(nb - 1)) >> min(z, nb - 1)) << min(z, nb - 1), "byte-aligned-zeros"
            n = n or 1
        else:
            n, shape = top | r.getrandbits(nb - 1), "random"
        g.note("shape", shape)
        return n

    def gen_py_bitcount(self, g):
        n = self.structured_int(g)
        L = n.bit_length()
        est = int(math.log(n, 2)) if n >= (1 << 299) else 0
        if n >= (1 << 299):
            g.note("bitcount_hyp_est_in_reach", (L - 6 <= est <= L + 4))
            g.note("bitcount_est_minus_exact", est - (L - 1))
        meta = {"spec": "I:%d" % L, "site": "libintmath.python_bitcount", "n": n}
        return "py_bitcount %x %d" % (n, est), (lambda: "I:%d" % self.LI.python_bitcount(n)), meta

    def gen_py_trailing(self, g):
        n = self.structured_int(g)
        if g.r.random() < 0.6:
            n <<= g.r.choice([0, 1, 7, 8, 9, 15, 16, 17, 23, 24, 25, 63, 64, 65, 255, 256, 257, g.r.randint(0, 3000)])
        if g.r.random() < 0.02:
            n = 0
        t = (n & -n).bit_length() - 1 if n else 0
        meta = {"spec": "I:%d" % t, "site": "libintmath.python_trailing", "n": n}
        return "py_trailing %x" % n, (lambda: "I:%d" % self.LI.python_trailing(n)), meta

    def gen_isqrt_small(self, g):
        LI = self.LI
        x = self.structured_int(g, 51, 2400)
        while x < (1 << 50):
            x = self.structured_int(g, 51, 2400)
        if x < LI._1_800:
            r0 = int(x ** 0.5 * 1.00000000000001) + 1
        else:
            bc = LI.python_bitcount(x); n = bc // 2
            r0 = int((x >> (2 * n - 100)) ** 0.5 + 2) << (n - 50)
        g.note("isqrt_small_hyp_r0_ge_root", r0 >= math.isqrt(x))
        meta = {"spec": "I:%d" % math.isqrt(x), "site": "libintmath.isqrt_small_python", "n": x}
        return "isqrt_small %d %d" % (x, r0), (lambda: "I:%d" % LI.isqrt_small_python(x)), meta

    def gen_isqrt_small_float(self, g):
        # the pure float branch x < 2^50 (no model: decided against math.isqrt)
        x = g.r.choice([g.r.getrandbits(50), g.r.getrandbits(25) ** 2, max(1, g.r.getrandbits(25) ** 2 - 1), (1 << 50) - 1,
                        g.r.randint(0, 1000)])
        meta = {"spec": "I:%d" % math.isqrt(x), "site": "libintmath.isqrt_small_python", "n": x, "nomodel": True}
        return None, (lambda: "I:%d" % self.LI.isqrt_small_python(x)), meta

    def gen_sqrtrem(self, g):
        LI = self.LI
        x = self.structured_int(g, 601, 2500)
        while x < LI._1_600:
            x = self.structured_int(g, 601, 2500)
        y0 = int(LI.isqrt_fast_python(x))
        s = math.isqrt(x)
        g.note("sqrtrem_hyp_isqrt_fast_ge_root_minus_1", y0 + 1 >= s)
        g.note("isqrt_fast_error", s - y0)
        meta = {"spec": "P:I:%d,I:%d" % (s, x - s * s), "site": "libintmath.sqrtrem_python", "n": x}

        def thunk():
            y, rem = LI.sqrtrem_python(x)
            return "P:I:%d,I:%d" % (y, rem)
        return "sqrtrem_large %d %d" % (x, y0), thunk, meta

    def gen_isqrt_fast(self, g):
        # no model of the float/Newton code: decided against the reach needed by sqrtrem_exact (>= isqrt - 1) and the
        # documented "1 ulp" (<= isqrt + 1)
        x = self.structured_int(g, 1, 2500)
        s = math.isqrt(x)
        meta = {"site": "libintmath.isqrt_fast_python", "n": x, "nomodel": True, "reach": (s - 1, s + 1)}
        return None, (lambda: "I:%d" % self.LI.isqrt_fast_python(x)), meta

    def gen_numeral(self, g):
        """sizes as the callers pass them (the digit count, up to a few digits off; 0 = 'small'): the result must be
        str(n).  Oversized `size` (>= twice the digit count) makes numeral_python emit leading zeros where gmpy.digits
        would not: counted as information (`numeral_oversize_leading_zeros`), no caller does that."""
        n = self.structured_int(g, 1, 6000)
        if g.r.random() < 0.3:
            n = 10 ** g.r.randint(0, 1500) + g.r.choice([-1, 0, 1])
            n = max(n, 0)
        nd = len(str(n))
        if g.r.random() < 0.1:
            size = g.r.choice([2 * nd + 250, 1000 + 2 * nd])
            out = self.LI.numeral_python(n, 10, size)
            g.note("numeral_oversize_leading_zeros", out != str(n))
        size = max(0, g.r.choice([0, nd, nd + g.r.randint(-3, 3), nd + 1, nd - 1]))
        meta = {"spec": "S:" + str(n), "site": "libintmath.numeral_python", "n": n}
        return "numeral %x %d" % (n, size), (lambda: "S:" + self.LI.numeral_python(n, 10, size)), meta

    def _mpf(self, g, prec):
        return g.mpf(prec, special_p=0.03)

    def gen_mul_pair(self, g):
        """python_mpf_mul vs gmpy_mpf_mul (both plain Python) AND the model"""
        prec = g.prec() if g.r.random() < 0.9 else 0
        rnd = g.rnd()
        s, t = self._mpf(g, prec or None), self._mpf(g, prec or None)
        L = self.L

        def thunk():
            a = enc_result(L.python_mpf_mul(s, t, prec, rnd))
            b = enc_result(L.gmpy_mpf_mul(s, t, prec, rnd))
            return a if a == b else "DIFF:%s|%s" % (a, b)
        return "mul %s %s %d %s" % (enc_mpf(s), enc_mpf(t), prec, rnd), thunk, {"site": "libmpf.gmpy_mpf_mul", "pair": True}

    def gen_mul_int_pair(self, g):
        prec = g.prec()
        rnd = g.rnd()
        s = self._mpf(g, prec)
        r = g.r
        n = r.choice([0, 1, -1, 2, 3, 10, -7, 255, 256, 257, (1 << 31) - 1, 1 << 31, (1 << 31) + 1, 1 << 64,
                      r.getrandbits(r.randint(1, 400)) * r.choice([-1, 1])])
        L = self.L

        def thunk():
            a = enc_result(L.python_mpf_mul_int(s, n, prec, rnd))
            b = enc_result(L.gmpy_mpf_mul_int(s, n, prec, rnd))
            return a if a == b else "DIFF:%s|%s" % (a, b)
        return "mul_int %s %d %d %s" % (enc_mpf(s), n, prec, rnd), thunk, {"site": "libmpf.gmpy_mpf_mul_int", "pair": True}

    def gen_normalize(self, g):
        L = self.L
        prec = g.prec()
        rnd = g.rnd()
        k_ = g.r.random()
        if k_ < 0.4:
            m = self.structured_int(g)
        elif k_ < 0.6:
            m = g.boundary_man(prec)
        else:
            m = g.man(g.nbits(prec), prec)
        if g.r.random() < 0.02:
            m = 0
        sign = g.r.randint(0, 1)
        e = g.exp()
        bc = self.LI.python_bitcount(m)          # what every caller passes on the Python backend
        odd = g.r.random() < 0.4 and m
        if odd:
            m |= 1
            bc = self.LI.python_bitcount(m)
        f = L._normalize1 if odd else L._normalize
        name = "normalize1" if odd else "normalize"
        return ("%s %d %x %d %d %d %s" % (name, sign, m, e, bc, prec, rnd), (lambda: enc_result(f(sign, m, e, bc, prec, rnd))),
                {"site": "libmpf._normalize", "spec": _norm_spec(sign, m, e, prec, rnd), "n": m})

    def gen_from_man_exp(self, g):
        L = self.L
        prec = g.prec() if g.r.random() < 0.8 else 0
        rnd = g.rnd()
        m = (g.boundary_man(prec) if (prec and g.r.random() < 0.25) else self.structured_int(g)) * g.r.choice([-1, 1])
        if g.r.random() < 0.03:
            m = 0
        e = g.exp()
        return ("from_man_exp %d %x %d %d %s" % (1 if m < 0 else 0, abs(m), e, prec, rnd),
                (lambda: enc_result(L.from_man_exp(m, e, prec, rnd) if prec else L.from_man_exp(m, e))),
                {"site": "libmpf.from_man_exp", "spec": _norm_spec(1 if m < 0 else 0, abs(m), e, prec, rnd), "n": abs(m)})


def _norm_spec(sign, m, e, prec, rnd):
    """what gmpy's _mpmath_normalize / _mpmath_create are documented to return: the canonical tuple of (+-m)*2^e correctly
    rounded to prec bits (prec = 0: exact), computed in exact integer arithmetic (harness/spec.py)"""
    from fractions import Fraction
    import spec
    if m == 0:
        return enc_mpf((0, 0, 0, 0))
    if prec:
        q, sc = spec.round_ref(prec, rnd, Fraction(-m if sign else m))
        q = abs(q)
    else:
        q, sc = m, 0
    tz = (q & -q).bit_length() - 1
    q >>= tz
    return enc_mpf((sign, q, e + sc + tz, q.bit_length()))


T1_OPS = ["py_bitcount", "py_trailing", "isqrt_small", "isqrt_small_float", "sqrtrem", "isqrt_fast", "numeral", "mul_pair",
          "mul_int_pair", "normalize", "from_man_exp"]
T1_WEIGHTS = [14, 12, 8, 4, 6, 8, 5, 14, 10, 14, 6]


def run_t1(ncases, seed, ops=None):
    """returns (stats, disagreements (impl != model), spec_failures (impl != mathematical spec), gen)"""
    bo = BackendOps()
    g = Gen(seed)
    ops = ops or T1_OPS
    w = [T1_WEIGHTS[T1_OPS.index(o)] for o in ops]
    lines, impl, metas, names = [], [], [], []
    for _ in range(ncases):
        op = g.r.choices(ops, w)[0]
        line, thunk, meta = getattr(bo, "gen_" + op)(g)
        try:
            out = thunk()
        except Exception as e:  # noqa
            out = enc_exc(e)
        lines.append(line); impl.append(out); metas.append(meta); names.append(op)
    idx = [i for i, l in enumerate(lines) if l is not None]
    ans = Driver().ask([lines[i] for i in idx])
    model = [None] * len(lines)
    for i, a in zip(idx, ans):
        model[i] = a
    dis, spec_fail, per_op = [], [], {}
    for i, (a, m, meta) in enumerate(zip(impl, model, metas)):
        d = per_op.setdefault(names[i], [0, 0, 0])
        d[0] += 1
        bad = False
        if a.startswith("DIFF:"):
            spec_fail.append({"site": meta["site"], "what": "python_ and gmpy_ variant of the same multiplication differ: " + a[:300],
                              "input": {"line": lines[i]}})
            bad = True
        elif "spec" in meta and a != meta["spec"]:
            spec_fail.append({"site": meta["site"], "what": "pure-Python routine differs from the specification the GMP routine is documented to meet: got %s, spec %s" % (a[:120], meta["spec"][:120]),
                              "input": {"line": lines[i] or names[i], "n": hex(meta["n"])}})
            bad = True
        elif "reach" in meta:
            v = int(a[2:]) if a.startswith("I:") else None
            lo, hi = meta["reach"]
            if v is None or not (lo <= v <= hi):
                spec_fail.append({"site": meta["site"], "what": "isqrt_fast_python(x) = %s outside [isqrt-1, isqrt+1] = [%d, %d]" % (a[:80], lo, hi),
                                  "input": {"n": hex(meta["n"])}})
                bad = True
        if bad:
            d[2] += 1
        if m is not None and a != m and not a.startswith("DIFF:"):
            d[1] += 1
            dis.append({"index": i, "op": names[i], "line": lines[i], "impl": a[:300], "model": m[:300]})
    return {"per_op": per_op, "lines": lines, "impl": impl}, dis, spec_fail, g


def exhaustive_small(limit=1 << 16):
    """python_bitcount / python_trailing against int.bit_length / lowest set bit for every n < limit"""
    import mpmath.libmp.libintmath as LI
    bad = []
    for n in range(limit):
        if LI.python_bitcount(n) != n.bit_length():
            bad.append(("bitcount", n))
        t = (n & -n).bit_length() - 1 if n else 0
        if LI.python_trailing(n) != t:
            bad.append(("trailing", n))
    return bad
