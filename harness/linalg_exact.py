"""Exact-arithmetic tie for LU_decomp (DESIGN.md C30 "Tie"): the REAL methods of
mpmath.matrices.linalg.LinearAlgebraMethods (LU_decomp, L_solve, U_solve, lu, det's sign rule) are run over a
`fractions.Fraction`-backed shim context (the methods are written against ctx.*), so pivot choices, singularity decisions
and structure can be compared exactly with an independent exact model of the documented algorithm
(scaled partial pivoting: maximise |a_kj| / sum_l |a_kl| over rows k >= j, strict '>' keeps the first maximum;
singular iff a row sum or the chosen pivot is zero).  Real rational matrices only.
"""
from fractions import Fraction


def make_ctx():
    from mpmath.matrices.linalg import LinearAlgebraMethods
    from mpmath.matrices.matrices import MatrixMethods

    class FracCtx(LinearAlgebraMethods, MatrixMethods):
        zero = Fraction(0)
        one = Fraction(1)
        eps = Fraction(0)          # exact arithmetic: the singularity tolerance degenerates to "== 0"
        inf = float("inf")
        prec = 0

        def __init__(ctx):
            MatrixMethods.__init__(ctx)

        @staticmethod
        def convert(x, **kw):
            return x if isinstance(x, Fraction) else Fraction(x)

        @staticmethod
        def absmin(x):
            return abs(x)

        absmax = absmin

        @staticmethod
        def fsum(it, absolute=False, squared=False):
            s = Fraction(0)
            for t in it:
                if absolute:
                    t = abs(t)
                if squared:
                    t = t * t
                s += t
            return s

        @staticmethod
        def fdot(A, B=None, conjugate=False):
            if B is not None:
                A = zip(A, B)
            return sum((a * b for a, b in A), Fraction(0))

        @staticmethod
        def re(x):
            return x

        @staticmethod
        def conj(x):
            return x
    return FracCtx()


def model_lu(A):
    """independent exact model; returns ("singular",) or ("ok", LU, p)"""
    n = len(A)
    A = [list(r) for r in A]
    p = [None] * (n - 1)
    for j in range(n - 1):
        biggest = Fraction(0)
        for k in range(j, n):
            s = sum((abs(A[k][l]) for l in range(j, n)), Fraction(0))
            if s == 0:
                return ("singular",)
            cur = abs(A[k][j]) / s
            if cur > biggest:
                biggest = cur
                p[j] = k
        if p[j] is None:
            return ("undefined-pivot",)      # the code leaves p[j] = None here (finding LA2)
        A[j], A[p[j]] = A[p[j]], A[j]
        if A[j][j] == 0:
            return ("singular",)
        for i in range(j + 1, n):
            A[i][j] /= A[j][j]
            for k in range(j + 1, n):
                A[i][k] -= A[i][j] * A[j][k]
    if n and A[n - 1][n - 1] == 0:
        return ("singular",)
    return ("ok", A, p)


def exact_det(A):
    n = len(A)
    M = [list(r) for r in A]
    d = Fraction(1)
    for c in range(n):
        piv = next((r for r in range(c, n) if M[r][c] != 0), None)
        if piv is None:
            return Fraction(0)
        if piv != c:
            M[c], M[piv] = M[piv], M[c]
            d = -d
        d *= M[c][c]
        for r in range(c + 1, n):
            f = M[r][c] / M[c][c]
            if f:
                M[r] = [x - f * y for x, y in zip(M[r], M[c])]
    return d


def run_case(ctx, A):
    """A: list of lists of Fraction. Returns (status, what): status ok | violates | known(LA2)"""
    n = len(A)
    M = ctx.matrix(n, n)
    for i in range(n):
        for j in range(n):
            M[i, j] = A[i][j]
    mod = model_lu(A)
    det = exact_det(A)
    try:
        LU, p = ctx.LU_decomp(M, use_cache=False)
        got = ("ok", [[LU[i, j] for j in range(n)] for i in range(n)], list(p))
    except ZeroDivisionError:
        got = ("singular",)
    except TypeError:
        got = ("undefined-pivot",)
    if got[0] != mod[0]:
        return "violates", "exact run of LU_decomp gives %s, the model %s" % (got[0], mod[0])
    if got[0] == "undefined-pivot":
        return ("known" if det == 0 else "violates"), "p[j] left None (TypeError)%s" % ("" if det == 0 else " on a NONSINGULAR matrix")
    if got[0] == "singular":
        if det != 0:
            return "violates", "exact run raises ZeroDivisionError but det != 0"
        return "ok", None
    if det == 0:
        return "violates", "exact run returns a factorization of an exactly singular matrix"
    if got[1] != mod[1] or got[2] != mod[2]:
        return "violates", "exact run differs from the model (pivots %r vs %r)" % (got[2], mod[2])
    # defining identity, exactly:  P A = L U, det = sign * prod diag
    LU, p = got[1], got[2]
    PA = [list(r) for r in A]
    for k, pk in enumerate(p):
        PA[k], PA[pk] = PA[pk], PA[k]
    for i in range(n):
        for j in range(n):
            s = Fraction(0)
            for l in range(n):
                Lil = LU[i][l] if l < i else (Fraction(1) if l == i else Fraction(0))
                Ulj = LU[l][j] if l <= j else Fraction(0)
                s += Lil * Ulj
            if s != PA[i][j]:
                return "violates", "P*A != L*U in exact arithmetic"
    d = Fraction(1)
    for i, e in enumerate(p):
        if i != e:
            d = -d
    for i in range(n):
        d *= LU[i][i]
    if d != det:
        return "violates", "sign(p)*prod(diag U) != det A in exact arithmetic"
    # lu_solve's triangular solves on the exact factors
    b = [Fraction(i + 1, 3) for i in range(n)]
    y = ctx.L_solve(ctx.matrix(got[1]), list(b), p)
    x = ctx.U_solve(ctx.matrix(got[1]), y)
    for i in range(n):
        if sum((A[i][j] * x[j] for j in range(n)), Fraction(0)) != b[i]:
            return "violates", "L_solve/U_solve on the exact factors do not solve A x = b"
    return "ok", None
