"""C05 (hash half) — correspondence and law checks.

(a) SPEC vs CPYTHON.  The Lean specification of CPython's numeric hash (lean/MpModel/Hash.lean:
    pyHashInt, pyHashFraction, pyHashDyadic, pyHashFloatOfDyadic, pyHashComplex, finalHash) is run
    through `mpdrv` and compared with the interpreter itself: hash(int), hash(float), hash(Fraction),
    hash(complex), hash(obj with a user __hash__).  This validates the transcription of the documented
    algorithm.
(b) MODEL vs CODE.  Lean models mpc_hash / mpq_hash / mpf_hash (and finalHash ∘ model = builtin hash() of
    mpf / mpc / mpq objects) against the real functions in /repo.
(c) LAW on live objects: for generated representations of one mathematical value as
    mpf / mpc / int / float / complex / Fraction / mpq:   a == b  ⇒  hash(a) == hash(b).
    Every violating pair class is reported (known: D2, mpc_hash).
(d) the proposed repair: Lean models mpf_hash_fixed / mpc_hash_fixed vs the patched Python functions below, and the
    law (c) re-run with the patch monkey-patched in (never written to /repo).

usage:  python hash_ops.py [ncases] [seed] [--patched] [--mutate NAME]
"""
from common import *  # noqa
import math
from fractions import Fraction

P = sys.hash_info.modulus
assert (sys.hash_info.width, P, sys.hash_info.inf, sys.hash_info.nan, sys.hash_info.imag) == \
    (64, 2 ** 61 - 1, 314159, 0, 1000003), "hash_info differs from the parameters the Lean spec is written for"


def _mods():
    import_repo()
    import mpmath
    import mpmath.libmp.libmpf as LF
    import mpmath.libmp.libmpc as LC
    import mpmath.rational as RQ
    import mpmath.ctx_mp_python as CP
    return mpmath, LF, LC, RQ, CP


# ---------------------------------------------------------------------------------------------
# the proposed repair, as Python (mirrors lean/MpModel/Hash.lean mpf_hash_fixed / mpc_hash_fixed)
# ---------------------------------------------------------------------------------------------

def make_patched(LF):
    HASH_MODULUS, HASH_BITS = LF.HASH_MODULUS, LF.HASH_BITS
    fnan, finf, fninf = LF.fnan, LF.finf, LF.fninf

    def mpf_hash(s):
        ssign, sman, sexp, sbc = s
        if not sman:
            if s == fnan: return sys.hash_info.nan
            if s == finf: return sys.hash_info.inf
            if s == fninf: return -sys.hash_info.inf
        h = sman % HASH_MODULUS
        if sexp >= 0:
            sexp = sexp % HASH_BITS
        else:
            sexp = HASH_BITS - 1 - ((-1 - sexp) % HASH_BITS)
        h = (h << sexp) % HASH_MODULUS
        if ssign: h = -h
        if h == -1: h = -2          # was: h == -2
        return int(h)

    def mpc_hash(z):
        re, im = z
        h = mpf_hash(re) + sys.hash_info.imag * mpf_hash(im)
        # signed reduction modulo 2**width, as for Python's complex
        M = 2 ** (sys.hash_info.width - 1)
        h = (h & (M - 1)) - (h & M)
        if h == -1: h = -2
        return int(h)

    return mpf_hash, mpc_hash


# ---------------------------------------------------------------------------------------------
# generators
# ---------------------------------------------------------------------------------------------

RESIDUE_EXPS = [0, 1, 59, 60, 61, 62, 121, 122, 123, -1, -2, -59, -60, -61, -62, -121, -122, -123]


class HashGen:
    def __init__(self, g):
        self.g = g
        self.r = g.r

    def hint(self):
        """integers interesting for reduction mod P and for the Py_ssize_t boundary"""
        r, g = self.r, self.g
        k = r.random()
        if k < 0.12:
            n, shape = r.randint(-12, 12), "small"
        elif k < 0.40:
            mult = r.choice([1, 1, 2, 3, 7, 8, 1000003, r.getrandbits(70) + 1, 2 ** 61, 2 ** 64])
            n, shape = mult * P + r.choice([-2, -1, 0, 1, 2]), "kP+d"
        elif k < 0.65:
            e = r.choice([60, 61, 62, 63, 64, 122, 183, 61 * r.randint(1, 40), r.randint(1, 300)])
            n, shape = (1 << e) + r.choice([-2, -1, 0, 1, 2]), "2^k+d"
        else:
            nb = g.nbits()
            n, shape = g.man(nb), "structured-man"
        if r.random() < 0.5:
            n = -n
        g.note("hint", shape)
        return n

    def hexp(self, lim=None):
        """exponents: residues 0/60/61 mod 61, small, around +-1074, huge (unless lim)"""
        r = self.r
        k = r.random()
        if k < 0.35:
            e, shape = r.choice(RESIDUE_EXPS), "residue"
        elif k < 0.55:
            e, shape = 61 * r.randint(-60, 60) + r.choice([-1, 0, 1]), "61j+d"
        elif k < 0.80:
            e, shape = r.randint(-130, 130), "small"
        elif k < 0.90 or lim is not None:
            e, shape = r.choice([-1074, -1075, -1022, 971, 1023, 1024, r.randint(-3000, 3000)]), "float-range"
        else:
            e, shape = r.choice([-1, 1]) * (r.randint(10 ** 6, 10 ** 18)), "huge"
        if lim is not None and abs(e) > lim:
            e = e % lim
        self.g.note("hexp", shape)
        return e

    def hman(self):
        """non-negative mantissa: structured bit patterns, or something near a multiple of P"""
        r, g = self.r, self.g
        k = r.random()
        if k < 0.04:
            return 0
        if k < 0.45:
            return abs(self.hint())
        return g.man(g.nbits())

    def triple(self, lim=None):
        return self.r.randint(0, 1), self.hman(), self.hexp(lim)

    def raw_mpf(self, LF, special_p=0.06, normalized=None):
        """raw tuple; mostly normalized (what objects hold), sometimes with an even mantissa"""
        r = self.r
        if r.random() < special_p:
            self.g.note("mpf_kind", "special")
            return r.choice([LF.fnan, LF.finf, LF.fninf, LF.fzero])
        s, m, e = self.triple()
        if normalized is None:
            normalized = r.random() < 0.8
        if normalized or m == 0:
            self.g.note("mpf_kind", "normalized")
            return LF.from_man_exp(-m if s else m, e)
        self.g.note("mpf_kind", "raw-unnormalized")
        return (s, m, e, m.bit_length())

    def pyfloat(self):
        r = self.r
        k = r.random()
        if k < 0.08:
            x, shape = r.choice([0.0, -0.0, 1.0, -1.0, 0.5, -0.5, 2.0 ** 61, -2.0 ** 61, 2.0 ** -61, float(P + 1),
                                 -(2.0 ** 61), 5e-324, -5e-324, 1.7976931348623157e308, 2.0 ** 44, -2.0 ** 44]), "fixed"
        elif k < 0.14:
            x, shape = r.choice([float("inf"), float("-inf")]), "inf"
        elif k < 0.55:
            m = r.getrandbits(r.randint(1, 53)) | 1
            e = self.hexp(lim=1000)
            try:
                x = math.ldexp(m, max(-1074, min(e, 960)))
            except OverflowError:
                x = float(m)
            x, shape = (x if r.random() < 0.5 else -x), "man*2^e"
        elif k < 0.75:
            x, shape = float(r.randint(-2 ** 53, 2 ** 53)), "int-valued"
        else:
            x, shape = r.uniform(-1, 1) * 10.0 ** r.randint(-320, 308), "uniform"
        self.g.note("pyfloat", shape)
        return x


def float_triple(x):
    """exact (sign, man, exp) of a finite float, NOT reduced to lowest terms"""
    m, e = math.frexp(abs(x))
    man = int(m * (1 << 53))
    assert float(man) == m * (1 << 53)
    sign = 1 if math.copysign(1.0, x) < 0 else 0
    return sign, man, e - 53


class _H(object):
    __slots__ = ["n"]

    def __init__(self, n): self.n = n
    def __hash__(self): return self.n


def call(thunk):
    try:
        v = thunk()
    except Exception as e:  # noqa
        return enc_exc(e)
    if isinstance(v, str):
        return v
    return enc_result(v)


class HashOps:
    """each gen_<op>(hg) returns (request line, thunk on the real interpreter / real mpmath, meta)"""

    def __init__(self, patched=False):
        self.mp, self.LF, self.LC, self.RQ, self.CP = _mods()
        self.p_mpf_hash, self.p_mpc_hash = make_patched(self.LF)

    # ----- (a) spec vs CPython ------------------------------------------------------------
    def gen_pyhash_int(self, hg):
        n = hg.hint()
        return "pyhash_int %d" % n, (lambda: hash(n)), {}

    def gen_pyhash_fraction(self, hg):
        r = hg.r
        m = hg.hint()
        k = r.random()
        if k < 0.3:
            n = 1 << r.choice([0, 1, 2, 60, 61, 62, 122, r.randint(0, 400)])
        elif k < 0.5:
            n = P * r.choice([1, 2, 3, 2 ** 61, r.getrandbits(40) + 1])       # denominator divisible by P -> inf
        else:
            n = abs(hg.hint()) or 1
        q = Fraction(m, n)
        return "pyhash_fraction %d %d" % (q.numerator, q.denominator), (lambda: hash(q)), {}

    def gen_pyhash_dyadic(self, hg):
        s, m, e = hg.triple(lim=4000)
        q = Fraction(-m if s else m) * Fraction(2) ** e
        return "pyhash_dyadic %d %x %d" % (s, m, e), (lambda: hash(q)), {}

    def gen_pyhash_float(self, hg):
        x = hg.pyfloat()
        while math.isinf(x):
            x = hg.pyfloat()
        s, m, e = float_triple(x)
        return "pyhash_float %d %x %d" % (s, m, e), (lambda: hash(x)), {}

    def gen_pyhash_float_ratio(self, hg):
        x = hg.pyfloat()
        while math.isinf(x):
            x = hg.pyfloat()
        a, b = x.as_integer_ratio()
        return "pyhash_fraction %d %d" % (a, b), (lambda: hash(x)), {}

    def gen_pyhash_complex(self, hg):
        a, b = hg.pyfloat(), hg.pyfloat()
        z = complex(a, b)
        return "pyhash_complex %d %d" % (hash(a), hash(b)), (lambda: hash(z)), {}

    def gen_final_hash(self, hg):
        r = hg.r
        k = r.random()
        if k < 0.5:
            n = r.choice([1, -1]) * (1 << r.choice([62, 63, 64, 65, 127, 128])) + r.choice([-2, -1, 0, 1, 2])
        elif k < 0.6:
            n = r.choice([-1, -2, 0, 1, 2 ** 63 - 1, -2 ** 63, 2 ** 63, -2 ** 63 - 1, 2 ** 64 - 1, 2 ** 64 - 2])
        else:
            n = hg.hint()
        hg.g.note("final_hash_range", "in" if -2 ** 63 <= n < 2 ** 63 else "out")
        return "final_hash %d" % n, (lambda: hash(_H(n))), {}

    # ----- (b) model vs code --------------------------------------------------------------
    def gen_mpf_hash(self, hg):
        x = hg.raw_mpf(self.LF)
        return "hash %s" % enc_mpf(x), (lambda: self.LF.mpf_hash(x)), {}

    def gen_mpc_hash(self, hg):
        re, im = hg.raw_mpf(self.LF), hg.raw_mpf(self.LF)
        return "mpc_hash %s %s" % (enc_mpf(re), enc_mpf(im)), (lambda: self.LC.mpc_hash((re, im))), {}

    def _mpq(self, hg):
        r = hg.r
        a = hg.hint()
        k = r.random()
        if k < 0.4:
            b = 1 << r.choice([0, 1, 2, 60, 61, 62, 122, r.randint(0, 300)])
        elif k < 0.5:
            b = P * r.choice([1, 2, 3, 5])
        else:
            b = abs(hg.hint()) or 1
        return self.RQ.mpq(a, b)

    def gen_mpq_hash(self, hg):
        q = self._mpq(hg)
        a, b = q._mpq_
        return "mpq_hash %d %d" % (a, b), (lambda: q.__hash__()), {}

    def gen_hashobj_mpf(self, hg):
        x = hg.raw_mpf(self.LF, normalized=True)
        o = self.mp.mp.make_mpf(x)
        return "hashobj_mpf %s" % enc_mpf(x), (lambda: hash(o)), {}

    def gen_hashobj_mpc(self, hg):
        re, im = hg.raw_mpf(self.LF, normalized=True), hg.raw_mpf(self.LF, normalized=True)
        o = self.mp.mp.make_mpc((re, im))
        return "hashobj_mpc %s %s" % (enc_mpf(re), enc_mpf(im)), (lambda: hash(o)), {}

    def gen_hashobj_mpq(self, hg):
        q = self._mpq(hg)
        a, b = q._mpq_
        return "hashobj_mpq %d %d" % (a, b), (lambda: hash(q)), {}

    # ----- (d) the repair -----------------------------------------------------------------
    def gen_mpf_hash_fixed(self, hg):
        x = hg.raw_mpf(self.LF)
        return "mpf_hash_fixed %s" % enc_mpf(x), (lambda: self.p_mpf_hash(x)), {}

    def gen_mpc_hash_fixed(self, hg):
        re, im = hg.raw_mpf(self.LF), hg.raw_mpf(self.LF)
        return "mpc_hash_fixed %s %s" % (enc_mpf(re), enc_mpf(im)), (lambda: self.p_mpc_hash((re, im))), {}

    # ----- malformed ----------------------------------------------------------------------
    def gen_malformed(self, hg):
        r = hg.r
        line = r.choice(["pyhash_fraction 1 0", "pyhash_fraction 3 -4", "pyhash_int", "pyhash_int 1.5", "pyhash_int 0x10",
                         "mpc_hash 0:1:0:1", "mpc_hash 0:1:0 0:1:0:1", "mpc_hash 0:zz:0:1 0:1:0:1", "mpq_hash 1 0",
                         "pyhash_dyadic -1 1 0", "pyhash_dyadic 0 1 1e3", "final_hash", "final_hash --1",
                         "pyhash_complex 1", "hashobj_mpc 0:1:0:1", "pyhash_floats 0 1 0"])
        return line, (lambda: "?:bad-op"), {}


SPEC_OPS = ["pyhash_int", "pyhash_fraction", "pyhash_dyadic", "pyhash_float", "pyhash_float_ratio",
            "pyhash_complex", "final_hash"]
MODEL_OPS = ["mpf_hash", "mpc_hash", "mpq_hash", "hashobj_mpf", "hashobj_mpc", "hashobj_mpq"]
FIX_OPS = ["mpf_hash_fixed", "mpc_hash_fixed"]
ALL_HASH_OPS = SPEC_OPS + MODEL_OPS + ["malformed"]   # FIX_OPS: the repair is in /repo now (commit 885c10d), MODEL_OPS cover it


def run_t1(ops, ncases, seed):
    ho = HashOps()
    g = Gen(seed)
    hg = HashGen(g)
    lines, impl_out, opnames = [], [], []
    for i in range(ncases):
        op = ops[i % len(ops)]
        if op == "malformed" and g.r.random() < 0.8:       # keep the malformed stream small
            op = ops[g.r.randrange(len(ops) - 1)] if len(ops) > 1 else op
        line, thunk, meta = getattr(ho, "gen_" + op)(hg)
        lines.append(line); impl_out.append(call(thunk)); opnames.append(op)
        g.note("op", op)
    model_out = Driver().ask(lines)
    dis, per_op = [], {}
    for i, (a, b) in enumerate(zip(impl_out, model_out)):
        d = per_op.setdefault(opnames[i], [0, 0])
        d[0] += 1
        if a != b:
            d[1] += 1
            dis.append({"index": i, "op": opnames[i], "line": lines[i][:300], "impl": a, "model": b})
    return {"per_op": per_op}, dis, g


# ---------------------------------------------------------------------------------------------
# (c) the law on live objects
# ---------------------------------------------------------------------------------------------

def _float_of(s, m, e):
    """the float equal to (-1)^s m 2^e, or None if not exactly representable"""
    if m == 0:
        return -0.0 if s else 0.0
    t = (m & -m).bit_length() - 1
    m >>= t; e += t
    if m.bit_length() > 53 or e < -1074 or e + m.bit_length() > 1024:
        return None
    x = math.ldexp(m, e)
    return -x if s else x


class Law:
    def __init__(self, seed, patched=False):
        self.mpm, self.LF, self.LC, self.RQ, self.CP = _mods()
        self.mp = self.mpm.mp
        self.g = Gen(seed)
        self.hg = HashGen(self.g)
        self.patched = patched
        self.pairs = 0
        self.eq_true = 0
        self.violations = {}       # class -> [count, example]
        self.eq_false = {}         # mathematically equal but == is False (comparison half; informational)
        self.value_mismatch = {}   # mathematically equal, hashes differ, == False (no law violation)

    # -- one real value as many objects -----------------------------------------------------
    def real_reprs(self, s, m, e):
        LF, mp = self.LF, self.mp
        t = LF.from_man_exp(-m if s else m, e)
        out = [("mpf", mp.make_mpf(t)), ("mpc", mp.make_mpc((t, LF.fzero)))]
        if m == 0 or (e >= 0 and e <= 3000):
            n = (m << e) if m else 0
            out.append(("int", -n if s else n))
        x = _float_of(s, m, e)
        if x is not None:
            out.append(("float", x))
            out.append(("complex", complex(x, 0.0)))
        if abs(e) <= 3000:
            q = Fraction(-m if s else m) * Fraction(2) ** e
            out.append(("Fraction", q))
            out.append(("mpq", self.RQ.mpq(q.numerator, q.denominator)))
        return out

    def complex_reprs(self, a, b):
        LF, mp = self.LF, self.mp
        ta = a if isinstance(a, tuple) and len(a) == 4 else LF.from_man_exp(-a[1] if a[0] else a[1], a[2])
        tb = b if isinstance(b, tuple) and len(b) == 4 else LF.from_man_exp(-b[1] if b[0] else b[1], b[2])
        out = [("mpc", mp.make_mpc((ta, tb)))]
        if ta[3] <= mp.prec and tb[3] <= mp.prec:      # the public constructor rounds to the working precision
            out.append(("mpc'", mp.mpc(mp.make_mpf(ta), mp.make_mpf(tb))))
        fa = self._tofloat(a)
        fb = self._tofloat(b)
        if fa is not None and fb is not None:
            out.append(("complex", complex(fa, fb)))
        return out

    def _tofloat(self, a):
        if len(a) == 4:
            if a == self.LF.finf: return float("inf")
            if a == self.LF.fninf: return float("-inf")
            return None
        return _float_of(*a)

    def component(self):
        """(sign, man, exp) biased towards float-representable values, or an infinity tuple"""
        r = self.hg.r
        k = r.random()
        if k < 0.05:
            return r.choice([self.LF.finf, self.LF.fninf])
        if k < 0.15:
            return (r.randint(0, 1), 0, 0)
        if k < 0.30:
            return (r.randint(0, 1), 1, r.choice([0, 61, -61, 122, 44, 43, 45, 60, -1]))
        if k < 0.75:
            m = r.getrandbits(r.randint(1, 53)) | 1
            return (r.randint(0, 1), m, max(-1074, min(self.hg.hexp(lim=900), 900)))
        return self.hg.triple(lim=2500)

    def check_group(self, objs, desc):
        for i in range(len(objs)):
            for j in range(len(objs)):
                if i == j:
                    continue
                (ta, a), (tb, b) = objs[i], objs[j]
                self.pairs += 1
                try:
                    eq = (a == b)
                except Exception as ex:  # noqa
                    eq = "EXC:" + type(ex).__name__
                ha, hb = hash(a), hash(b)
                cls = "%s == %s" % (ta, tb)
                if eq is True:
                    self.eq_true += 1
                    # the set/dict view of the same law
                    if ha == hb and (b not in {a: 1}):
                        self._rec(self.violations, cls + " [dict lookup]", desc, a, b, ha, hb)
                    if ha != hb:
                        self._rec(self.violations, cls, desc, a, b, ha, hb)
                        for o in (a, b):
                            if hasattr(o, "_mpc_"):
                                self.g.note("violation_reason", self.reason(o._mpc_))
                else:
                    self._rec(self.eq_false, cls + (" -> %s" % (eq,)), desc, a, b, ha, hb)
                    if ha != hb:
                        self._rec(self.value_mismatch, cls, desc, a, b, ha, hb)

    def reason(self, z):
        """which clause of the exact side condition (Lean: mpc_hash_spec_iff) fails for this mpc"""
        hr, hi = self.LF.mpf_hash(z[0]), self.LF.mpf_hash(z[1])
        out = []
        if hr == -1 or hi == -1:
            out.append("component hash -1")
        if (hr + 1000003 * hi) % 2 ** 64 >= 2 ** 63:
            out.append("combined>=2^63 (%s)" % ("a component hash < 0" if hr < 0 or hi < 0 else "both component hashes >= 0"))
        return " & ".join(out) or "NONE (unexplained!)"

    @staticmethod
    def _rec(d, cls, desc, a, b, ha, hb):
        e = d.setdefault(cls, [0, None])
        e[0] += 1
        if e[1] is None:
            e[1] = "%s: %r (hash %d) vs %r (hash %d)" % (desc, a, ha, b, hb)

    def run(self, ngroups):
        r = self.hg.r
        saved = None
        if self.patched:
            pf, pc = make_patched(self.LF)
            saved = (self.CP.mpf_hash, self.CP.mpc_hash)
            self.CP.mpf_hash, self.CP.mpc_hash = pf, pc
        try:
            for _ in range(ngroups):
                k = r.random()
                if k < 0.5:
                    c = self.component() if r.random() < 0.5 else self.hg.triple(lim=None)
                    while len(c) != 3:
                        c = self.component()
                    s, m, e = c
                    self.g.note("law_group", "real")
                    self.check_group(self.real_reprs(s, m, e), "real s=%d e=%d" % (s, e))
                elif k < 0.55:
                    inf = r.choice([self.LF.finf, self.LF.fninf])
                    f = float("inf") if inf == self.LF.finf else float("-inf")
                    self.g.note("law_group", "inf")
                    self.check_group([("mpf", self.mp.make_mpf(inf)), ("mpc", self.mp.make_mpc((inf, self.LF.fzero))),
                                      ("float", f), ("complex", complex(f, 0.0))], "inf")
                else:
                    a, b = self.component(), self.component()
                    self.g.note("law_group", "complex")
                    self.check_group(self.complex_reprs(a, b), "complex")
        finally:
            if saved:
                self.CP.mpf_hash, self.CP.mpc_hash = saved

    def inexact_rational_probe(self, n=200):
        """outside the property's type list, reported for information: mpf == Fraction / mpq compares after
        rounding the rational to the working precision, so equal-comparing objects can hash differently"""
        r = self.hg.r
        bad = 0
        ex = None
        for _ in range(n):
            p, q = r.randint(1, 1000), r.choice([3, 5, 7, 9, 10, 11, 1000, 2 ** 61 - 1])
            x = self.mp.mpf(p) / q
            for t, o in (("Fraction", Fraction(p, q)), ("mpq", self.RQ.mpq(p, q))):
                if Fraction(p, q).denominator & (Fraction(p, q).denominator - 1) == 0:
                    continue
                if (x == o) is True and hash(x) != hash(o):
                    bad += 1
                    ex = ex or "mpf(%d)/%d == %s(%d,%d) but hashes %d, %d" % (p, q, t, p, q, hash(x), hash(o))
        return bad, ex


# ---------------------------------------------------------------------------------------------
# mutations of the real code (monkey-patched; /repo is never written)
# ---------------------------------------------------------------------------------------------

def apply_mutation(name):
    mpm, LF, LC, RQ, CP = _mods()
    import types
    if name == "mpf_negexp":          # off-by-one in the negative-exponent reduction
        src_old, src_new = "HASH_BITS - 1 - ((-1 - sexp) % HASH_BITS)", "HASH_BITS - ((-1 - sexp) % HASH_BITS)"
        mod, fn = LF, "mpf_hash"
    elif name == "mpf_nosign":        # forget the sign
        src_old, src_new = "if ssign: h = -h", "if ssign: h = h"
        mod, fn = LF, "mpf_hash"
    elif name == "mpf_premod":        # reduce the exponent modulo 60 instead of 61 for non-negative exponents
        src_old, src_new = "sexp = sexp % HASH_BITS", "sexp = sexp % (HASH_BITS - 1)"
        mod, fn = LF, "mpf_hash"
    elif name == "mpc_imag":          # wrong multiplier
        src_old, src_new = "sys.hash_info.imag * mpf_hash(im)", "(sys.hash_info.imag + 30) * mpf_hash(im)"
        mod, fn = LC, "mpc_hash"
    elif name == "mpc_width":         # reduce modulo 2^63
        src_old, src_new = "h % (2**sys.hash_info.width)", "h % (2**(sys.hash_info.width-1))"
        mod, fn = LC, "mpc_hash"
    elif name == "mpq_noneg":         # sign of the numerator ignored
        src_old, src_new = "if a < 0: h = -h", "if a < 0: h = h"
        mod, fn = RQ, "mpq.__hash__"
    else:
        raise SystemExit("unknown mutation " + name)
    import inspect, textwrap
    if fn == "mpq.__hash__":
        src = textwrap.dedent(inspect.getsource(RQ.mpq.__hash__))
        assert src_old in src
        ns = {}
        exec(compile(src.replace(src_old, src_new), "<mutant>", "exec"), RQ.__dict__, ns)
        RQ.mpq.__hash__ = ns["__hash__"]
        return
    src = inspect.getsource(getattr(mod, fn))
    assert src_old in src, (name, "pattern not found")
    ns = {}
    exec(compile(src.replace(src_old, src_new), "<mutant>", "exec"), mod.__dict__, ns)
    new = ns[fn]
    # rebind everywhere the name was imported
    import mpmath.libmp as LM, mpmath.ctx_mp as CM, mpmath.ctx_iv as CI
    old = getattr(mod, fn)
    for m in (LF, LC, RQ, CP, LM, CM, CI, mpm):
        for k, v in list(m.__dict__.items()):
            if v is old:
                setattr(m, k, new)


def main(argv):
    args = [a for a in argv if not a.startswith("--")]
    n = int(args[0]) if len(args) > 0 else 20000
    seed = int(args[1]) if len(args) > 1 else 0
    patched = "--patched" in argv
    if "--mutate" in argv:
        apply_mutation(argv[argv.index("--mutate") + 1])
    t = time.time()
    st, dis, g = run_t1(ALL_HASH_OPS, n, seed)
    print("T1 cases %d seed %d disagreements %d  (%.1fs)" % (n, seed, len(dis), time.time() - t))
    for k in ALL_HASH_OPS:
        v = st["per_op"].get(k)
        if v:
            print("   %-20s cases %6d  disagreements %d" % (k, v[0], v[1]))
    for d in dis[:8]:
        print("  ", d)
    if "--hist" in argv:
        print(json.dumps(g.hist, indent=1, sort_keys=True, default=str))
    t = time.time()
    law = Law(seed, patched=patched)
    law.run(max(200, n // 10))
    nv = sum(v[0] for v in law.violations.values())
    print("LAW%s groups %d ordered pairs %d (== True: %d) violations %d  (%.1fs)" % (
        " [patched mpf_hash/mpc_hash]" if patched else "", max(200, n // 10), law.pairs, law.eq_true, nv, time.time() - t))
    for k, v in sorted(law.violations.items()):
        print("   VIOLATION class %-28s x%-6d e.g. %s" % (k, v[0], v[1][:260]))
    if law.eq_false:
        print("   (info, comparison half) mathematically equal but == not True: %d pairs in classes %s" % (
            sum(v[0] for v in law.eq_false.values()), sorted((k, v[0]) for k, v in law.eq_false.items())))
        k0 = sorted(law.eq_false)[0]
        print("        e.g. %s: %s" % (k0, law.eq_false[k0][1][:260]))
    if "violation_reason" in law.g.hist:
        print("   reasons (which clause of mpc_hash_spec_iff fails):", json.dumps(law.g.hist["violation_reason"], sort_keys=True))
    bad, ex = law.inexact_rational_probe()
    print("   (info, outside the property's type list) mpf == Fraction/mpq after rounding, hashes differ: %d  %s" % (bad, ex or ""))
    if "--hist" in argv:
        print(json.dumps(law.g.hist, indent=1, sort_keys=True, default=str))
    return len(dis), nv


if __name__ == "__main__":
    main(sys.argv[1:])
