"""Mutation check for the calculus property checks (C26 C27 C28 C34 C36).

Each mutation is applied to a scratch COPY of /repo/mpmath (never to /repo); the check's run(ctx) is executed against the copy
(MPMATH_REPO) and the failing-input sites are compared with the unmutated baseline.
usage: calc_mutations.py [seed]
"""
import os, sys, shutil, subprocess, json, tempfile, collections

HERE = os.path.dirname(os.path.abspath(__file__))
MUTS = [
    ("C26", "calculus/quadrature.py", "new_nodes.append((D+C*x, C*w))", "new_nodes.append((D+C*x, abs(C)*w))",
     "reversed limits no longer negate"),
    ("C26", "calculus/quadrature.py", "key = (a, b, degree, prec)", "key = (a, b, degree)",
     "transformed-node cache ignores the precision"),
    ("C26", "calculus/quadrature.py", "                    w *= half*u**2\n                    new_nodes.append((x, w))\n            elif b == ctx.inf:",
     "                    w *= half*u\n                    new_nodes.append((x, w))\n            elif b == ctx.inf:", "wrong jacobian on (-inf, b]  (not reached by the families: expected NOT caught)"),
    ("C27", "calculus/extrapolation.py", "            args[dim] += a\n", "            args[dim] += a + 1\n", "half-infinite range starts one index late"),
    ("C27", "calculus/extrapolation.py", "        for y in xrange(n):\n            args[dim2] = ctx.mpf(y)", "        for y in xrange(n+1):\n            args[dim2] = ctx.mpf(y)",
     "2-D shell counts the corner twice"),
    ("C27", "calculus/extrapolation.py", "    N = len(seq)//2-1\n", "    N = len(seq)//2\n", "richardson uses one node too many (index error / wrong weights)"),
    ("C28", "calculus/differentiation.py", "        b = (b * (k-n)) // (k+1)\n", "        b = (b * (k-n)) // (k+2)\n", "difference weights wrong"),
    ("C28", "calculus/differentiation.py", "    workprec = (prec+2*addprec) * (n+1)", "    workprec = (prec+2*addprec)", "hsteps working precision not scaled with the order"),
    ("C34", "calculus/odes.py", "    radius /= 2  # XXX", "    radius *= 2  # XXX", "Taylor step twice the estimated radius instead of half"),
    ("C34", "calculus/odes.py", "            ctx.prec = workprec\n            ser, xa, xb = get_series(x)", "            ser, xa, xb = get_series(x)",
     "interpolant no longer fixes the working precision: segments depend on the caller's precision"),
    ("C36", "calculus/approximation.py", "        if n == 0:\n            an /= 2\n", "", "fourier: constant term not halved"),
    ("C36", "calculus/approximation.py", "        d[0] = -c[0]/2\n", "        d[0] = -c[0]\n", "chebyfit: constant term wrong"),
    ("C36", "calculus/approximation.py", "    m = 2*ctx.pi/(ab[-1]-ab[0])\n    s = ctx.zero", "    m = ctx.pi/(ab[-1]-ab[0])\n    s = ctx.zero", "fourierval: wrong frequency"),
]

RUNNER = r'''
import sys, json, collections
sys.path.insert(0, %r)
import importlib
class Ctx: pass
ctx = Ctx(); ctx.seed = %d; ctx.quick = True; ctx.tier = "quick"; ctx.replay = None; ctx.pid = %r
m = importlib.import_module("props." + %r)
res = m.run(ctx)
c = collections.Counter(f["site"] for f in res["failing_inputs"])
print("RESULT " + json.dumps({"sites": dict(c), "disagreements": len(res["disagreements"]), "cases": res["coverage"].get("cases")}))
'''


def run(pid, repo, seed):
    env = dict(os.environ, MPMATH_NOGMPY="1", MPMATH_REPO=repo)
    p = subprocess.run([sys.executable, "-c", RUNNER % (HERE, seed, pid, pid)], env=env, stdout=subprocess.PIPE, stderr=subprocess.PIPE, text=True)
    for line in p.stdout.split("\n"):
        if line.startswith("RESULT "):
            return json.loads(line[7:])
    return {"error": (p.stderr or p.stdout)[-400:]}


def main():
    seed = int(sys.argv[1]) if len(sys.argv) > 1 else 0
    only = sys.argv[2:] or None
    base = {}
    for pid in sorted(set(m[0] for m in MUTS)):
        if only and pid not in only:
            continue
        base[pid] = run(pid, "/repo", seed)
        print("BASE", pid, json.dumps(base[pid]))
    caught = 0
    total = 0
    for pid, rel, old, new, what in MUTS:
        if only and pid not in only:
            continue
        tmp = tempfile.mkdtemp(prefix="mut_")
        try:
            shutil.copytree("/repo/mpmath", os.path.join(tmp, "mpmath"))
            path = os.path.join(tmp, "mpmath", rel)
            src = open(path).read()
            assert src.count(old) >= 1, (rel, old)
            open(path, "w").write(src.replace(old, new, 1))
            r = run(pid, tmp, seed)
        finally:
            shutil.rmtree(tmp, ignore_errors=True)
        b = base[pid].get("sites", {})
        s = r.get("sites", {})
        newsites = {k: v for k, v in s.items() if v > 2 * b.get(k, 0) + 1}
        ok = bool(newsites) or "error" in r
        total += 1
        caught += 1 if ok else 0
        print("%s %s: %s -> %s %s" % ("CAUGHT" if ok else "MISSED", pid, what, json.dumps(newsites or s), r.get("error", "")))
    print("mutations caught: %d / %d" % (caught, total))


if __name__ == "__main__":
    main()
