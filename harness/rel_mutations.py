"""Mutants of mpmath/identification.py for C35 (source rewriting inside the worker processes when the environment
variable VERIF_REL_MUTANT is set; never touches /repo).   python rel_mutations.py   runs them all."""
import os, sys, json

MUTANTS = {
    "pslq_wrong_index": ("vec = [int(round_fixed(B[j,i], prec) >> prec) for j in \\\n                range(1,n+1)]",
                         "vec = [int(round_fixed(B[i,j], prec) >> prec) for j in \\\n                range(1,n+1)]"),
    "pslq_sign_flip": ("                if max(abs(v) for v in vec) < maxcoeff:",
                       "                vec[0] = -vec[0]\n                if max(abs(v) for v in vec) < maxcoeff:"),
    "pslq_loose_accept": ("            if err < tol:", "            if err < tol * 4096:"),
    "pslq_maxcoeff_off": ("                if max(abs(v) for v in vec) < maxcoeff:", "                if max(abs(v) for v in vec) < 3 * maxcoeff:"),
    "findpoly_not_reversed": ("            return a[::-1]", "            return a"),
    "findpoly_degree_overrun": ("    for i in range(1,n+1):\n        xs.append(x**i)", "    for i in range(1,n+2):\n        xs.append(x**i)"),
    "quadratic_sign": ("        if b:  s = '((%s+sqrt(%s))/%s)' % (-b,b**2-4*a*c,2*c)", "        if b:  s = '((%s-sqrt(%s))/%s)' % (-b,b**2-4*a*c,2*c)"),
    "pslqstring_sign": ("            z = fracgcd(-p,q)\n            cs = constants[i][1]\n            if cs == '1':", "            z = fracgcd(p,q)\n            cs = constants[i][1]\n            if cs == '1':"),
}


def apply(name):
    import inspect
    import mpmath.identification as I
    old_cls = I.IdentificationMethods
    src = inspect.getsource(I)
    a, b = MUTANTS[name]
    assert src.count(a) >= 1, "mutation site not found: " + name
    src = src.replace(a, b, 1)
    exec(compile(src, I.__file__, "exec"), I.__dict__)
    for k in ("pslq", "findpoly", "identify"):
        setattr(old_cls, k, I.__dict__[k])


if __name__ == "__main__":
    sys.path.insert(0, os.path.dirname(os.path.abspath(__file__)))
    import importlib
    from props import C35

    class Ctx:
        seed, quick, replay, tier, pid = 3, True, None, "quick", "C35"
    base = None
    for m in [None] + sorted(MUTANTS):
        if m:
            os.environ["VERIF_REL_MUTANT"] = m
        r = C35.run(Ctx())
        sites = {}
        for f in r["failing_inputs"]:
            key = f["site"] + ("(exact-powers only)" if f["input"].get("rounded_powers_ok") else "")
            sites[key] = sites.get(key, 0) + 1
        if m is None:
            base = sites
            print("%-26s failing=%s" % ("unchanged", sites))
        else:
            new = {k: v for k, v in sites.items() if v > base.get(k, 0)}
            print("%-26s failing=%s -> %s" % (m, sites, "CAUGHT" if new else "missed"))
    os.environ.pop("VERIF_REL_MUTANT", None)
