"""Mutation check for cplx_iv_ops.py: realistic one-token mutations of the real code are applied by
monkey-patching (never in /repo); each must be noticed by the model/implementation comparison
(and, where the mutation breaks the property, by the exact property decision as well).

Usage:  python cplx_iv_mutants.py [ncases] [seed]
"""
import sys, inspect, textwrap
from common import *  # noqa
import cplx_iv_ops as H

# (name, module attr, function, old text, new text, ops to run, property classes expected (prefixes) or None)
MUTANTS = [
    ("mpi_mul neg*pos lower endpoint rounded up", "I", "mpi_mul",
     "a = mpf_mul(sa, tb, prec, round_floor)\n            b = mpf_mul(sb, ta, prec, round_ceiling)",
     "a = mpf_mul(sa, tb, prec, round_ceiling)\n            b = mpf_mul(sb, ta, prec, round_ceiling)",
     ["mpi_mul", "mpci_mul"], "C14"),
    ("mpi_add without the nan -> -inf replacement", "I", "mpi_add",
     "    if a == fnan: a = fninf\n", "", ["mpi_add", "mpci_add"], "C14"),
    ("mpi_lt: < turned into <=", "I", "mpi_lt",
     "if mpf_lt(sb, ta): return True", "if mpf_le(sb, ta): return True", ["mpi_lt", "mpi_gt", "iv_lt", "iv_gt"], "C16"),
    ("mpi_le: False branch uses >= ", "I", "mpi_le",
     "if mpf_gt(sa, tb): return False", "if mpf_ge(sa, tb): return False", ["mpi_le", "mpi_ge", "iv_contains"], "C16"),
    ("mpc_mul: first product rounded before the subtraction", "C", "mpc_mul",
     "p = mpf_mul(a, c)", "p = mpf_mul(a, c, prec, rnd)", ["mpc_mul"], "C04"),
    ("mpc_pow_int: exact_size guard <= 10000", "C", "mpc_pow_int",
     "if exact_size < 10000:", "if exact_size <= 10000:", ["mpc_pow_int"], None),
    ("mpi_div: nonneg/pos lower endpoint divides by ta", "I", "mpi_div",
     "a = mpf_div(sa, tb, prec, round_floor)\n            b = mpf_div(sb, ta, prec, round_ceiling)",
     "a = mpf_div(sa, ta, prec, round_floor)\n            b = mpf_div(sb, ta, prec, round_ceiling)",
     ["mpi_div", "mpci_div"], "C14"),
    ("mpi_pow_int: even power of mixed-sign interval keeps a negative lower end", "I", "mpi_pow_int",
     "            a = fzero\n", "            a = mpf_neg(mpf_pow_int(sa, n, prec, round_ceiling))\n", ["mpi_pow_int"], None),
    ("mpi_square: mixed sign uses min instead of max", "I", "mpi_square",
     "b = mpf_mul(sb, sb, prec, round_ceiling)\n    return a, b", "b = mpf_mul(sa, sa, prec, round_ceiling)\n    return a, b",
     ["mpi_square", "mpci_abs"], "C14"),
    ("mpci_mul: imaginary part uses sub", "I", "mpci_mul",
     "im = mpi_add(i1,i2,prec)", "im = mpi_sub(i1,i2,prec)", ["mpci_mul", "mpci_pow_int"], "C15"),
]


def apply(modname, fname, old, new):
    im = H.impl()
    mod = {"I": im.I, "C": im.C}[modname]
    f = getattr(mod, fname)
    src = textwrap.dedent(inspect.getsource(f))
    assert src.count(old) >= 1, "mutation site not found: %s / %r" % (fname, old)
    src2 = src.replace(old, new, 1)
    assert src2 != src
    ns = mod.__dict__
    saved = f
    exec(compile(src2, "<mutant %s>" % fname, "exec"), ns)
    newf = ns[fname]
    # rebind every other reference (from-imports) to the old function object
    touched = []
    for m in list(sys.modules.values()):
        if m is None or not getattr(m, "__name__", "").startswith("mpmath"):
            continue
        for k, v in list(vars(m).items()):
            if v is saved:
                setattr(m, k, newf)
                touched.append((m, k))
    return saved, newf, touched, mod


def restore(saved, newf, touched, mod, fname):
    setattr(mod, fname, saved)
    for m, k in touched:
        setattr(m, k, saved)


def main():
    n = int(sys.argv[1]) if len(sys.argv) > 1 else 6000
    seed = int(sys.argv[2]) if len(sys.argv) > 2 else 11
    # baseline
    allops = sorted({o for m in MUTANTS for o in m[5]})
    st, dis, viol, g = H.run_t1(allops, n, seed)
    base_classes = {(v["property"], v["class"]) for v in viol}
    print("baseline: cases %d disagreements %d (property classes on unchanged code: %s)" %
          (n, len(dis), sorted(c for _, c in base_classes)))
    assert not dis
    caught = 0
    for name, modname, fname, old, new, ops, prop in MUTANTS:
        saved, newf, touched, mod = apply(modname, fname, old, new)
        try:
            st, dis, viol, g = H.run_t1(ops, n, seed)
        finally:
            restore(saved, newf, touched, mod, fname)
        newviol = [v for v in viol if (v["property"], v["class"]) not in base_classes]
        ok = len(dis) > 0
        caught += ok
        print("%-75s T1 disagreements %5d   new property violations %5d %s  -> %s" %
              (name, len(dis), len(newviol), sorted({v["class"] for v in newviol})[:3], "CAUGHT" if ok else "MISSED"))
        if dis:
            print("      e.g.", dis[0]["line"][:160])
        if prop and not any(v["property"] == prop for v in newviol):
            print("      note: expected a %s property violation, none decided" % prop)
    print("mutants caught by T1: %d / %d" % (caught, len(MUTANTS)))
    # the unchanged code again
    st, dis, viol, g = H.run_t1(allops, n, seed)
    print("after restore: disagreements", len(dis))


if __name__ == "__main__":
    main()
