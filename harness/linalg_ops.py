"""Verified-certificate harness for the linear-algebra properties C30 / C31 / C32.

The real mpmath routines run in worker subprocesses (hard timeout; a timeout is "no result").  Every input and
output entry is exchanged EXACTLY: a real number is the token `man:exp` (value man*2^exp, read from `_mpf_`),
a complex number `re,im`.  The compiled Lean checker (`mpdrv`, ops `cert_*` of MpModel/DrvCert.lean) evaluates
the defining identities in exact dyadic arithmetic and answers `V:ok | V:violates[:parts] | V:undecided |
V:singular`; soundness of those answers is proved in lean/Props/C30.lean, C31.lean, C32.lean.
No floating point is used to decide anything in the main process.

Tolerances (how the property texts are instantiated; p = mp.prec at the call):
  solve/inverse   ||A^-1 B - X||_inf <= ||A||_inf ||A^-1||_inf 2^(10-p) ||A^-1 B||_inf   (infinity operator norms;
                  cond bounded rigorously from the certificate R on both sides -> three-valued verdict)
  overdetermined  same for the normal equations  (A^H A) x = A^H b  formed exactly  (cond(A^H A) = cond_2(A)^2 is
                  an upper bound of what the text allows for lu_solve, which squares the condition by design)
  det             |d - det A| <= cond_inf(A) 2^(10-p) |det A|, det A exact (Laplace expansion)
  lu              P permutation, L unit lower, U upper (exact zeros/ones), ||PA - LU||_F <= 2^(10-p) ||L||_F ||U||_F
  qr              ||Q^H Q - I||_F <= 2^(10-p) sqrt(q), R upper, ||QR - A||_F <= 2^(10-p) ||A||_F
  cholesky        L lower, diagonal real > 0, ||L L^H - A||_F <= 2^(10-p) ||A||_F
  eig             ||A V - V diag E||_F <= 2^(10-p) ||A||_F max(1, ||V||_F)   (same for left vectors)
  eigh/eigsy/eighe  + E real and ascending, ||V^H V - I||_F <= 2^(10-p) sqrt(n)
  svd             S real >= 0 descending, U^H U ~ I, V V^H ~ I, ||U diag(S) V - A||_F <= 2^(10-p) ||A||_F
  schur/hessenberg  Q unitary, T upper triangular / upper Hessenberg (exact zeros), ||Q T Q^H - A||_F <= 2^(10-p) ||A||_F
  expm(logm A), sqrtm(A)^2   ||X - A||_F <= 2^(10-p) ||A||_F max(1, ||A||_F)
  powm(A,k)       ||P - A^k||_F <= 2^(10-p) ||A||_F^k max(1, ||A||_F),  A^k exact
  cosm^2+sinm^2   ||C^2 + S^2 - I||_F <= 2^(10-p) max(1, ||A||_F) max(sqrt n, ||C||_F^2 + ||S||_F^2)
"""
import os, sys, json, random, subprocess, select, time, threading, hashlib
from fractions import Fraction

HERE = os.path.dirname(os.path.abspath(__file__))
sys.path.insert(0, HERE)
from common import *  # noqa

PY = sys.executable

# --------------------------------------------------------------------------------------
# exact scalars:  internal form  (mr, er, mi, ei)  = (mr*2^er) + i (mi*2^ei)
# --------------------------------------------------------------------------------------

def S(mr, er=0, mi=0, ei=0):
    return (int(mr), int(er), int(mi), int(ei))


def tok(s):
    mr, er, mi, ei = s
    a = "%d:%d" % (mr, er) if er else "%d" % mr
    if mi == 0:
        return a
    return a + "," + ("%d:%d" % (mi, ei) if ei else "%d" % mi)


def untok(t):
    parts = t.split(",")

    def one(x):
        if ":" in x:
            a, b = x.split(":")
            return int(a), int(b)
        return int(x), 0
    mr, er = one(parts[0])
    mi, ei = one(parts[1]) if len(parts) > 1 else (0, 0)
    return (mr, er, mi, ei)


def frac(s):
    """exact value as a pair of Fractions (harness-side bookkeeping only: generators, shim comparison)"""
    mr, er, mi, ei = s
    return (Fraction(mr) * Fraction(2) ** er, Fraction(mi) * Fraction(2) ** ei)


def mat_tokens(M):
    return " ".join(tok(x) for row in M for x in row)


# --------------------------------------------------------------------------------------
# worker side (runs the real mpmath code)
# --------------------------------------------------------------------------------------

def _w_tok(mp, x):
    from mpmath.libmp import fzero
    if isinstance(x, int):
        return "%d" % x
    if hasattr(x, "_mpf_"):
        s, m, e, b = x._mpf_
        if not m and e:      # inf / nan
            return "NONFINITE"
        return "%d:%d" % (-m if s else m, e) if e else "%d" % (-m if s else m)
    if hasattr(x, "_mpc_"):
        re, im = x._mpc_
        a = _w_tok(mp, mp.make_mpf(re))
        b = _w_tok(mp, mp.make_mpf(im))
        if "NONFINITE" in (a, b):
            return "NONFINITE"
        return a if b == "0" else a + "," + b
    if isinstance(x, float):
        return _w_tok(mp, mp.mpf(x))
    if isinstance(x, complex):
        return _w_tok(mp, mp.mpc(x))
    return "NONFINITE"


def _w_val(mp, t, cplx):
    from mpmath.libmp import from_man_exp
    mr, er, mi, ei = untok(t)
    re = from_man_exp(mr, er)
    if cplx:
        return mp.make_mpc((re, from_man_exp(mi, ei)))
    if mi:
        return mp.make_mpc((re, from_man_exp(mi, ei)))
    return mp.make_mpf(re)


def _w_mat(mp, rows, cplx):
    r, c = len(rows), len(rows[0]) if rows else 0
    M = mp.matrix(r, c)
    for i in range(r):
        for j in range(c):
            M[i, j] = _w_val(mp, rows[i][j], cplx)
    return M


def _w_key(spec):
    """index spec of a recorded assignment: an int, or [start, stop, step] (None allowed) for a slice"""
    return slice(*spec) if isinstance(spec, list) else spec


def _w_enc(mp, M):
    return [[_w_tok(mp, M[i, j]) for j in range(M.cols)] for i in range(M.rows)]


def _w_col(mp, L):
    return [[_w_tok(mp, x)] for x in L]


def worker_run(task):
    import mpmath
    from mpmath import mp
    p = task["prec"]
    mp.prec = p
    op = task["op"]
    cplx = task.get("cplx", False)
    A = _w_mat(mp, task["A"], cplx) if "A" in task else None
    out = {}
    if op in ("lu_solve", "qr_solve", "cholesky_solve"):
        b = _w_mat(mp, task["b"], cplx)
        if op == "lu_solve":
            x = mp.lu_solve(A, b)
        elif op == "cholesky_solve":
            x = mp.cholesky_solve(A, b)
        else:
            x, res = mp.qr_solve(A, b)
            out["res"] = _w_tok(mp, res)
        out["x"] = _w_enc(mp, mp.matrix(x)) if not isinstance(x, mp.matrix) else _w_enc(mp, x)
    elif op == "inverse":
        out["x"] = _w_enc(mp, mp.inverse(A))
    elif op == "det":
        out["d"] = _w_tok(mp, mp.det(A))
    elif op == "lu":
        P, L, U = mp.lu(A)
        out.update(P=_w_enc(mp, P), L=_w_enc(mp, L), U=_w_enc(mp, U))
    elif op == "lu_cache":
        # history: factor at a low precision, then ask again at the target precision with the same matrix object
        mp.prec = task["prec0"]
        mp.lu(A)
        mp.prec = p
        P, L, U = mp.lu(A)
        out.update(P=_w_enc(mp, P), L=_w_enc(mp, L), U=_w_enc(mp, U))
    elif op == "lu_history":
        # history on ONE matrix object at ONE precision: factor (fills A._LU) / assign (element or slice) ... then lu(A)
        log = []
        for st in task["steps"]:
            if st[0] == "factor":
                try:
                    (mp.lu if st[1] == "lu" else mp.LU_decomp)(A)
                    log.append("ok")
                except Exception as e:  # noqa  (singular first contents: nothing is cached)
                    log.append(type(e).__name__)
            else:
                key = (_w_key(st[1]), _w_key(st[2]))
                v = st[3]
                A[key] = _w_mat(mp, v["m"], cplx) if "m" in v else _w_val(mp, v["s"], cplx)
                log.append("set")
        out["log"] = log
        out["Acur"] = _w_enc(mp, A)
        try:
            P, L, U = mp.lu(A)
            out.update(P=_w_enc(mp, P), L=_w_enc(mp, L), U=_w_enc(mp, U))
        except Exception as e:  # noqa  (kept inside the result: the judge still needs Acur)
            out["final_exc"] = type(e).__name__
            out["final_msg"] = str(e)[:200]
    elif op == "qr":
        Q, R = mp.qr(A, mode=task.get("mode", "full"))
        out.update(Q=_w_enc(mp, Q), R=_w_enc(mp, R))
    elif op == "cholesky":
        out["L"] = _w_enc(mp, mp.cholesky(A))
    elif op == "eig":
        E, EL, ER = mp.eig(A, left=True, right=True)
        srt = task.get("sort")
        if srt:
            E, EL, ER = mp.eig_sort(E, EL, ER, f=srt)
        out.update(E=_w_col(mp, E), EL=_w_enc(mp, EL), ER=_w_enc(mp, ER))
    elif op in ("eigsy", "eighe", "eigh"):
        E, Q = getattr(mp, op)(A)
        out.update(E=_w_enc(mp, E) if isinstance(E, mp.matrix) else _w_col(mp, E), Q=_w_enc(mp, Q))
    elif op in ("svd", "svd_r", "svd_c"):
        U, S_, V = getattr(mp, op)(A, full_matrices=task.get("full", False))
        out.update(U=_w_enc(mp, U), S=_w_enc(mp, S_) if isinstance(S_, mp.matrix) else _w_col(mp, S_), V=_w_enc(mp, V))
    elif op in ("schur", "hessenberg"):
        Q, T = getattr(mp, op)(A)
        out.update(Q=_w_enc(mp, Q), T=_w_enc(mp, T))
    elif op == "explog":
        L = mp.logm(A)
        X = mp.expm(L, method=task.get("method", "taylor"))
        out.update(L=_w_enc(mp, L), X=_w_enc(mp, X))
    elif op == "sqrtm":
        out["X"] = _w_enc(mp, mp.sqrtm(A))
    elif op == "powm":
        if "r" in task:        # exact dyadic exponent num/den: den = 2 -> sqrtm branch of powm, den = 4 -> expm(r*logm) branch
            out["X"] = _w_enc(mp, mp.powm(A, mp.mpf(task["r"][0]) / task["r"][1]))
        else:
            out["X"] = _w_enc(mp, mp.powm(A, task["k"]))
    elif op == "hist":
        # the same call on the same (exactly given) matrix at each precision of task["precs"], in this one process, in this order
        stages = []
        for q in task["precs"]:
            sub = dict(task["call"])
            sub.update(prec=q, A=task["A"], cplx=cplx)
            try:
                stages.append({"ok": worker_run(sub)})
            except Exception as e:  # noqa
                stages.append({"exc": type(e).__name__, "msg": str(e)[:200]})
        out["stages"] = stages
    elif op == "matpow":
        out["X"] = _w_enc(mp, A ** task["k"])
    elif op == "cossin":
        out.update(C=_w_enc(mp, mp.cosm(A)), S=_w_enc(mp, mp.sinm(A)))
    elif op == "expm_diag":
        X = mp.expm(A, method=task.get("method", "taylor"))
        out["X"] = _w_enc(mp, X)
        # reference exp(d_i) at 2p+40 bits (assumption: mp.exp within 1 ulp there, property C12)
        mp.prec = 2 * p + 40
        out["ref"] = [_w_tok(mp, mp.exp(A[i, i])) for i in range(A.rows)]
        mp.prec = p
    elif op == "arith":
        B = _w_mat(mp, task["B"], cplx)
        out.update(add=_w_enc(mp, A + B), sub=_w_enc(mp, A - B), mul=_w_enc(mp, A * B),
                   T=_w_enc(mp, A.T), H=_w_enc(mp, A.H),
                   n1=_w_tok(mp, mp.mnorm(A, 1)), ninf=_w_tok(mp, mp.mnorm(A, mp.inf)))
    elif op == "gauss":
        x, w = mp.gauss_quadrature(task["n"], task["qtype"], *task.get("params", []))
        out.update(x=_w_col(mp, x), w=_w_col(mp, w))
    else:
        raise RuntimeError("unknown op " + op)
    if task.get("want_R"):
        # certificate only: any R is admissible, a good one makes the verdict decided
        try:
            mp.prec = p + 40
            M = A
            if A.rows != A.cols:
                M = A.H * A          # exact? no: rounded at p+40; the checker recomputes A^H A exactly and R is only a certificate
            out["R"] = _w_enc(mp, mp.inverse(M))
        except Exception as e:  # noqa
            out["R_exc"] = type(e).__name__
        finally:
            mp.prec = p
    return out


def worker_main():
    os.environ.setdefault("MPMATH_NOGMPY", "1")
    sys.set_int_max_str_digits(0)
    import_repo()
    for line in sys.stdin:
        line = line.strip()
        if not line:
            continue
        task = json.loads(line)
        try:
            res = {"ok": worker_run(task)}
        except BaseException as e:  # noqa
            if isinstance(e, (KeyboardInterrupt, SystemExit)):
                raise
            res = {"exc": type(e).__name__, "msg": str(e)[:200]}
        sys.stdout.write(json.dumps(res) + "\n")
        sys.stdout.flush()


class Worker:
    def __init__(self):
        self.p = None
        self.spawn()

    def spawn(self):
        env = dict(os.environ)
        env["MPMATH_NOGMPY"] = "1"
        self.p = subprocess.Popen([PY, os.path.abspath(__file__), "--worker"], stdin=subprocess.PIPE,
                                  stdout=subprocess.PIPE, stderr=subprocess.DEVNULL, env=env, text=True, bufsize=1)

    def call(self, task, timeout):
        try:
            self.p.stdin.write(json.dumps(task) + "\n")
            self.p.stdin.flush()
        except (BrokenPipeError, OSError):
            self.kill(); self.spawn()
            return {"crash": True}
        r, _, _ = select.select([self.p.stdout], [], [], timeout)
        if not r:
            self.kill(); self.spawn()
            return {"timeout": True}
        line = self.p.stdout.readline()
        if not line:
            self.kill(); self.spawn()
            return {"crash": True}
        return json.loads(line)

    def kill(self):
        try:
            self.p.kill()
            self.p.wait(timeout=5)
        except Exception:  # noqa
            pass

    def close(self):
        try:
            self.p.stdin.close()
            self.p.wait(timeout=5)
        except Exception:  # noqa
            self.kill()


def run_tasks(tasks, timeout=20.0, nworkers=3):
    """run all tasks on the real code; returns list of results in order"""
    results = [None] * len(tasks)
    lock = threading.Lock()
    nxt = [0]

    def loop():
        w = Worker()
        try:
            while True:
                with lock:
                    i = nxt[0]
                    nxt[0] += 1
                if i >= len(tasks):
                    return
                if tasks[i].get("fresh"):
                    # a process of its own, fresh from `import mpmath`: what the task observes depends on the task alone
                    w1 = Worker()
                    try:
                        results[i] = w1.call(tasks[i], tasks[i].get("timeout", timeout))
                    finally:
                        w1.close()
                    continue
                results[i] = w.call(tasks[i], tasks[i].get("timeout", timeout))
        finally:
            w.close()
    ths = [threading.Thread(target=loop) for _ in range(max(1, min(nworkers, len(tasks))))]
    for t in ths:
        t.start()
    for t in ths:
        t.join()
    return results


# --------------------------------------------------------------------------------------
# generators of matrix classes (exact entries)
# --------------------------------------------------------------------------------------

PRECS_LA = [30, 53, 64, 100, 113, 200, 300]


class MGen:
    def __init__(self, seed, max_n=8, max_prec=300):
        self.r = random.Random(seed)
        self.hist = {}
        self.max_n = max_n
        self.max_prec = max_prec

    def note(self, k, v):
        d = self.hist.setdefault(k, {})
        d[str(v)] = d.get(str(v), 0) + 1

    def prec(self):
        r = self.r
        p = r.choice([q for q in PRECS_LA if q <= self.max_prec]) if r.random() < 0.75 else r.randint(30, self.max_prec)
        self.note("prec", p if p in PRECS_LA else "other")
        return p

    def size(self, lo=1):
        r = self.r
        n = r.choice([1, 2, 2, 3, 3, 4, 4, 5, 6, 7, 8])
        n = max(lo, min(n, self.max_n))
        self.note("n", n)
        return n

    # ---- scalars -------------------------------------------------------------------
    def real_entry(self, kind, prec):
        """returns (man, exp)"""
        r = self.r
        if kind == "int":
            return (r.randint(-9, 9), 0)
        if kind == "bigint":
            return (r.randint(-10 ** 6, 10 ** 6), 0)
        if kind == "dyadic":
            return (r.randint(-200, 200), -r.randint(0, 8))
        if kind == "decimal":
            from mpmath.libmp import from_str
            s = "%s%d.%0*d" % (r.choice(["", "-"]), r.randint(0, 20), r.randint(1, 3), r.randint(0, 999) % (10 ** 3))
            sg, m, e, b = from_str(s, prec, "n")
            return (-m if sg else m, e if m else 0)
        raise ValueError(kind)

    def entry(self, kind, prec, cplx):
        a = self.real_entry(kind, prec)
        if cplx:
            b = self.real_entry(kind, prec)
            return S(a[0], a[1], b[0], b[1])
        return S(a[0], a[1])

    def kind(self):
        k = self.r.choice(["int", "int", "bigint", "dyadic", "decimal"])
        self.note("entries", k)
        return k

    # ---- exact helpers over internal scalars ------------------------------------------
    @staticmethod
    def s_add(a, b):
        def add(m1, e1, m2, e2):
            if m1 == 0:
                return m2, e2
            if m2 == 0:
                return m1, e1
            e = min(e1, e2)
            return m1 * (1 << (e1 - e)) + m2 * (1 << (e2 - e)), e
        r = add(a[0], a[1], b[0], b[1])
        i = add(a[2], a[3], b[2], b[3])
        return S(r[0], r[1], i[0], i[1])

    @staticmethod
    def s_mul(a, b):
        ar, ai = (a[0], a[1]), (a[2], a[3])
        br, bi = (b[0], b[1]), (b[2], b[3])

        def mul(x, y):
            return (x[0] * y[0], x[1] + y[1])

        def sub(x, y):
            return MGen.s_add(S(x[0], x[1]), S(-y[0], y[1]))[:2]

        def add(x, y):
            return MGen.s_add(S(x[0], x[1]), S(y[0], y[1]))[:2]
        re = sub(mul(ar, br), mul(ai, bi))
        im = add(mul(ar, bi), mul(ai, br))
        return S(re[0], re[1], im[0], im[1])

    @staticmethod
    def s_conj(a):
        return S(a[0], a[1], -a[2], a[3])

    @staticmethod
    def m_mul(A, B):
        r, k, c = len(A), len(B), len(B[0])
        out = []
        for i in range(r):
            row = []
            for j in range(c):
                acc = S(0)
                for l in range(k):
                    acc = MGen.s_add(acc, MGen.s_mul(A[i][l], B[l][j]))
                row.append(acc)
            out.append(row)
        return out

    @staticmethod
    def m_H(A):
        return [[MGen.s_conj(A[i][j]) for i in range(len(A))] for j in range(len(A[0]))]

    def unimodular(self, n):
        """integer matrix S with integer inverse: product of elementary row operations; returns (S, Sinv)"""
        r = self.r
        Sm = [[S(1 if i == j else 0) for j in range(n)] for i in range(n)]
        Si = [[S(1 if i == j else 0) for j in range(n)] for i in range(n)]
        for _ in range(r.randint(1, 2 * n)):
            if n < 2:
                break
            i, j = r.sample(range(n), 2)
            c = r.choice([-2, -1, 1, 2])
            # S <- E S  (row_i += c row_j) ;  Sinv <- Sinv E^-1 (col_j -= c col_i)
            for t in range(n):
                Sm[i][t] = MGen.s_add(Sm[i][t], MGen.s_mul(S(c), Sm[j][t]))
            for t in range(n):
                Si[t][j] = MGen.s_add(Si[t][j], MGen.s_mul(S(-c), Si[t][i]))
        return Sm, Si

    # ---- matrix classes -------------------------------------------------------------
    def rect(self, m, n, kind, prec, cplx):
        return [[self.entry(kind, prec, cplx) for _ in range(n)] for _ in range(m)]

    def matrix(self, cls, n, prec, cplx, kind=None):
        """exact n×n matrix of the named class"""
        r = self.r
        kind = kind or self.kind()
        Z = S(0)
        if cls == "general":
            return self.rect(n, n, kind, prec, cplx)
        if cls in ("symmetric", "hermitian"):
            A = self.rect(n, n, kind, prec, cplx and cls == "hermitian")
            for i in range(n):
                for j in range(i):
                    A[i][j] = MGen.s_conj(A[j][i]) if cls == "hermitian" else A[j][i]
                if cls == "hermitian":
                    A[i][i] = S(A[i][i][0], A[i][i][1])
            return A
        if cls == "spd":
            k = "int" if kind in ("bigint", "decimal") else kind
            B = self.rect(n, n, k, prec, cplx)
            A = MGen.m_mul(MGen.m_H(B), B)
            sh = r.choice([1, 1, 2, 5])
            for i in range(n):
                A[i][i] = MGen.s_add(A[i][i], S(sh))
            return A
        if cls in ("upper", "lower"):
            A = self.rect(n, n, kind, prec, cplx)
            for i in range(n):
                for j in range(n):
                    if (cls == "upper" and i > j) or (cls == "lower" and i < j):
                        A[i][j] = Z
            return A
        if cls == "diagonal":
            A = [[Z] * n for _ in range(n)]
            for i in range(n):
                A[i][i] = self.entry(kind, prec, cplx)
            return A
        if cls == "defective":
            # S J S^-1 with J a direct sum of Jordan blocks (integer eigenvalues), S unimodular: integer entries
            J = [[Z] * n for _ in range(n)]
            i = 0
            while i < n:
                bl = r.randint(1, min(3, n - i))
                lam = S(r.randint(-4, 4), 0, r.randint(-3, 3) if cplx else 0, 0)
                for t in range(bl):
                    J[i + t][i + t] = lam
                    if t + 1 < bl:
                        J[i + t][i + t + 1] = S(1)
                i += bl
            Sm, Si = self.unimodular(n)
            return MGen.m_mul(MGen.m_mul(Sm, J), Si)
        if cls in ("repeated", "repeated_sym"):
            if cls == "repeated" and (r.random() < 0.5 or cplx):
                # similarity of a diagonal matrix with repeated entries
                lams = [S(r.randint(-3, 3), 0, r.randint(-2, 2) if cplx else 0, 0) for _ in range(max(1, n // 2))]
                D = [[Z] * n for _ in range(n)]
                for i in range(n):
                    D[i][i] = r.choice(lams)
                Sm, Si = self.unimodular(n)
                return MGen.m_mul(MGen.m_mul(Sm, D), Si)
            # symmetric: c I + u u^T  (eigenvalue c with multiplicity n-1)
            u = [S(r.randint(-3, 3)) for _ in range(n)]
            c = S(r.randint(-3, 3))
            return [[MGen.s_add(MGen.s_mul(u[i], u[j]), c if i == j else Z) for j in range(n)] for i in range(n)]
        if cls == "hilbert":
            from mpmath.libmp import from_rational
            sh = r.randint(1, 3)
            A = []
            for i in range(n):
                row = []
                for j in range(n):
                    sg, m, e, b = from_rational(1, i + j + sh, prec, "n")
                    row.append(S(m, e))
                A.append(row)
            return A
        if cls == "zero_rows":
            A = self.rect(n, n, kind, prec, cplx)
            for i in r.sample(range(n), r.randint(1, max(1, n // 2))):
                A[i] = [Z] * n
            return A
        if cls == "zero":
            return [[Z] * n for _ in range(n)]
        if cls == "identity":
            return [[S(1 if i == j else 0) for j in range(n)] for i in range(n)]
        if cls == "singular":
            # rank-deficient by construction (exact): a row is an integer combination of the others / duplicate / zero
            k = "int" if kind == "decimal" else kind
            A = self.rect(n, n, k, prec, cplx)
            how = r.choice(["zero_row", "dup_row", "combo", "zero_col", "rank1"]) if n > 1 else "zero_row"
            self.note("singular_how", how)
            if how == "zero_row":
                A[r.randrange(n)] = [Z] * n
            elif how == "zero_col":
                j = r.randrange(n)
                for i in range(n):
                    A[i][j] = Z
            elif how == "dup_row":
                i, j = r.sample(range(n), 2)
                A[i] = list(A[j])
            elif how == "rank1":
                u = [self.entry("int", prec, cplx) for _ in range(n)]
                v = [self.entry("int", prec, cplx) for _ in range(n)]
                A = [[MGen.s_mul(u[i], v[j]) for j in range(n)] for i in range(n)]
            else:
                t = r.randrange(n)
                acc = [Z] * n
                for i in range(n):
                    if i != t:
                        c = S(r.randint(-3, 3))
                        acc = [MGen.s_add(acc[j], MGen.s_mul(c, A[i][j])) for j in range(n)]
                A[t] = acc
            return A
        raise ValueError(cls)


# ---- independent certificate: exact Gauss-Jordan inverse over Q(i), rounded to dyadics --------------------------

def _c_mul(a, b):
    return (a[0] * b[0] - a[1] * b[1], a[0] * b[1] + a[1] * b[0])


def _c_sub(a, b):
    return (a[0] - b[0], a[1] - b[1])


def _c_inv(a):
    d = a[0] * a[0] + a[1] * a[1]
    return (a[0] / d, -a[1] / d)


def exact_inverse(A):
    """A: square matrix of internal scalars. Returns matrix of (Fraction, Fraction) or None when exactly singular."""
    n = len(A)
    Z, O = (Fraction(0), Fraction(0)), (Fraction(1), Fraction(0))
    M = [[frac(x) for x in row] + [O if i == j else Z for j in range(n)] for i, row in enumerate(A)]
    for c in range(n):
        piv = None
        for r_ in range(c, n):
            if M[r_][c] != Z:
                piv = r_
                break
        if piv is None:
            return None
        M[c], M[piv] = M[piv], M[c]
        inv = _c_inv(M[c][c])
        M[c] = [_c_mul(x, inv) for x in M[c]]
        for r_ in range(n):
            if r_ != c and M[r_][c] != Z:
                f = M[r_][c]
                M[r_] = [_c_sub(x, _c_mul(f, y)) for x, y in zip(M[r_], M[c])]
    return [row[n:] for row in M]


def exact_rank(A):
    """rank of a matrix of internal scalars, exactly over Q(i)"""
    Zc = (Fraction(0), Fraction(0))
    M = [[frac(x) for x in row] for row in A]
    rk, rows, cols = 0, len(M), len(M[0]) if M else 0
    for c in range(cols):
        piv = next((i for i in range(rk, rows) if M[i][c] != Zc), None)
        if piv is None:
            continue
        M[rk], M[piv] = M[piv], M[rk]
        inv = _c_inv(M[rk][c])
        for i in range(rk + 1, rows):
            if M[i][c] != Zc:
                f = _c_mul(M[i][c], inv)
                M[i] = [_c_sub(x, _c_mul(f, y)) for x, y in zip(M[i], M[rk])]
        rk += 1
    return rk


def gram_pivots(A):
    """[(s_j, ||a_j||^2)] for the columns a_j of A, s_j = squared distance of a_j from span(a_0..a_{j-1}) (exact: the pivots of
    Gaussian elimination without pivoting on the Gram matrix A^H A; stops at the first zero pivot)"""
    m, n = len(A), len(A[0]) if A else 0
    F = [[frac(x) for x in row] for row in A]
    G = [[(sum((F[k][i][0] * F[k][j][0] + F[k][i][1] * F[k][j][1] for k in range(m)), Fraction(0)),
           sum((F[k][i][0] * F[k][j][1] - F[k][i][1] * F[k][j][0] for k in range(m)), Fraction(0))) for j in range(n)] for i in range(n)]
    norms = [G[j][j][0] for j in range(n)]
    out = []
    Zc = (Fraction(0), Fraction(0))
    for c in range(n):
        d = G[c][c][0]
        out.append((d, norms[c]))
        if d <= 0:
            break
        inv = _c_inv(G[c][c])
        for i in range(c + 1, n):
            if G[i][c] != Zc:
                f = _c_mul(G[i][c], inv)
                G[i] = [_c_sub(x, _c_mul(f, y)) for x, y in zip(G[i], G[c])]
    return out


def _round_dyadic(x, bits):
    if x == 0:
        return (0, 0)
    e = x.numerator.bit_length() - x.denominator.bit_length()
    k = bits - e
    m = round(x * Fraction(2) ** k)
    return (m, -k)


def cert_R(A, prec, extra=40):
    """tokens of an approximate inverse of A (exact inverse rounded to prec+extra bits), or None if A is exactly singular.
    This is only a CERTIFICATE for the Lean checker (any matrix is admissible); it is computed independently of mpmath."""
    X = exact_inverse(A)
    if X is None:
        return None
    out = []
    for row in X:
        o = []
        for (re, im) in row:
            a = _round_dyadic(re, prec + extra)
            b = _round_dyadic(im, prec + extra)
            o.append(tok(S(a[0], a[1], b[0], b[1])))
        out.append(o)
    return out


def is_cplx_matrix(A):
    return any(x[2] != 0 for row in A for x in row)


def fits(A, prec):
    """every component representable with prec bits (the property speaks of exactly representable entries)"""
    for row in A:
        for x in row:
            for m in (x[0], x[2]):
                m = abs(m)
                while m and not m & 1:
                    m >>= 1
                if m.bit_length() > prec:
                    return False
    return True


def toks_of(M):
    return [[tok(x) for x in row] for row in M]


def from_toks(T):
    return [[untok(t) for t in row] for row in T]


def has_nonfinite(*Ts):
    for T in Ts:
        for row in T:
            for t in row:
                if t == "NONFINITE":
                    return True
    return False


def flat(T):
    return " ".join(t for row in T for t in row)


def case_id(task):
    return hashlib.md5(json.dumps(task, sort_keys=True).encode()).hexdigest()[:12]


def replay_task(task, timeout=60):
    """re-run one recorded task on the real code (used by --replay)"""
    return run_tasks([task], timeout=timeout, nworkers=1)[0]


if __name__ == "__main__":
    if len(sys.argv) > 1 and sys.argv[1] == "--worker":
        worker_main()


# --------------------------------------------------------------------------------------
# engine: cases -> real code (workers) -> exact checker (mpdrv) -> verdicts
# --------------------------------------------------------------------------------------

# defect families whose failing inputs are attributed to a common site (the defect sits in LU_decomp, reached from
# lu_solve / inverse / lu)
SITE_OF_TAG = {"singular_typeerror": "linalg.LU_decomp", "singular_returned": "linalg.LU_decomp",
               "sqrtm_noconvergence_wide_spectrum": "calculus.sqrtm"}

try:
    import findings as _findings

    @_findings.predicate("la_tag_singular_typeerror")
    def _p1(inp):
        return inp.get("tag") == "singular_typeerror"

    @_findings.predicate("la_tag_singular_returned")
    def _p2(inp):
        return inp.get("tag") == "singular_returned"

    @_findings.predicate("la_complex_task")
    def _p3(inp):
        return bool(inp.get("task", {}).get("cplx")) and inp.get("tag") == "forward_error"

    @_findings.predicate("la_qr_solve_zero_real_pivot")
    def _p5(inp):
        t = inp.get("task", {})
        return (t.get("op") == "qr_solve" and inp.get("tag") == "exception_wellcond"
                and any(untok(x)[0] == 0 for row in t.get("A", []) for x in row))

    @_findings.predicate("la_sqrtm_noconvergence_wide_spectrum")
    def _p6(inp):
        return inp.get("tag") == "sqrtm_noconvergence_wide_spectrum" and (":rot_slow_" in str(inp.get("cls")) or ":rot_det:" in str(inp.get("cls")))

    @_findings.predicate("la_lu_cache_history")
    def _p4(inp):
        return inp.get("task", {}).get("op") == "lu_cache" and "prec0" in inp.get("task", {})

    @_findings.predicate("la_svd_wide_rank_deficient")
    def _p7(inp):
        """svd of a WIDE matrix (rows < columns) whose exact or numerical rank is below the number of rows (an exactly zero singular
        value is returned), the only failing part being the orthonormality of U (svd_r_raw / svd_c_raw work on n singular values, the sort cannot tell the exactly zero singular
        values that carry a column of U from the n-m padding ones: a zero column of U is returned)"""
        t = inp.get("task", {})
        A = from_toks(t.get("A", []))
        ans = inp.get("answers", {})
        if not (t.get("op") in ("svd", "svd_r", "svd_c") and A and len(A) < len(A[0]) and ans.get("cert") == "V:violates:orthU"
                and all(v == "V:ok" or k in ("cert", "orthUfull") for k, v in ans.items())):
            return False
        # rank deficient exactly, or numerically: an exactly zero singular value was returned
        Sg = ((inp.get("result") or {}).get("ok") or {}).get("S") or []
        return exact_rank(A) < len(A) or any(row[0] == "0" for row in Sg)

    @_findings.predicate("la_svd_wide_ill_conditioned")
    def _p7b(inp):
        """svd of a WIDE matrix (rows < columns) that is numerically close to rank deficient at the working precision (returned
        singular values spread over at least p/2 bits — outside the property's "moderate condition"), the only failing part being
        the orthonormality of U: the numerical form of LA8 (the columns of U belonging to the smallest singular values are not
        normalised to working precision; tall matrices with the same grading keep both factors orthonormal)"""
        t = inp.get("task", {})
        A = t.get("A", [])
        ans = inp.get("answers", {})
        sv = inp.get("sv_summary")
        if not (t.get("op") in ("svd", "svd_r", "svd_c") and A and len(A) < len(A[0]) and ans.get("cert") == "V:violates:orthU"
                and all(v == "V:ok" or k in ("cert", "orthUfull") for k, v in ans.items()) and sv and sv[0] is not None):
            return False
        return sv[2] > 0 or sv[0] - sv[1] >= int(t.get("prec", 53)) // 2

    @_findings.predicate("la_absolute_singularity_threshold")
    def _p8(inp):
        """qr_solve (householder: `abs(s) > eps`) and the overdetermined branch of lu_solve (cholesky of A^H A: `s < eps`) compare
        the squared distance s_j of column j from the span of the previous columns with the ABSOLUTE eps of the working
        precision p+10: the exception is attributed to that test when, exactly, some s_j <= 2^-(p+8) although the relative
        test s_j / ||a_j||^2 > 2^-(p+8) would pass"""
        t = inp.get("task", {})
        if inp.get("tag") != "exception_wellcond" or t.get("op") not in ("qr_solve", "lu_solve"):
            return False
        A = from_toks(t.get("A", []))
        if t["op"] == "lu_solve" and len(A) == len(A[0]):
            return False
        msg = str(inp.get("result", {}).get("msg", ""))
        if not ("numerically singular" in msg or "not positive-definite" in msg):
            return False
        thr = Fraction(1, 2 ** (t["prec"] + 8))
        return any(sj <= thr and sj > thr * nj for sj, nj in gram_pivots(A))
except ImportError:  # worker process: findings not needed
    pass


class Engine:
    """A case is a dict with
         task      JSON task for the worker (replayable)
         site      "<module.function>" for findings
         cls       input class (histogram)
         lines     function(case, res) -> {name: driver request line}     (res = worker result)
         judge     function(case, res, ans) -> (status, what)   status in ok|violates|undecided|na|noresult
    """

    def __init__(self, ctx, timeout=40.0, nworkers=3):
        self.ctx = ctx
        self.cases = []
        self.timeout = timeout
        self.nworkers = nworkers

    def add(self, case):
        self.cases.append(case)

    def run(self):
        cases = self.cases
        results = run_tasks([c["task"] for c in cases], timeout=self.timeout, nworkers=self.nworkers)
        reqs = []
        idx = []
        for k, (c, res) in enumerate(zip(cases, results)):
            c["res"] = res
            try:
                ls = c["lines"](c, res) or {}
            except Exception as e:  # noqa
                ls = {}
                c["lines_error"] = repr(e)
            for name, line in ls.items():
                reqs.append(line)
                idx.append((k, name))
        answers = []
        CH = 400
        drv = Driver()
        for i in range(0, len(reqs), CH):
            answers += drv.ask(reqs[i:i + CH])
        for c in cases:
            c["ans"] = {}
        for (k, name), a in zip(idx, answers):
            cases[k]["ans"][name] = a
        self.nlines = len(reqs)
        out = {"failing": [], "status": {}, "per_site": {}, "per_class": {}, "distinct": set(), "samples": [],
               "noresult": [], "undecided": [], "exceptions": {}}
        for c in cases:
            res = c["res"]
            tag = None
            if res is None or res.get("timeout") or res.get("crash"):
                status, what = "noresult", "timeout" if (res or {}).get("timeout") else "crash"
                if c.get("noresult_judge"):
                    status, what = c["noresult_judge"](c, res, c["ans"])
            else:
                try:
                    jr = c["judge"](c, res, c["ans"])
                    status, what = jr[0], jr[1]
                    tag = jr[2] if len(jr) > 2 else None
                except Exception as e:  # noqa
                    status, what = "undecided", "harness: " + repr(e)
            c["status"] = status
            if tag in SITE_OF_TAG:
                c = dict(c)
                c["routine"] = c["site"]
                c["site"] = SITE_OF_TAG[tag]
            out["status"][status] = out["status"].get(status, 0) + 1
            ps = out["per_site"].setdefault(c["site"], {})
            ps[status] = ps.get(status, 0) + 1
            pc = out["per_class"].setdefault(c.get("cls", "?"), {})
            pc[status] = pc.get(status, 0) + 1
            if res and "exc" in res:
                k = c["site"] + ":" + res["exc"]
                out["exceptions"][k] = out["exceptions"].get(k, 0) + 1
            if status in ("ok", "violates") and c.get("nontrivial", True):
                out["distinct"].add(case_id(c["task"]))
            if status == "violates":
                out["failing"].append({"site": c["site"], "what": what,
                                       "input": {"task": c["task"], "cls": c.get("cls"), "answers": c["ans"],
                                                 "tag": tag, "routine": c.get("routine", c["site"]),
                                                 "result": _short(res), "sv_summary": _sv_summary(res)}})
            elif status == "noresult":
                out["noresult"].append({"site": c["site"], "what": what, "task": c["task"]})
            elif status == "undecided":
                out["undecided"].append({"site": c["site"], "what": what, "cls": c.get("cls"), "prec": c["task"].get("prec")})
            if len(out["samples"]) < 6 and status == "ok" and c.get("nontrivial", True) and len(json.dumps(c["task"])) < 700:
                out["samples"].append({"site": c["site"], "task": c["task"], "answers": c["ans"]})
        return out


def _sv_summary(res):
    """binary magnitudes of the returned singular values (survives the truncation of large results): [log2 max, log2 min of the
    nonzero ones, number of exact zeros], None when the result has no S"""
    try:
        Sg = ((res or {}).get("ok") or {}).get("S")
        if not Sg:
            return None
        mags, zeros = [], 0
        for row in Sg:
            tok_ = str(row[0]).split(",")[0]
            m_, _, e_ = tok_.partition(":")
            m_ = int(m_)
            if m_ == 0:
                zeros += 1
            else:
                mags.append(abs(m_).bit_length() + int(e_ or 0))
        return [max(mags), min(mags), zeros] if mags else [None, None, zeros]
    except Exception:  # noqa
        return None


def _short(res):
    s = json.dumps(res)
    return res if len(s) < 3000 else {"truncated": s[:3000]}


def coverage_of(out, g, rule, programs, evaluations=None):
    return {
        "evaluations": evaluations if evaluations is not None else sum(out["status"].values()),
        "distinct_nontrivial": len(out["distinct"]),
        "rule": rule,
        "samples": out["samples"][:4],
        "programs": programs,
        "disagreements_checked": out["status"].get("ok", 0) + out["status"].get("violates", 0),
        "undecided": out["status"].get("undecided", 0),
        "not_applicable": out["status"].get("na", 0),
        "noresult": len(out["noresult"]),
        "noresult_samples": out["noresult"][:5],
        "undecided_samples": out["undecided"][:8],
        "verdicts": out["status"],
        "per_site": out["per_site"],
        "per_class": out["per_class"],
        "exceptions": out["exceptions"],
        "input_distribution": g.hist,
    }
