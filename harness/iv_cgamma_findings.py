"""Known-finding predicates for the failing inputs of harness/iv_cgamma_ops.py (C15, complex gamma family) and the PROPOSED
entries for /verif/known_findings.json.  Importing this module registers the predicates in harness/findings.py."""
from findings import predicate
from iv_fun_findings import _sgn


def _touches_negative_axis_from_below(inp):
    """iv.loggamma of a rectangle [xa, xb] + [ya, 0] i with ya < 0 and xa < 0: mpci_gamma (type 3) uses the recurrence
    loggamma(z) = loggamma(z+1) - log(z); the imaginary part of mpci_log(z) = mpi_atan2(y, x) is the ill-formed
    [pi, negative] of the known finding IV7 / IV10 (lower half-plane branch with yb = 0, xa < 0)"""
    if inp.get("fun") != "cloggamma":
        return False
    re, im = inp["args"][0]
    return _sgn(im[1]) == 0 and _sgn(im[0]) == -1 and _sgn(re[0]) == -1


@predicate("ivcgamma_loggamma_log_touching_negative_axis_illformed")
def _lg_illformed(inp):
    return inp.get("class") == "wellformed" and _touches_negative_axis_from_below(inp)


@predicate("ivcgamma_loggamma_log_touching_negative_axis_imag")
def _lg_imag(inp):
    """same inputs, the inverted imaginary part of log(z) is hidden by a later term of the recurrence (or by the infinite
    real part): the IMAGINARY part of the result misses 0 at positive real points"""
    return inp.get("class") == "contain" and inp.get("component") == 1 and _touches_negative_axis_from_below(inp)



@predicate("ivcgamma_loggamma_real_axis_segment_through_nonpositive_reals")
def _lg_real_segment(inp):
    """iv.loggamma of a degenerate rectangle [xa, xb] + [0, 0] i with xa <= 0 (these raised ValueError before the repair IVG1 of the
    real case): the recurrence subtracts mpci_log(z) of a real segment containing non-positive reals, whose imaginary part comes from
    the same defective mpi_atan2 (IV6/IV7/IV10): the imaginary part of the result is a single multiple of pi and misses 0 at the
    positive real points of the segment"""
    if inp.get("fun") != "cloggamma" or inp.get("class") not in ("contain", "wellformed"):
        return False
    re, im = inp["args"][0]
    return _sgn(im[0]) == 0 and _sgn(im[1]) == 0 and _sgn(re[0]) <= 0 and (inp.get("class") == "wellformed" or inp.get("component") == 1)


def _k(inp):
    k = inp.get("excess_log2_ulp")
    return k if isinstance(k, int) else None


def _re_contain(inp):
    return inp.get("fun") == "cloggamma" and inp.get("class") == "contain" and inp.get("component") == 0


@predicate("ivcgamma_loggamma_crossing_min_corner_rounded_up")
def _lg_crossing(inp):
    """mpci_gamma, branch 'crosses real axis': minre = mpc_loggamma(corner, prec+20, round_CEILING) (the two other branches use
    round_floor): when log|Gamma| at that corner is less than 2^-20 ulp below a prec-bit number the lower real endpoint is that
    number, above the exact value.  Only lower real endpoints, rectangle strictly crossing the real axis, excess <= 2^-19 ulp."""
    k = _k(inp)
    if not (_re_contain(inp) and inp.get("side") == "lower" and k is not None and k <= -19):
        return False
    re, im = inp["args"][0]
    return _sgn(im[0]) == -1 and _sgn(im[1]) == 1


@predicate("ivcgamma_loggamma_corner_within_2^-34_ulp")
def _lg_tail(inp):
    """mpc_loggamma(z, prec+20, round_floor / round_ceiling) rounds an approximation in the requested direction: its value is
    within one unit of the (prec+20)-bit grid of the exact corner value but not necessarily on the requested side, so the direction
    is lost when the exact corner value is closer than 2^-20 ulp (of the prec-bit grid) to a prec-bit number (observed from 2^-27
    ulp at 24 bits — thorough tier, steering depth 2^-28 — and from 2^-36 ulp at the quick tier's depths)"""
    k = _k(inp)
    return _re_contain(inp) and k is not None and k <= -21


PROPOSED_FINDINGS = [
    {"id": "IV20", "property": "C15", "status": "finding", "site": "iv.mpc.loggamma.wellformed",
     "predicate": "ivcgamma_loggamma_log_touching_negative_axis_illformed",
     "what": "iv.loggamma of a rectangle in the closed lower half-plane touching the negative real axis ([xa,xb]+[ya,0]i, xa<0, ya<0): "
             "the recurrence subtracts mpci_log(z), whose imaginary part is the ill-formed [pi, negative] of IV7/IV10; the imaginary "
             "part of the result has its lower endpoint above its upper endpoint",
     "witness": "iv.loggamma(iv.mpc([-3.5,-3.5],[-0.71875,0])).imag has a > b;  iv.loggamma(iv.mpc([-1,-0.4375],[-1.1,0]))"},
    {"id": "IV21", "property": "C15", "status": "finding", "site": "iv.mpc.loggamma.contain",
     "predicate": "ivcgamma_loggamma_log_touching_negative_axis_imag",
     "what": "same inputs as IV20 when the rectangle also contains positive reals: the imaginary part of iv.loggamma does not contain 0 "
             "although log Gamma(1/2), log Gamma(1) are real (inverted mpi_atan2 interval of IV7 inside the recurrence)",
     "witness": "iv.prec=64; iv.loggamma(iv.mpc([-0.015625,2.375],[-17,0])).imag does not contain 0 (the rectangle contains 1, loggamma(1)=0)"},
    {"id": "IV22", "property": "C15", "status": "finding", "site": "iv.mpc.loggamma.contain",
     "predicate": "ivcgamma_loggamma_crossing_min_corner_rounded_up",
     "what": "mpci_gamma, rectangle crossing the real axis: the corner value that becomes the LOWER real endpoint is computed with "
             "round_ceiling (minre = mpc_loggamma((a1,b), wp, round_ceiling); maxim likewise with round_floor); iv.loggamma's lower real "
             "endpoint is above log|Gamma| at that corner whenever the exact value is less than 2^-20 ulp below a prec-bit number",
     "witness": "iv.prec=10; iv.loggamma(iv.mpc(2, iv.mpf([-1022844108162678150419237031365995449316625954137*iv.mpf(2)**-160, 0.25]))).real.a "
                "== -157*2^-10 > log|Gamma(2+i*b1)| = -157*2^-10 - 5.3e-50  (closed form |Gamma(2+iy)|^2 = (1+y^2) pi y / sinh(pi y))"},
    {"id": "IV23", "property": "C15", "status": "finding", "site": "iv.mpc.loggamma.contain",
     "predicate": "ivcgamma_loggamma_corner_within_2^-34_ulp",
     "what": "iv.loggamma real endpoints come from mpc_loggamma(corner, prec+20, directed), which rounds an approximation: when the exact "
             "log|Gamma| at the corner is within about 2^-34 ulp of a prec-bit number the endpoint can be on the wrong side (seen from "
             "2^-36 ulp on, for lower and upper endpoints in every half-plane branch)",
     "witness": "steered corners of harness/iv_cgamma_ops.py (depth 40 / 100), e.g. seed 0: about 2 of 3 upper endpoints at depth 2^-40 ulp"},
]
