"""C35 — integer relations: tasks for the real `pslq` / `findpoly` / `identify`, exact acceptance checks by the
Lean checkers (`pslqchk`, `polychk` through mpdrv) and the verified interval evaluator (`encl`).

Every call into mpmath runs in a worker process with a per-call alarm (a timeout is "no result").
Worker mode:  python rel_ops.py --worker   (JSON list of tasks on stdin, JSON list of results on stdout)
"""
import os, sys, json, subprocess, random, signal, time, re
from fractions import Fraction
from concurrent.futures import ThreadPoolExecutor

HERE = os.path.dirname(os.path.abspath(__file__))
sys.path.insert(0, HERE)
from common import REPO, Driver, InfraError  # noqa

PY = sys.executable
CALL_TIMEOUT = 20

# ------------------------------------------------------------------------------------------------
# worker
# ------------------------------------------------------------------------------------------------

class _Timeout(Exception):
    pass


def _alarm(signum, frame):
    raise _Timeout()


def _dy(v):
    """exact dyadic (m, e) of an mpf"""
    s, m, e, b = v._mpf_
    return [str(-m if s else m), str(e)]


def _build(mp, spec, hp):
    """exact construction of a number from a small spec, at precision hp (returns an mpf).  spec forms:
       ["mpf", m, e] | ["q", p, q] | ["sqrt", k] | ["pi"] | ["e"] | ["log", k] | ["exp", p, q] | ["expof", spec] | ["root", k, n]
       | ["lin", [[p,q,spec],...]] | ["mul", spec, spec] | ["polyroot", [a_d..a_0], guess_p, guess_q]
       | ["rand", seed_int]  (a 'generic' real: the fractional bits of sqrt of a large prime-ish seed)"""
    t = spec[0]
    old = mp.prec
    mp.prec = hp
    try:
        if t == "mpf":
            return mp.ldexp(mp.mpf(int(spec[1])), int(spec[2]))
        if t == "q":
            return mp.mpf(int(spec[1])) / int(spec[2])
        if t == "sqrt":
            return mp.sqrt(int(spec[1]))
        if t == "pi":
            return +mp.pi
        if t == "e":
            return +mp.e
        if t == "log":
            return mp.ln(int(spec[1]))
        if t == "exp":
            return mp.exp(mp.mpf(int(spec[1])) / int(spec[2]))
        if t == "root":
            return mp.root(int(spec[1]), int(spec[2]))
        if t == "expof":
            return mp.exp(_build(mp, spec[1], hp))
        if t == "lin":
            s = mp.mpf(0)
            for p, q, sp in spec[1]:
                s += mp.mpf(int(p)) / int(q) * _build(mp, sp, hp)
            return s
        if t == "mul":
            return _build(mp, spec[1], hp) * _build(mp, spec[2], hp)
        if t == "polyroot":
            cs = [int(c) for c in spec[1]]
            return mp.findroot(lambda z: mp.polyval(cs, z), mp.mpf(int(spec[2])) / int(spec[3]))
        if t == "rand":
            return mp.frac(mp.sqrt(int(spec[1]))) + mp.mpf(1) / 3
        raise ValueError(t)
    finally:
        mp.prec = old


def _run_task(mp, task):
    kind = task["kind"]
    prec = int(task["prec"])
    hp = 3 * prec + 200
    mp.prec = prec
    out = {"id": task["id"]}
    if kind == "pslq":
        xs = []
        if task.get("plant") is not None:
            # x_n := -(sum_{k<n} c_k x_k)/c_n at high precision, then every entry rounded to the working precision
            c = [int(v) for v in task["plant"]]
            base = [_build(mp, sp, hp) for sp in task["x"]]
            mp.prec = hp
            last = -sum(ck * xk for ck, xk in zip(c[:-1], base)) / c[-1]
            if task.get("perturb"):
                p, q, sh = task["perturb"]
                last = last + mp.ldexp(mp.mpf(int(p)) / int(q), int(sh))
            base.append(last)
            mp.prec = prec
            xs = [+b for b in base]
        else:
            xs = [+_build(mp, sp, hp) for sp in task["x"]]
            mp.prec = prec
        if task.get("scale"):
            xs = [mp.ldexp(v, int(task["scale"])) for v in xs]
        kw = {}
        if task.get("tol") is not None:
            kw["tol"] = mp.ldexp(mp.mpf(1), int(task["tol"]))
        if task.get("maxcoeff") is not None:
            kw["maxcoeff"] = int(task["maxcoeff"])
        if task.get("maxsteps") is not None:
            kw["maxsteps"] = int(task["maxsteps"])
        tol = kw.get("tol", mp.mpf(2) ** (-int(prec * 0.75)))
        out["xs"] = [_dy(v) for v in xs]
        out["tol"] = _dy(mp.convert(tol))
        out["maxcoeff"] = int(kw.get("maxcoeff", 1000))
        r = mp.pslq(xs, **kw)
        out["result"] = None if r is None else [str(int(v)) for v in r]
        out["types_ok"] = r is None or all(type(v) is int for v in r)
    elif kind == "findpoly":
        x = +_build(mp, task["x"], hp)
        mp.prec = prec
        x = +x
        kw = {}
        if task.get("tol") is not None:
            kw["tol"] = mp.ldexp(mp.mpf(1), int(task["tol"]))
        if task.get("maxcoeff") is not None:
            kw["maxcoeff"] = int(task["maxcoeff"])
        if task.get("maxsteps") is not None:
            kw["maxsteps"] = int(task["maxsteps"])
        tol = kw.get("tol", mp.mpf(2) ** (-int(prec * 0.75)))
        out["x"] = _dy(x)
        out["tol"] = _dy(mp.convert(tol))
        out["maxcoeff"] = int(kw.get("maxcoeff", 1000))
        r = mp.findpoly(x, int(task["n"]), **kw)
        out["result"] = None if r is None else [str(int(v)) for v in r]
        if r is not None:
            # the vector findpoly handed to pslq: [1, x, x**2, ...] with every power ROUNDED to the working precision
            out["xs_rounded"] = [_dy(mp.mpf(1))] + [_dy(x ** i) for i in range(1, len(r))]
        out["types_ok"] = r is None or all(type(v) is int for v in r)
    elif kind == "identify":
        x = +_build(mp, task["x"], hp)
        mp.prec = prec
        x = +x
        kw = {}
        if task.get("tol") is not None:
            kw["tol"] = mp.ldexp(mp.mpf(1), int(task["tol"]))
        if task.get("maxcoeff") is not None:
            kw["maxcoeff"] = int(task["maxcoeff"])
        tol = kw["tol"] if "tol" in kw else mp.eps ** 0.7
        out["x"] = _dy(x)
        out["tol"] = _dy(mp.convert(tol))
        r = mp.identify(x, list(task.get("constants", [])), full=bool(task.get("full")), **kw)
        if r is None:
            out["result"] = None
        elif isinstance(r, list):
            out["result"] = [str(s) for s in r]
        else:
            out["result"] = [str(r)]
    return out


def worker_main():
    tasks = json.loads(sys.stdin.read())
    import mpmath
    if os.environ.get("VERIF_REL_MUTANT"):       # mutation testing of the harness only (rel_mutations.py)
        import rel_mutations
        rel_mutations.apply(os.environ["VERIF_REL_MUTANT"])
    mp = mpmath.mp
    signal.signal(signal.SIGALRM, _alarm)
    res = []
    for t in tasks:
        signal.alarm(CALL_TIMEOUT)
        try:
            try:
                res.append(_run_task(mp, t))
            except _Timeout:
                res.append({"id": t["id"], "timeout": True})
            except Exception as e:  # noqa
                res.append({"id": t["id"], "exc": type(e).__name__, "msg": str(e)[:200]})
        finally:
            signal.alarm(0)
    sys.stdout.write(json.dumps(res))


def run_tasks(tasks, par=4):
    if not tasks:
        return []
    env = dict(os.environ)
    env["MPMATH_NOGMPY"] = "1"
    env["PYTHONPATH"] = REPO + os.pathsep + env.get("PYTHONPATH", "")
    par = max(1, min(par, len(tasks)))
    parts = [tasks[k::par] for k in range(par)]

    def one(part):
        try:
            p = subprocess.run([PY, os.path.abspath(__file__), "--worker"], input=json.dumps(part), stdout=subprocess.PIPE,
                               stderr=subprocess.PIPE, text=True, timeout=60 + CALL_TIMEOUT * len(part), env=env)
        except subprocess.TimeoutExpired:
            return [{"id": t["id"], "timeout": True} for t in part]
        if p.returncode != 0:
            raise InfraError("rel worker failed: " + p.stderr[-800:])
        return json.loads(p.stdout)

    by_id = {}
    with ThreadPoolExecutor(par) as ex:
        for ans in ex.map(one, parts):
            for a in ans:
                by_id[a["id"]] = a
    return [by_id[t["id"]] for t in tasks]


# ------------------------------------------------------------------------------------------------
# generators
# ------------------------------------------------------------------------------------------------

PRECS = [53, 64, 80, 100, 150, 200, 300]
PRIMES = [2, 3, 5, 7, 11, 13, 17, 19, 23, 29, 31]


class RelGen:
    def __init__(self, seed):
        self.r = random.Random(seed)
        self.r2 = random.Random(seed * 7919 + 35)      # stream of the completeness class (pslq_complete_task)
        self.hist = {}
        self.n = 0

    def note(self, k, v):
        d = self.hist.setdefault(k, {})
        d[v] = d.get(v, 0) + 1

    def _id(self):
        self.n += 1
        return self.n

    def generic(self):
        r = self.r
        k = r.random()
        if k < 0.25:
            return ["sqrt", r.choice(PRIMES)]
        if k < 0.35:
            return ["pi"]
        if k < 0.45:
            return ["e"]
        if k < 0.55:
            return ["log", r.choice(PRIMES)]
        if k < 0.65:
            return ["q", 1, 1]
        return ["rand", r.randint(10 ** 6, 10 ** 9) * 2 + 1]

    def prec(self):
        p = self.r.choice(PRECS)
        self.note("prec", p)
        return p

    def pslq_task(self):
        r = self.r
        prec = self.prec()
        n = r.randint(2, 6)
        k = r.random()
        t = {"id": self._id(), "kind": "pslq", "prec": prec}
        if k < 0.5:
            cls = "planted"
            C = r.choice([5, 10, 100, 999])
            while True:
                c = [r.randint(-C, C) for _ in range(n)]
                if c[-1] != 0 and sum(1 for v in c if v) >= 2:
                    break
            t.update(plant=c, x=[self.generic() for _ in range(n - 1)])
            if r.random() < 0.3:
                t["maxcoeff"] = r.choice([C + 1, 10 * C, 10 ** 6])
            # is the precision enough for a relation of this size?  n*log2(C) bits needed
            t["expect_found"] = (n * (C.bit_length()) * 1.3 + 20 < 0.75 * prec) and ("maxcoeff" not in t or t["maxcoeff"] > C)
        elif k < 0.62:
            cls = "planted-too-large-coefficients"
            c = [r.randint(50, 300) * r.choice([-1, 1]) for _ in range(n)]
            t.update(plant=c, x=[self.generic() for _ in range(n - 1)], maxcoeff=r.choice([10, 40]))
        elif k < 0.78:
            cls = "near-relation"
            c = [r.randint(-9, 9) or 1 for _ in range(n)]
            t.update(plant=c, x=[self.generic() for _ in range(n - 1)])
            # perturb the last entry by about tol * 2^j, j in -6..6 (both sides of the acceptance threshold)
            t["perturb"] = [r.choice([-3, -1, 1, 2, 5]), r.choice([1, 3, 7]), -int(prec * 0.75) + r.randint(-6, 6)]
        elif k < 0.90:
            cls = "no-relation"
            t.update(x=[["rand", r.randint(10 ** 6, 10 ** 9) * 2 + 1] for _ in range(n)])
            if r.random() < 0.5:
                t["tol"] = -r.randint(8, 30)            # loose tolerances: spurious "relations" are returned and must pass
                t["maxcoeff"] = r.choice([100, 1000, 10 ** 5])
        else:
            cls = "constants"
            pool = [["pi"], ["e"], ["log", 2], ["log", 3], ["sqrt", 2], ["q", 1, 1], ["lin", [[1, 1, ["pi"]], [2, 1, ["e"]]]],
                    ["lin", [[3, 4, ["log", 2]], [-1, 5, ["q", 1, 1]]]], ["mul", ["pi"], ["pi"]], ["mul", ["sqrt", 2], ["sqrt", 3]], ["sqrt", 6]]
            t.update(x=r.sample(pool, min(n, len(pool))))
        if r.random() < 0.2:
            t["scale"] = r.choice([-200, -40, 40, 500])
        if r.random() < 0.15 and "tol" not in t:
            t["tol"] = -int(prec * r.choice([0.3, 0.5, 0.6, 0.9]))
        t["class"] = cls
        self.note("pslq_class", cls)
        self.note("pslq_n", n)
        return t

    def pslq_complete_task(self):
        """completeness class: a PRIMITIVE planted relation whose coefficients ALL lie in [maxcoeff/2, maxcoeff) (random signs),
        n = 3..5, among constants that are linearly independent over Q (1, square roots of distinct primes, pi, e, log 2); the last
        entry is solved from the relation at 3*prec+200 bits and everything is rounded to prec >= 3*n*log2(maxcoeff) + 100 bits;
        maxsteps is raised so that the step limit cannot be the reason for a None.  Drawn from its own generator stream."""
        from math import gcd, log2, ceil
        r = self.r2
        n = r.randint(3, 5)
        M = r.choice([100, 1000, 1000, 10 ** 4, 10 ** 5])
        while True:
            c = [r.randint((M + 1) // 2, M - 1) * r.choice([-1, 1]) for _ in range(n)]
            g = 0
            for v in c:
                g = gcd(g, abs(v))
            if g == 1:
                break
        pool = [["sqrt", p_] for p_ in PRIMES] + [["pi"], ["e"], ["log", 2], ["q", 1, 1]]
        xs = r.sample(pool, n - 1)
        need = int(ceil(3 * n * log2(M))) + 100
        prec = need + r.choice([0, 0, 7, 50, 100])
        self.note("prec", prec)
        t = {"id": self._id(), "kind": "pslq", "prec": prec, "plant": c, "x": xs, "maxcoeff": M, "maxsteps": 10 ** 6,
             "class": "planted-complete", "complete": True, "expect_found": True}
        if r.random() < 0.2:
            t["scale"] = r.choice([-40, 40])
        self.note("pslq_class", "planted-complete")
        self.note("pslq_complete_n", n)
        self.note("pslq_complete_maxcoeff", M)
        self.note("pslq_complete_norm2_over_maxcoeff", "%.1f" % (round(2 * (sum(v * v for v in c) ** 0.5) / M) / 2))
        return t

    def findpoly_task(self):
        r = self.r
        prec = self.prec()
        k = r.random()
        t = {"id": self._id(), "kind": "findpoly", "prec": prec}
        if k < 0.15:
            cls, deg = "rational", 1
            t["x"] = ["q", r.randint(-50, 50) or 1, r.randint(1, 50)]
        elif k < 0.35:
            cls, deg = "quadratic-surd", 2
            t["x"] = ["lin", [[r.randint(-9, 9), r.randint(1, 9), ["q", 1, 1]], [r.randint(1, 9), r.randint(1, 9), ["sqrt", r.choice(PRIMES)]]]]
        elif k < 0.5:
            n = r.randint(2, 6)
            cls, deg = "root-of-integer", n
            t["x"] = ["root", r.choice([2, 3, 5, 6, 7, 10]), n]
        elif k < 0.6:
            cls, deg = "sqrt2+sqrt3", 4
            t["x"] = ["lin", [[1, 1, ["sqrt", 2]], [1, 1, ["sqrt", 3]]]]
        elif k < 0.85:
            d = r.randint(2, 6)
            cs = [r.randint(-9, 9) for _ in range(d + 1)]
            cs[0] = cs[0] or 1
            cs[-1] = -abs(cs[-1] or 1)                 # P(0) < 0 < P(large): a positive real root exists if the leading coeff > 0
            cs[0] = abs(cs[0])
            cls, deg = "polyroot", d
            t["x"] = ["polyroot", cs, r.randint(1, 3), 1]
        elif k < 0.93:
            cls, deg = "transcendental", 99
            t["x"] = r.choice([["pi"], ["e"], ["log", 2], ["rand", r.randint(10 ** 6, 10 ** 9) * 2 + 1]])
        else:
            cls, deg = "zero-or-dyadic", 1
            t["x"] = r.choice([["mpf", 0, 0], ["mpf", 3, -1], ["mpf", 5, 10]])
        t["n"] = max(1, min(7, (deg if deg < 99 else r.randint(1, 4)) + r.choice([-1, 0, 0, 0, 1])))
        if r.random() < 0.3:
            t["maxcoeff"] = r.choice([10, 100, 10 ** 4, 10 ** 6])
        if r.random() < 0.3:
            t["tol"] = -int(prec * r.choice([0.2, 0.4, 0.6, 0.85]))
        if r.random() < 0.2:
            t["maxsteps"] = r.choice([10, 1000])
        t["class"] = cls
        t["true_degree"] = deg
        t["expect_found"] = (deg <= t["n"] and deg < 99 and "maxcoeff" not in t and "tol" not in t and "maxsteps" not in t
                             and deg * 8 + 30 < 0.75 * prec)
        self.note("findpoly_class", cls)
        self.note("findpoly_n", t["n"])
        return t

    def identify_task(self):
        r = self.r
        prec = r.choice([53, 53, 64, 100, 150])
        self.note("prec", prec)
        p, q = r.randint(1, 30), r.randint(1, 30)
        k = r.choice(PRIMES[:5])
        forms = {
            "rational": (["q", p * r.choice([-1, 1]), q], []),
            "rational*sqrt": (["lin", [[p, q, ["sqrt", k]]]], []),
            "quadratic": (["lin", [[p, q, ["q", 1, 1]], [1, q, ["sqrt", k]]]], []),
            "rational*pi": (["lin", [[p, q, ["pi"]]]], ["pi"]),
            "pi^2": (["lin", [[p, q, ["mul", ["pi"], ["pi"]]]]], ["pi"]),
            "exp(rational)": (["exp", p % 7 + 1, q], ["e"]),
            "exp(rational)-noconst": (["exp", p % 7 + 1, q], []),
            # pure and mixed quadratic surds of EITHER sign behind identify's logarithmic transforms (quadraticstring's four
            # sign / b == 0 branches are only reached with the nearer root negative through these)
            "exp(-surd)": (["expof", ["lin", [[-(p % 3 + 1), q % 3 + 1, ["sqrt", k]]]]], []),
            "exp(surd)": (["expof", ["lin", [[p % 3 + 1, q % 3 + 1, ["sqrt", k]]]]], []),
            "exp(rational-surd)": (["expof", ["lin", [[p % 3 + 1, q % 4 + 1, ["q", 1, 1]], [-1, q % 3 + 1, ["sqrt", k]]]]], []),
            "log-combination": (["lin", [[p, q, ["log", 2]], [q, 7, ["log", 3]]]], ["log(2)", "log(3)"]),
            "pi+e": (["lin", [[p, q, ["pi"]], [q, 7, ["e"]]]], ["pi", "e"]),
            "sqrt-const": (["lin", [[p, q, ["sqrt", 2]], [q, 5, ["q", 1, 1]]]], ["sqrt(2)"]),
            "multiplicative": (["mul", ["root", 2, r.randint(2, 7)], ["root", 3, r.randint(2, 5)]], []),
            "pi*sqrt": (["mul", ["pi"], ["sqrt", k]], ["pi"]),
            "negative": (["lin", [[-p, q, ["pi"]]]], ["pi"]),
            "generic": (["rand", r.randint(10 ** 6, 10 ** 9) * 2 + 1], r.choice([[], ["pi"], ["pi", "e"]])),
            "zero": (["mpf", 0, 0], []),
        }
        name = r.choice(sorted(forms))
        x, consts = forms[name]
        t = {"id": self._id(), "kind": "identify", "prec": prec, "x": x, "constants": consts, "class": name}
        if r.random() < 0.3:
            t["full"] = True
        if r.random() < 0.2:
            t["tol"] = -r.choice([12, 20, 30])
        if r.random() < 0.15:
            t["maxcoeff"] = r.choice([100, 10000])
        self.note("identify_class", name)
        return t


# ------------------------------------------------------------------------------------------------
# request lines for the Lean checkers
# ------------------------------------------------------------------------------------------------

def pslq_line(res):
    xs = res["xs"]
    return "pslqchk %s %s %d %d %s %s" % (res["tol"][0], res["tol"][1], res["maxcoeff"], len(xs),
                                          " ".join("%s %s" % (m, e) for m, e in xs), " ".join(res["result"]))


def poly_line(res, n):
    return "polychk %s %s %d %d %s %s %s" % (res["tol"][0], res["tol"][1], res["maxcoeff"], n, res["x"][0], res["x"][1],
                                             " ".join(res["result"]))


# ------------------------------------------------------------------------------------------------
# the small grammar for identify's output, and exact interval evaluation
#   expr   := term (('+'|'-') term)*
#   term   := unary (('*'|'/') unary)*
#   unary  := '-' unary | power
#   power  := atom ('**' unary)?
#   atom   := INT | NAME | NAME '(' expr ')' | '(' expr ')'          NAME in {sqrt, exp, log, pi, e}
# ------------------------------------------------------------------------------------------------

TOKEN = re.compile(r"\s*(\*\*|\d+|[A-Za-z_]\w*|[-+*/()])")
FUNCS = ("sqrt", "exp", "log")
CONSTS = ("pi", "e")


class ParseError(Exception):
    pass


def tokenize(s):
    out, pos = [], 0
    s = s.strip()
    while pos < len(s):
        m = TOKEN.match(s, pos)
        if not m:
            raise ParseError("bad character at %d in %r" % (pos, s))
        out.append(m.group(1))
        pos = m.end()
    return out


class Parser:
    def __init__(self, toks):
        self.t, self.i = toks, 0

    def peek(self):
        return self.t[self.i] if self.i < len(self.t) else None

    def eat(self, x=None):
        tok = self.peek()
        if tok is None or (x is not None and tok != x):
            raise ParseError("expected %r, got %r" % (x, tok))
        self.i += 1
        return tok

    def expr(self):
        a = self.term()
        while self.peek() in ("+", "-"):
            op = self.eat()
            a = (op, a, self.term())
        return a

    def term(self):
        a = self.unary()
        while self.peek() in ("*", "/"):
            op = self.eat()
            a = (op, a, self.unary())
        return a

    def unary(self):
        if self.peek() == "-":
            self.eat()
            return ("neg", self.unary())
        return self.power()

    def power(self):
        a = self.atom()
        if self.peek() == "**":
            self.eat()
            return ("pow", a, self.unary())
        return a

    def atom(self):
        tok = self.peek()
        if tok is None:
            raise ParseError("unexpected end")
        if tok.isdigit():
            self.eat()
            return ("int", int(tok))
        if tok == "(":
            self.eat()
            a = self.expr()
            self.eat(")")
            return a
        if tok in FUNCS:
            self.eat()
            self.eat("(")
            a = self.expr()
            self.eat(")")
            return ("call", tok, a)
        if tok in CONSTS:
            self.eat()
            return ("const", tok)
        raise ParseError("name outside the grammar: %r" % tok)


def parse(s):
    p = Parser(tokenize(s))
    a = p.expr()
    if p.peek() is not None:
        raise ParseError("trailing input")
    return a


def const_value(ast):
    """exact rational value of a constant sub-expression made of ints, + - * / and neg (else None)"""
    k = ast[0]
    if k == "int":
        return Fraction(ast[1])
    if k == "neg":
        v = const_value(ast[1])
        return None if v is None else -v
    if k in ("+", "-", "*", "/"):
        a, b = const_value(ast[1]), const_value(ast[2])
        if a is None or b is None or (k == "/" and b == 0):
            return None
        return {"+": a + b, "-": a - b, "*": a * b, "/": a / b if b else None}[k]
    return None


class Undecided(Exception):
    pass


def _round_out(lo, hi, wp):
    """dyadic outward rounding of a rational interval to about wp bits: returns ((mlo, e), (mhi, e))"""
    mag = max(abs(lo), abs(hi))
    if mag == 0:
        return (0, 0), (0, 0)
    # exponent so that mag * 2^-e has about wp bits
    e = (mag.numerator.bit_length() - mag.denominator.bit_length()) - wp
    sc = Fraction(2) ** (-e)
    import math
    return (math.floor(lo * sc), e), (math.ceil(hi * sc), e)


def _dy_frac(m, e):
    return Fraction(m) * Fraction(2) ** e


def evaluate(ast, wp):
    """generator-based interval evaluation: yields ('encl', fun, m, e) requests, receives (lo, hi) Fractions or None.
    Returns (lo, hi) as Fractions.  Monotonicity of exp, log, sqrt on their domains is used for interval arguments."""
    k = ast[0]
    if k == "int":
        return Fraction(ast[1]), Fraction(ast[1])
    if k == "const":
        if ast[1] == "pi":
            r = yield ("pi", 0, 0)
        else:
            r = yield ("exp", 1, 0)
        if r is None:
            raise Undecided("no enclosure for " + ast[1])
        return r
    if k == "neg":
        lo, hi = yield from evaluate(ast[1], wp)
        return -hi, -lo
    if k in ("+", "-", "*", "/"):
        a = yield from evaluate(ast[1], wp)
        b = yield from evaluate(ast[2], wp)
        if k == "+":
            return a[0] + b[0], a[1] + b[1]
        if k == "-":
            return a[0] - b[1], a[1] - b[0]
        if k == "/":
            if b[0] <= 0 <= b[1]:
                raise Undecided("division by an interval containing 0")
            b = (1 / b[1], 1 / b[0])
        ps = [a[0] * b[0], a[0] * b[1], a[1] * b[0], a[1] * b[1]]
        return min(ps), max(ps)
    if k == "call":
        lo, hi = yield from evaluate(ast[2], wp)
        f = ast[1]
        if f in ("sqrt",) and lo < 0:
            raise Undecided("sqrt of a possibly negative value")
        if f == "log" and lo <= 0:
            raise Undecided("log of a possibly non-positive value")
        (ml, el), (mh, eh) = _round_out(lo, hi, wp)
        if f == "log" and ml <= 0:
            raise Undecided("log argument too close to 0")
        if f == "sqrt" and ml < 0:
            ml = 0
        rl = yield (f, ml, el)
        rh = yield (f, mh, eh)
        if rl is None or rh is None:
            raise Undecided("no enclosure for %s" % f)
        return rl[0], rh[1]
    if k == "pow":
        ex = const_value(ast[2])
        if ex is None:
            raise Undecided("non-constant exponent")
        lo, hi = yield from evaluate(ast[1], wp)
        if ex.denominator == 1:
            n = int(ex)
            if n < 0:
                if lo <= 0 <= hi:
                    raise Undecided("negative power of an interval containing 0")
                lo, hi = 1 / hi, 1 / lo
                n = -n
            if n == 0:
                return Fraction(1), Fraction(1)
            if lo >= 0:
                return lo ** n, hi ** n
            if hi <= 0:
                c = sorted([lo ** n, hi ** n])
                return c[0], c[1]
            if n % 2:
                return lo ** n, hi ** n
            return Fraction(0), max(lo ** n, hi ** n)
        # rational exponent: b**(p/q) = exp((p/q) * log b) for b > 0 (both monotone)
        if lo <= 0:
            raise Undecided("fractional power of a possibly non-positive base")
        (ml, el), (mh, eh) = _round_out(lo, hi, wp)
        if ml <= 0:
            raise Undecided("fractional power: base too close to 0")
        ll = yield ("log", ml, el)
        lh = yield ("log", mh, eh)
        if ll is None or lh is None:
            raise Undecided("no enclosure for log")
        a, b = sorted([ex * ll[0], ex * lh[1]]) if ex >= 0 else sorted([ex * lh[1], ex * ll[0]])
        # the exact range of ex*log(b) lies inside [min, max] of the four corner products
        cs = [ex * ll[0], ex * ll[1], ex * lh[0], ex * lh[1]]
        a, b = min(cs), max(cs)
        (ml, el), (mh, eh) = _round_out(a, b, wp)
        rl = yield ("exp", ml, el)
        rh = yield ("exp", mh, eh)
        if rl is None or rh is None:
            raise Undecided("no enclosure for exp")
        return rl[0], rh[1]
    raise Undecided("unknown node %r" % (k,))


def eval_many(asts, wp):
    """evaluate a list of (ast, wp) in lockstep rounds, one mpdrv batch per round.
    Returns list of (lo, hi) Fractions or ('undecided', reason)."""
    gens = [evaluate(a, w) for a, w in zip(asts, wp)]
    results = [None] * len(asts)
    pending = {}
    for i, g in enumerate(gens):
        try:
            pending[i] = next(g)
        except StopIteration as s:
            results[i] = s.value
        except Undecided as u:
            results[i] = ("undecided", str(u))
    drv = Driver()
    rounds = 0
    while pending:
        rounds += 1
        idx = sorted(pending)
        lines = ["encl %s %d %d %d" % (pending[i][0], wp[i], pending[i][1], pending[i][2]) for i in idx]
        ans = drv.ask(lines)
        newp = {}
        for i, a in zip(idx, ans):
            if a.startswith("P:"):
                lm, le, hm, he = [int(v) for v in a[2:].split(",")]
                val = (_dy_frac(lm, le), _dy_frac(hm, he))
            else:
                val = None
            try:
                newp[i] = gens[i].send(val)
            except StopIteration as s:
                results[i] = s.value
            except Undecided as u:
                results[i] = ("undecided", str(u))
        pending = newp
        if rounds > 200:
            for i in pending:
                results[i] = ("undecided", "too many rounds")
            break
    return results


if __name__ == "__main__":
    if len(sys.argv) > 1 and sys.argv[1] == "--worker":
        worker_main()
    else:
        seed = int(sys.argv[1]) if len(sys.argv) > 1 else 0
        n = int(sys.argv[2]) if len(sys.argv) > 2 else 60
        g = RelGen(seed)
        tasks = [g.pslq_task() for _ in range(n)] + [g.findpoly_task() for _ in range(n)] + [g.identify_task() for _ in range(n // 2)]
        t0 = time.time()
        res = run_tasks(tasks)
        print("ran %d tasks in %.1fs" % (len(tasks), time.time() - t0))
        lines, meta = [], []
        for t, a in zip(tasks, res):
            if a.get("result") and t["kind"] == "pslq":
                lines.append(pslq_line(a)); meta.append((t, a))
            if a.get("result") and t["kind"] == "findpoly":
                lines.append(poly_line(a, t["n"])); meta.append((t, a))
        ans = Driver().ask(lines)
        from collections import Counter
        print(Counter((m[0]["kind"], m[0]["class"], v) for m, v in zip(meta, ans)))
        print(Counter((t["kind"], t["class"], "None" if a.get("result") is None and not a.get("exc") and not a.get("timeout") else
                       ("exc:" + a["exc"] if a.get("exc") else ("timeout" if a.get("timeout") else "result"))) for t, a in zip(tasks, res)))
        for (t, a), v in zip(meta, ans):
            if v != "ok":
                print("NOT OK", v, json.dumps(t), a["result"])
        ids = [(t, a) for t, a in zip(tasks, res) if t["kind"] == "identify" and a.get("result")]
        print([(t["class"], a["result"][:2]) for t, a in ids][:40])
