import MpProofs.Spec
