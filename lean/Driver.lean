/-
  Driver.lean — line protocol over the executable model (lean_exe `mpdrv`).
  One request per line:  <op> <arg> <arg> ...      One canonical answer per line.
  Token formats:  mpf  = sign:hexman:exp:bc     int = signed decimal     rnd = n|f|c|u|d
  Answers:        mpf  = sign:hexman:exp:bc     I:<int>   B:0|1   E:<errkind>   P:<a>,<b>   ?:<msg>
-/
import MpModel

open Mp

namespace Drv

def hexDigit (c : Char) : Option Nat :=
  if '0' ≤ c ∧ c ≤ '9' then some (c.toNat - '0'.toNat)
  else if 'a' ≤ c ∧ c ≤ 'f' then some (c.toNat - 'a'.toNat + 10)
  else if 'A' ≤ c ∧ c ≤ 'F' then some (c.toNat - 'A'.toNat + 10)
  else none

def parseHex (s : String) : Option Nat :=
  if s.isEmpty then none else
  s.foldl (fun acc c => match acc, hexDigit c with
    | some a, some d => some (a * 16 + d)
    | _, _ => none) (some 0)

def parseInt (s : String) : Option Int :=
  if s.startsWith "-" then (s.drop 1).toNat?.map (fun n => -(n : Int))
  else if s.startsWith "+" then (s.drop 1).toNat?.map (fun n => (n : Int))
  else s.toNat?.map (fun n => (n : Int))

def parseRnd (s : String) : Option Rnd :=
  match s with
  | "n" => some .n | "f" => some .f | "c" => some .c | "u" => some .u | "d" => some .d
  | _ => none

def parseMpf (s : String) : Option Mpf :=
  match s.splitOn ":" with
  | [a, b, c, d] => do
    let sign ← a.toNat?
    let man ← parseHex b
    let exp ← parseInt c
    let bc ← parseInt d
    pure ⟨sign, man, exp, bc⟩
  | _ => none

def hexStr (n : Nat) : String := String.ofList (Nat.toDigits 16 n)

def showMpf (x : Mpf) : String :=
  s!"{x.sign}:{hexStr x.man}:{x.exp}:{x.bc}"

def showErr : Err → String
  | .zeroDiv => "E:ZeroDivisionError"
  | .value => "E:ValueError"
  | .complexResult => "E:ComplexResult"
  | .notImpl => "E:NotImplementedError"
  | .overflow => "E:OverflowError"
  | .type => "E:TypeError"

def showE (r : Except Err Mpf) : String :=
  match r with
  | .ok x => showMpf x
  | .error e => showErr e

def showB (b : Bool) : String := if b then "B:1" else "B:0"

def bad : String := "?:bad-op"

def rndName : Rnd → String
  | .n => "n" | .f => "f" | .c => "c" | .u => "u" | .d => "d"

def parseMpfs : List String → Option (List Mpf)
  | [] => some []
  | x :: xs => do
    let a ← parseMpf x
    let r ← parseMpfs xs
    pure (a :: r)

/-- answer one request line -/
def answer (line : String) : String :=
  let toks := (line.trimAscii.toString.splitOn " ").filter (· ≠ "")
  let r : Option String :=
    match toks with
    | ["bitcount", a] => do let n ← parseHex a; pure s!"I:{bitcount n}"
    | ["trailing", a] => do let n ← parseHex a; pure s!"I:{trailing n}"
    | ["isqrt", a] => do let n ← parseHex a; pure s!"I:{hexStr (Nat.sqrt n)}"
    | ["normalize", sg, m, e, bc, p, r] => do
      pure (showMpf (normalize (← sg.toNat?) (← parseHex m) (← parseInt e) (← parseInt bc) (← parseInt p) (← parseRnd r)))
    | ["normalize1", sg, m, e, bc, p, r] => do
      pure (showMpf (normalize1 (← sg.toNat?) (← parseHex m) (← parseInt e) (← parseInt bc) (← parseInt p) (← parseRnd r)))
    | ["from_man_exp", sg, m, e, p, r] => do
      let man : Int := (← parseHex m)
      let man := if (← sg.toNat?) ≠ 0 then -man else man
      pure (showMpf (from_man_exp man (← parseInt e) (← parseInt p) (← parseRnd r)))
    | ["from_int", n, p, r] => do
      pure (showMpf (from_int (← parseInt n) (← parseInt p) (← parseRnd r)))
    | ["to_int", x, r] => do
      let rr : Option Rnd ← (if r = "-" then some none else (parseRnd r).map some)
      match to_int (← parseMpf x) rr with
      | .ok v => pure s!"I:{v}"
      | .error e => pure (showErr e)
    | ["round_int", x, n, r] => do
      pure s!"I:{round_int (← parseInt x) (← n.toNat?) (← parseRnd r)}"
    | ["pos", x, p, r] => do pure (showMpf (mpf_pos (← parseMpf x) (← parseInt p) (← parseRnd r)))
    | ["neg", x, p, r] => do pure (showMpf (mpf_neg (← parseMpf x) (← parseInt p) (← parseRnd r)))
    | ["abs", x, p, r] => do pure (showMpf (mpf_abs (← parseMpf x) (← parseInt p) (← parseRnd r)))
    | ["sign", x] => do pure s!"I:{mpf_sign (← parseMpf x)}"
    | ["add", x, y, p, r] => do pure (showMpf (mpf_add (← parseMpf x) (← parseMpf y) (← parseInt p) (← parseRnd r)))
    | ["sub", x, y, p, r] => do pure (showMpf (mpf_sub (← parseMpf x) (← parseMpf y) (← parseInt p) (← parseRnd r)))
    | ["mul", x, y, p, r] => do pure (showMpf (mpf_mul (← parseMpf x) (← parseMpf y) (← parseInt p) (← parseRnd r)))
    | ["gmul", x, y, p, r] => do pure (showMpf (gmpy_mpf_mul (← parseMpf x) (← parseMpf y) (← parseInt p) (← parseRnd r)))
    | ["mul_int", x, n, p, r] => do pure (showMpf (mpf_mul_int (← parseMpf x) (← parseInt n) (← parseInt p) (← parseRnd r)))
    | ["gmul_int", x, n, p, r] => do pure (showMpf (gmpy_mpf_mul_int (← parseMpf x) (← parseInt n) (← parseInt p) (← parseRnd r)))
    | ["shift", x, n] => do pure (showMpf (mpf_shift (← parseMpf x) (← parseInt n)))
    | ["frexp", x] => do
      match mpf_frexp (← parseMpf x) with
      | .ok (y, n) => pure s!"P:{showMpf y},I:{n}"
      | .error e => pure (showErr e)
    | ["div", x, y, p, r] => do pure (showE (mpf_div (← parseMpf x) (← parseMpf y) (← parseInt p) (← parseRnd r)))
    | ["rdiv_int", n, y, p, r] => do pure (showE (mpf_rdiv_int (← parseInt n) (← parseMpf y) (← parseInt p) (← parseRnd r)))
    | ["from_rational", a, b, p, r] => do pure (showE (from_rational (← parseInt a) (← parseInt b) (← parseInt p) (← parseRnd r)))
    | ["mod", x, y, p, r] => do pure (showE (mpf_mod (← parseMpf x) (← parseMpf y) (← parseInt p) (← parseRnd r)))
    | ["pow_int", x, n, p, r] => do pure (showE (mpf_pow_int (← parseMpf x) (← parseInt n) (← parseInt p) (← parseRnd r)))
    | ["perturb", x, s, p, r] => do pure (showMpf (mpf_perturb (← parseMpf x) (← s.toNat?) (← parseInt p) (← parseRnd r)))
    | ["sqrt", x, p, r] => do pure (showE (mpf_sqrt (← parseMpf x) (← parseInt p) (← parseRnd r)))
    | ["hypot", x, y, p, r] => do pure (showE (mpf_hypot (← parseMpf x) (← parseMpf y) (← parseInt p) (← parseRnd r)))
    | ["mround_int", x, r] => do pure (showE (mpf_round_int (← parseMpf x) (← parseRnd r)))
    | ["floor", x, p, r] => do pure (showE (mpf_floor (← parseMpf x) (← parseInt p) (← parseRnd r)))
    | ["ceil", x, p, r] => do pure (showE (mpf_ceil (← parseMpf x) (← parseInt p) (← parseRnd r)))
    | ["nint", x, p, r] => do pure (showE (mpf_nint (← parseMpf x) (← parseInt p) (← parseRnd r)))
    | ["frac", x, p, r] => do pure (showE (mpf_frac (← parseMpf x) (← parseInt p) (← parseRnd r)))
    | ["eq", x, y] => do pure (showB (mpf_eq (← parseMpf x) (← parseMpf y)))
    | ["cmp", x, y] => do pure s!"I:{mpf_cmp (← parseMpf x) (← parseMpf y)}"
    | ["lt", x, y] => do pure (showB (mpf_lt (← parseMpf x) (← parseMpf y)))
    | ["le", x, y] => do pure (showB (mpf_le (← parseMpf x) (← parseMpf y)))
    | ["gt", x, y] => do pure (showB (mpf_gt (← parseMpf x) (← parseMpf y)))
    | ["ge", x, y] => do pure (showB (mpf_ge (← parseMpf x) (← parseMpf y)))
    | ["hash", x] => do pure s!"I:{mpf_hash (← parseMpf x)}"
    | ["to_fixed", x, p] => do pure s!"I:{to_fixed (← parseMpf x) (← parseInt p)}"
    | ["to_rational", x] => do
      match to_rational (← parseMpf x) with
      | .ok (a, b) => pure s!"P:I:{a},I:{b}"
      | .error e => pure (showErr e)
    | "sum" :: p :: r :: ab :: xs => do
      let l ← parseMpfs xs
      pure (showMpf (mpf_sum l (← parseInt p) (← parseRnd r) (ab == "1")))
    | _ => (DrvHash.answer toks) <|> (DrvCplxIv.answer toks) <|> (DrvStr.answer toks) <|> (DrvIntFun.answer toks) <|> (DrvCache.answer toks) <|> (DrvEncl.answer toks) <|> (Mp.DrvSkel.answer toks) <|> (DrvCert.answer toks) <|> (DrvHelpers.answer toks) <|> (DrvRootCert.answer toks) <|> (DrvWorld.answer toks) <|> (DrvRelCert.answer toks) <|> (DrvBackend.answer toks) <|> (DrvSpecRef.answer toks) <|> (DrvCalcRef.answer toks) <|> (DrvOdeSeg.answer toks) <|> (DrvSpecRef2.answer toks) <|> (DrvCalcSerX.answer toks) <|> (DrvCalcOdeX.answer toks)
  r.getD bad

end Drv

partial def loop (hin hout : IO.FS.Stream) : IO Unit := do
  let line ← hin.getLine
  if line.isEmpty then return ()
  hout.putStrLn (Drv.answer line)
  loop hin hout

def main : IO Unit := do
  let hin ← IO.getStdin
  let hout ← IO.getStdout
  loop hin hout
  hout.flush
