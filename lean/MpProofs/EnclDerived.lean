/-
  MpProofs/EnclDerived.lean — soundness of the derived point evaluators
  (tan, cot, sec, csc, sinh, cosh, tanh, expm1, log1p, asin, acos, asinh, acosh, atanh, sinpi, cospi).
-/
import MpProofs.EnclExp
import MpProofs.EnclLog
import MpProofs.EnclTrig
import Mathlib.Analysis.SpecialFunctions.Arsinh
import Mathlib.Analysis.SpecialFunctions.Arcosh
import Mathlib.Analysis.SpecialFunctions.Artanh
import Mathlib.Analysis.SpecialFunctions.Trigonometric.Inverse

namespace Mp.Encl

theorem half_zpow (a : ℝ) : a * (2 : ℝ) ^ (-1 : ℤ) = a / 2 := by
  rw [zpow_neg_one]; ring

theorem logI_mem {wp : ℕ} {I J : DI} {x : ℝ} (h : logI wp I = some J) (hx : I.Mem x) :
    J.Mem (Real.log x) ∧ 0 < x := by
  obtain ⟨h1, h2⟩ := logI_sound wp I J h x hx.1 hx.2
  exact ⟨h2, lt_of_lt_of_le h1 hx.1⟩

theorem Dy.eqv_iff (x y : Dy) : x.eqv y = true ↔ x.val = y.val := by
  unfold Dy.eqv
  rw [Bool.and_eq_true, Dy.le_iff, Dy.le_iff]
  constructor
  · rintro ⟨h1, h2⟩; exact le_antisymm h1 h2
  · intro h; exact ⟨h.le, h.ge⟩

theorem tanPoint_sound (wp : ℕ) (x : Dy) (F : DI) (h : tanPoint wp x = some F) :
    F.Mem (Real.tan x.val) := by
  obtain ⟨hc, hs⟩ := cosSinI_mem (wp + 8) (DI.mem_point x)
  unfold tanPoint at h
  rw [Option.map_eq_some_iff] at h
  obtain ⟨K, hK, rfl⟩ := h
  rw [Real.tan_eq_sin_div_cos]
  exact DI.mem_round (DI.mem_divI (wp + 8) hs hc hK).1 wp

theorem cotPoint_sound (wp : ℕ) (x : Dy) (F : DI) (h : cotPoint wp x = some F) :
    F.Mem (Real.cot x.val) := by
  obtain ⟨hc, hs⟩ := cosSinI_mem (wp + 8) (DI.mem_point x)
  unfold cotPoint at h
  rw [Option.map_eq_some_iff] at h
  obtain ⟨K, hK, rfl⟩ := h
  rw [Real.cot_eq_cos_div_sin]
  exact DI.mem_round (DI.mem_divI (wp + 8) hc hs hK).1 wp

theorem secPoint_sound (wp : ℕ) (x : Dy) (F : DI) (h : secPoint wp x = some F) :
    F.Mem (1 / Real.cos x.val) := by
  obtain ⟨hc, hs⟩ := cosSinI_mem (wp + 8) (DI.mem_point x)
  unfold secPoint at h
  rw [Option.map_eq_some_iff] at h
  obtain ⟨K, hK, rfl⟩ := h
  exact DI.mem_round (DI.mem_divI (wp + 8) DI.mem_one hc hK).1 wp

theorem cscPoint_sound (wp : ℕ) (x : Dy) (F : DI) (h : cscPoint wp x = some F) :
    F.Mem (1 / Real.sin x.val) := by
  obtain ⟨hc, hs⟩ := cosSinI_mem (wp + 8) (DI.mem_point x)
  unfold cscPoint at h
  rw [Option.map_eq_some_iff] at h
  obtain ⟨K, hK, rfl⟩ := h
  exact DI.mem_round (DI.mem_divI (wp + 8) DI.mem_one hs hK).1 wp

theorem sinhPoint_sound (wp : ℕ) (x : Dy) : (sinhPoint wp x).Mem (Real.sinh x.val) := by
  have hX := DI.mem_point x
  unfold sinhPoint
  rw [Real.sinh_eq, ← half_zpow]
  exact DI.mem_round (DI.mem_shift (DI.mem_sub (expI_mem _ hX) (expI_mem _ (DI.mem_neg hX))) (-1)) wp

theorem coshPoint_sound (wp : ℕ) (x : Dy) : (coshPoint wp x).Mem (Real.cosh x.val) := by
  have hX := DI.mem_point x
  unfold coshPoint
  rw [Real.cosh_eq, ← half_zpow]
  exact DI.mem_round (DI.mem_shift (DI.mem_add (expI_mem _ hX) (expI_mem _ (DI.mem_neg hX))) (-1)) wp

theorem tanhPoint_sound (wp : ℕ) (x : Dy) (F : DI) (h : tanhPoint wp x = some F) :
    F.Mem (Real.tanh x.val) := by
  have hX := DI.mem_point x
  have ha := expI_mem (wp + x.lowBits + 8) hX
  have hb := expI_mem (wp + x.lowBits + 8) (DI.mem_neg hX)
  unfold tanhPoint at h
  rw [Option.map_eq_some_iff] at h
  obtain ⟨K, hK, rfl⟩ := h
  rw [Real.tanh_eq]
  exact DI.mem_round (DI.mem_divI (wp + 8) (DI.mem_sub ha hb) (DI.mem_add ha hb) hK).1 wp

theorem expm1Point_sound (wp : ℕ) (x : Dy) : (expm1Point wp x).Mem (Real.exp x.val - 1) := by
  unfold expm1Point
  exact DI.mem_round (DI.mem_sub (expI_mem _ (DI.mem_point x)) DI.mem_one) wp

theorem log1pPoint_sound (wp : ℕ) (x : Dy) (F : DI) (h : log1pPoint wp x = some F) :
    F.Mem (Real.log (1 + x.val)) ∧ -1 < x.val := by
  unfold log1pPoint at h
  have hp := DI.mem_point (Dy.one.add x)
  rw [Dy.val_add, Dy.val_one] at hp
  obtain ⟨h1, h2⟩ := logI_mem h hp
  exact ⟨h1, by linarith⟩

theorem asinhPos_sound (wp : ℕ) (x : Dy) (F : DI) (h : asinhPos wp x = some F) :
    F.Mem (Real.arsinh x.val) := by
  unfold asinhPos at h
  rw [Option.map_eq_some_iff] at h
  obtain ⟨K, hK, rfl⟩ := h
  have hX := DI.mem_point x
  have hs := sqrtI_sound (wp + x.lowBits + 8) _ _
    (DI.mem_round (DI.mem_add DI.mem_one (DI.mem_mul hX hX)) (wp + x.lowBits + 8))
  have := (logI_mem hK (DI.mem_add hX hs)).1
  unfold Real.arsinh
  rw [sq]
  exact DI.mem_round this wp

theorem asinhPoint_sound (wp : ℕ) (x : Dy) (F : DI) (h : asinhPoint wp x = some F) :
    F.Mem (Real.arsinh x.val) := by
  unfold asinhPoint at h
  split at h
  · rw [Option.map_eq_some_iff] at h
    obtain ⟨K, hK, rfl⟩ := h
    have := DI.mem_neg (asinhPos_sound wp x.neg K hK)
    rw [Dy.val_neg, Real.arsinh_neg, neg_neg] at this
    exact this
  · exact asinhPos_sound wp x F h

theorem acoshPoint_sound (wp : ℕ) (x : Dy) (F : DI) (h : acoshPoint wp x = some F) :
    F.Mem (Real.arcosh x.val) ∧ 1 ≤ x.val := by
  unfold acoshPoint at h
  split at h
  · simp at h
  · rename_i hlt
    have h1 : 1 ≤ x.val := by
      have : ¬ (x.val < Dy.one.val) := by rw [← Dy.lt_iff]; exact hlt
      rw [Dy.val_one] at this; linarith
    refine ⟨?_, h1⟩
    simp only at h
    rw [Option.map_eq_some_iff] at h
    obtain ⟨K, hK, rfl⟩ := h
    have hX := DI.mem_point x
    have hs := sqrtI_sound (wp + (x.sub Dy.one).lowBits + 8) _ _
      (DI.mem_round (DI.mem_sub (DI.mem_mul hX hX) DI.mem_one) (wp + (x.sub Dy.one).lowBits + 8))
    have := (logI_mem hK (DI.mem_add hX hs)).1
    unfold Real.arcosh
    rw [sq]
    exact DI.mem_round this wp

theorem atanhPoint_sound (wp : ℕ) (x : Dy) (F : DI) (h : atanhPoint wp x = some F) :
    F.Mem (Real.artanh x.val) ∧ -1 < x.val ∧ x.val < 1 := by
  unfold atanhPoint at h
  split at h
  · rename_i hc
    obtain ⟨hc1, hc2⟩ := hc
    rw [Dy.lt_iff, Dy.val_ofInt] at hc1
    rw [Dy.lt_iff, Dy.val_one] at hc2
    push_cast at hc1
    refine ⟨?_, hc1, hc2⟩
    simp only at h
    rw [Option.map_eq_some_iff] at h
    obtain ⟨L, hL, rfl⟩ := h
    rw [Option.bind_eq_some_iff] at hL
    obtain ⟨Q, hQ, hL⟩ := hL
    have hX := DI.mem_point x
    have hq := (DI.mem_divI _ (DI.mem_add DI.mem_one hX) (DI.mem_sub DI.mem_one hX) hQ).1
    have hl := (logI_mem hL hq).1
    rw [Real.artanh_eq_half_log ⟨hc1.le, hc2.le⟩]
    have := DI.mem_round (DI.mem_shift hl (-1)) wp
    rw [half_zpow] at this
    convert this using 1
    ring
  · simp at h

theorem asinOpen_sound (wp : ℕ) (x : Dy) (F : DI) (h : asinOpen wp x = some F)
    (h1 : -1 < x.val) (h2 : x.val < 1) : F.Mem (Real.arcsin x.val) := by
  unfold asinOpen at h
  rw [Option.map_eq_some_iff] at h
  obtain ⟨Q, hQ, rfl⟩ := h
  have hX := DI.mem_point x
  have hs := sqrtI_sound (wp + 8) _ _ (DI.mem_sub DI.mem_one (DI.mem_mul hX hX))
  have hq := (DI.mem_divI _ hX hs hQ).1
  rw [Real.arcsin_eq_arctan ⟨h1, h2⟩, sq]
  exact DI.mem_round (atanI_mem (wp + 8) hq) wp

theorem asinPoint_sound (wp : ℕ) (x : Dy) (F : DI) (h : asinPoint wp x = some F) :
    F.Mem (Real.arcsin x.val) ∧ -1 ≤ x.val ∧ x.val ≤ 1 := by
  unfold asinPoint at h
  have hpi2 : ((piI (wp + 8)).shift (-1)).Mem (Real.pi / 2) := by
    have := DI.mem_shift (piI_mem (wp + 8)) (-1)
    rwa [half_zpow] at this
  split at h
  · rename_i hc
    obtain ⟨hc1, hc2⟩ := hc
    rw [Dy.lt_iff, Dy.val_ofInt] at hc1
    rw [Dy.lt_iff, Dy.val_one] at hc2
    push_cast at hc1
    exact ⟨asinOpen_sound wp x F h hc1 hc2, hc1.le, hc2.le⟩
  · split at h
    · rename_i he
      rw [Dy.eqv_iff, Dy.val_one] at he
      simp only [Option.some.injEq] at h; subst h
      rw [he, Real.arcsin_one]
      exact ⟨DI.mem_round hpi2 wp, by norm_num, le_rfl⟩
    · split at h
      · rename_i he
        rw [Dy.eqv_iff, Dy.val_ofInt] at he
        push_cast at he
        simp only [Option.some.injEq] at h; subst h
        rw [he, Real.arcsin_neg_one]
        exact ⟨DI.mem_round (DI.mem_neg hpi2) wp, le_rfl, by norm_num⟩
      · simp at h

theorem acosPoint_sound (wp : ℕ) (x : Dy) (F : DI) (h : acosPoint wp x = some F) :
    F.Mem (Real.arccos x.val) ∧ -1 ≤ x.val ∧ x.val ≤ 1 := by
  unfold acosPoint at h
  simp only at h
  have hX := DI.mem_point x
  have hpi2 : ((piI (wp + 8)).shift (-1)).Mem (Real.pi / 2) := by
    have := DI.mem_shift (piI_mem (wp + 8)) (-1)
    rwa [half_zpow] at this
  split at h
  · rename_i hpos
    have hx0 : 0 < x.val := (Dy.val_pos_iff x).2 hpos
    split at h
    · rename_i hle
      rw [Dy.le_iff, Dy.val_one] at hle
      rw [Option.map_eq_some_iff] at h
      obtain ⟨Q, hQ, rfl⟩ := h
      have hs := sqrtI_sound (wp + 8) _ _ (DI.mem_sub DI.mem_one (DI.mem_mul hX hX))
      have hq := (DI.mem_divI _ hs hX hQ).1
      rw [Real.arccos_eq_arctan hx0, sq]
      exact ⟨DI.mem_round (atanI_mem (wp + 8) hq) wp, by linarith, hle⟩
    · simp at h
  · rename_i hnp
    have hx0 : x.val ≤ 0 := (Dy.val_nonpos_iff x).2 (by omega)
    split at h
    · rename_i hgt
      rw [Dy.lt_iff, Dy.val_ofInt] at hgt
      push_cast at hgt
      rw [Option.map_eq_some_iff] at h
      obtain ⟨A, hA, rfl⟩ := h
      have ha := asinOpen_sound (wp + 8) x A hA hgt (by linarith)
      rw [Real.arccos_eq_pi_div_two_sub_arcsin]
      exact ⟨DI.mem_round (DI.mem_sub hpi2 ha) wp, hgt.le, by linarith⟩
    · split at h
      · rename_i he
        rw [Dy.eqv_iff, Dy.val_ofInt] at he
        push_cast at he
        simp only [Option.some.injEq] at h; subst h
        rw [he, Real.arccos_neg_one]
        exact ⟨piI_mem wp, le_rfl, by norm_num⟩
      · simp at h

theorem cosSinPi_sound (wp : ℕ) (x : Dy) :
    (cosSinPi wp x).1.Mem (Real.cos (Real.pi * x.val)) ∧ (cosSinPi wp x).2.Mem (Real.sin (Real.pi * x.val)) := by
  unfold cosSinPi
  simp only
  generalize ((x.shift 1).add ⟨1, -1⟩).floor = n
  set r0 := x.sub ((Dy.ofInt n).shift (-1)) with hr0
  have hr0v : r0.val = x.val - (n : ℝ) / 2 := by
    rw [hr0, Dy.val_sub, Dy.val_shift, Dy.val_ofInt, half_zpow]
  set R := ((piI (wp + 16)).mul (DI.point r0)).round (wp + 16) with hR
  have hr : R.Mem (Real.pi * r0.val) := DI.mem_round (DI.mem_mul (piI_mem _) (DI.mem_point r0)) _
  have hsplit : Real.pi * x.val = Real.pi * r0.val + (n : ℝ) * (Real.pi / 2) := by
    rw [hr0v]; ring
  split
  · rename_i hmag
    rw [Dy.le_iff, Dy.val_one] at hmag
    have habs := le_trans (DI.abs_le_mag hr) hmag
    obtain ⟨hc, hs⟩ := cosSinSmall_sound (wp + 16) (nTerms (wp + 16) R.mag.lowBits / 2 + 1) R _ hr habs
      (by omega)
    rw [hsplit]
    exact quadrant_sound n _ _ _ hc hs
  · exact ⟨mem_full_cos _, mem_full_sin _⟩

end Mp.Encl
